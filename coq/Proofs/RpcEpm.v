(* Tower floors, the floor loop, the tower loop of EptMapResult.unpack on a general layout
   (shared by C12's round trip and C18's reference replies). *)
From V Require Import Prelude.Base Prelude.PyInt Prelude.PySlice Model.Pdu Model.Request Model.RpcLoop Model.Bind Model.Epm.
From V Require Import Proofs.RpcLib Proofs.RpcKernels Proofs.RpcPdu Proofs.RpcBind.

(* the registry dispatch of Floor.unpack as a function of the three wire fields *)
Definition floor_kind_of (proto : Z) (lhs rhs : bytes) : res floor_kind :=
  if proto =? c_FLOOR_TCP then Ok (FK_TCP (be_val rhs))
  else if proto =? c_FLOOR_IP then Ok (FK_IP (be_val rhs))
  else if proto =? c_FLOOR_RPC_CO then Ok (FK_RPC_CO (le_val rhs))
  else if proto =? c_FLOOR_UUID then
    let* u := uuid_of_bytes_le (slice (Some 0) (Some 16) lhs) in
    Ok (FK_UUID u (le_val (slice (Some 16) (Some 18) lhs)) (le_val rhs))
  else Ok FK_Generic.

Lemma len_floor_generic_pack p lhs rhs : len (floor_generic_pack p lhs rhs) = len lhs + len rhs + 5.
Proof. unfold floor_generic_pack. cbn [concat]. lens. lia. Qed.

Lemma floor_generic_rt p lhs rhs rest :
  in_range 1 p = true -> in_range 2 (len lhs + 1) = true -> in_range 2 (len rhs) = true ->
  floor_unpack (floor_generic_pack p lhs rhs ++ rest) =
  let* kind := floor_kind_of p lhs rhs in Ok {| fl_kind := kind; fl_protocol := p; fl_lhs := lhs; fl_rhs := rhs |}.
Proof.
  intros Hp Hl Hr. apply in_range_spec in Hp. rewrite P_1 in Hp.
  unfold floor_unpack, floor_generic_pack. rewrite len_concat_app. cbn [app]. rewrite le1 by lia.
  rewrite !slice_None_lo. field1. rewrite (le_val_le' _ _ Hl).
  index1. rewrite floor_offset_spec.
  replace (len lhs + 1 + 2) with (3 + len lhs) by lia.
  field_try 2%nat. field_try 3%nat. rewrite (le_val_le' _ _ Hr). field_try 4%nat.
  reflexivity.
Qed.

(* C12: a well-formed floor decodes to itself with the raw caches filled in *)
Lemma floor_kind_of_wf f : wf_floor f = true ->
  floor_kind_of (floor_protocol f) (floor_lhs f) (floor_rhs f) = Ok (fl_kind f) /\ in_range 1 (floor_protocol f) = true.
Proof.
  unfold wf_floor, floor_kind_of, floor_protocol, floor_lhs, floor_rhs. intros H. wf_split.
  destruct (fl_kind f) as [|port|addr|vm|u v vm] eqn:Ek.
  - wf_split. split; [|assumption]. apply in_range_spec in H0. rewrite P_1 in H0.
    unfold mem, c_FLOOR_registry in H4. cbn [existsb] in H4.
    unfold c_FLOOR_TCP, c_FLOOR_IP, c_FLOOR_RPC_CO, c_FLOOR_UUID.
    destruct (fl_protocol f =? 7) eqn:E1; [lia|]. destruct (fl_protocol f =? 9) eqn:E2; [lia|].
    destruct (fl_protocol f =? 11) eqn:E3; [lia|]. destruct (fl_protocol f =? 13) eqn:E4; [lia|]. reflexivity.
  - split; [|reflexivity]. change (c_FLOOR_TCP =? c_FLOOR_TCP) with true. cbv iota.
    rewrite be_val_be by (now apply in_range_spec). reflexivity.
  - split; [|reflexivity]. change (c_FLOOR_IP =? c_FLOOR_TCP) with false. change (c_FLOOR_IP =? c_FLOOR_IP) with true. cbv iota.
    rewrite be_val_be by (now apply in_range_spec). reflexivity.
  - split; [|reflexivity]. change (c_FLOOR_RPC_CO =? c_FLOOR_TCP) with false. change (c_FLOOR_RPC_CO =? c_FLOOR_IP) with false.
    change (c_FLOOR_RPC_CO =? c_FLOOR_RPC_CO) with true. cbv iota. rewrite le_val_le' by assumption. reflexivity.
  - split; [|reflexivity]. wf_split. unfold wf_uuid in H0. wf_split.
    change (c_FLOOR_UUID =? c_FLOOR_TCP) with false. change (c_FLOOR_UUID =? c_FLOOR_IP) with false.
    change (c_FLOOR_UUID =? c_FLOOR_RPC_CO) with false. change (c_FLOOR_UUID =? c_FLOOR_UUID) with true. cbv iota.
    assert (Hu : len u = 16) by lia.
    rewrite slice_app_l' by lia. unfold uuid_of_bytes_le. rewrite H0. cbn [bind].
    rewrite slice_skip by lia. rewrite Hu. change (16 - 16) with 0. change (18 - 16) with 2.
    rewrite slice_full by (rewrite len_le; reflexivity).
    rewrite !le_val_le' by assumption. reflexivity.
Qed.

Lemma floor_rt f rest : wf_floor f = true -> floor_unpack (floor_pack f ++ rest) = Ok (floor_norm f).
Proof.
  intros H. destruct (floor_kind_of_wf f H) as [Hk Hp]. unfold wf_floor in H. wf_split.
  unfold floor_pack. rewrite floor_generic_rt by assumption. rewrite Hk. reflexivity.
Qed.
Lemma floor_adv f rest : wf_floor f = true ->
  slice (Some (len (fl_lhs (floor_norm f)) + len (fl_rhs (floor_norm f)) + 5)) None (floor_pack f ++ rest) = rest.
Proof. intros _. cbn [floor_norm fl_lhs fl_rhs]. unfold floor_pack. rewrite <- (len_floor_generic_pack (floor_protocol f)). apply slice_app_r. Qed.

Lemma floors_unpack_rt t fuel rest : forallb wf_floor t = true -> (length t <= fuel)%nat ->
  floors_unpack fuel (len t) (concat (map floor_pack t) ++ rest) = Ok ((rest, map floor_norm t), len t).
Proof.
  intros Hok Hf. unfold floors_unpack.
  exact (for_range_items_gen floor_unpack floor_pack floor_norm (fun f => len (fl_lhs f) + len (fl_rhs f) + 5) wf_floor
           floor_rt floor_adv t fuel rest [] 0 Hf Hok).
Qed.

(* ---- entry handle ---- *)
Lemma len_entry_handle_pack h : wf_entry_handle h = true -> len (entry_handle_pack h) = 20.
Proof. destruct h as [[a u]|]; cbn [wf_entry_handle entry_handle_pack]; intros H; [|reflexivity].
  apply andb_true_iff in H. destruct H as [H Hneg]. apply andb_true_iff in H. destruct H as [Ha Hu].
  unfold wf_uuid in Hu. apply andb_true_iff in Hu. destruct Hu as [Hu16 Hwb]. rewrite len_app, len_le. lia. Qed.
Lemma entry_handle_rt h rest : wf_entry_handle h = true -> entry_handle_unpack (entry_handle_pack h ++ rest) = Ok h.
Proof.
  intros H. pose proof (len_entry_handle_pack h H) as Hl. unfold entry_handle_unpack.
  rewrite slice_None_lo, slice_app_l' by lia.
  destruct h as [[a u]|]; cbn [wf_entry_handle entry_handle_pack] in *.
  - apply andb_true_iff in H. destruct H as [H Hneg]. apply andb_true_iff in H. destruct H as [Ha Hu].
    unfold wf_uuid in Hu. apply andb_true_iff in Hu. destruct Hu as [Hu16 Hwb].
    rewrite negb_true_iff in Hneg. rewrite Hneg.
    assert (Hu : len u = 16) by lia.
    rewrite <- app_assoc. rewrite slice_skip by (rewrite len_le; lia). rewrite len_le.
    change (4 - Z.of_nat 4) with 0. change (20 - Z.of_nat 4) with 16. rewrite slice_app_l' by lia.
    unfold uuid_of_bytes_le. rewrite Hu16. cbn [bind].
    rewrite slice_None_lo, slice_app_l' by (rewrite len_le; reflexivity). rewrite le_val_le' by assumption. reflexivity.
  - rewrite bytes_eqb_refl. reflexivity.
Qed.

Fixpoint tower_ticks {B} (ts : list (list B)) : Z := match ts with [] => 0 | t :: r => 1 + len t + tower_ticks r end.

Section Towers.
Variables (B : Type) (packf : B -> bytes) (decf : B -> floor) (okf : B -> bool).
Hypothesis Hrt : forall b rest, okf b = true -> floor_unpack (packf b ++ rest) = Ok (decf b).
Hypothesis Hadv : forall b rest, okf b = true ->
  slice (Some (len (fl_lhs (decf b)) + len (fl_rhs (decf b)) + 5)) None (packf b ++ rest) = rest.

Definition twr_bytes (t : list B) : bytes := le 2 (len t) ++ concat (map packf t).
Definition ok_tower (t : list B) : bool := forallb okf t && in_range 2 (len t) && in_range 4 (len (twr_bytes t)).

(* the tower area as EptMapResult.unpack walks it: max_count, length, octets, then whatever the
   alignment skip of the decoder leaves as the start of the next tower *)
Fixpoint towers_at (ts : list (list B)) (view : bytes) : Prop :=
  match ts with
  | [] => True
  | t :: r => exists X, view = le 8 (len (twr_bytes t)) ++ le 4 (len (twr_bytes t)) ++ twr_bytes t ++ X /\
      match r with [] => True | _ => towers_at r (slice (Some (k_eptres_unpack_pad (len (twr_bytes t)))) None X) end
  end.

Definition tower_body (fuel0 : nat) : bytes * list (list floor) -> res ((bytes * list (list floor)) * Z) :=
  fun '(view, towers) =>
    let tower_length := le_val (slice None (Some 8) view) in
    let padding := k_eptres_unpack_pad tower_length in
    let floor_len := le_val (slice (Some 12) (Some 14) view) in
    let view := slice (Some 14) None view in
    let* (fs, t) := floors_unpack fuel0 floor_len view in
    Ok ((slice (Some padding) None (fst fs), towers ++ [snd fs]), t).

Lemma in_range_4_8 z : in_range 4 z = true -> in_range 8 z = true.
Proof. intros H. apply in_range_spec in H. apply in_range_spec. rewrite P_4 in H. rewrite P_8. lia. Qed.

Lemma towers_loop fuel0 : forall ts fuel view acc t, towers_at ts view -> forallb ok_tower ts = true ->
  (length ts <= fuel)%nat -> (forall tw, In tw ts -> (length tw <= fuel0)%nat) ->
  exists v', for_range fuel (len ts) (tower_body fuel0) (view, acc) t = Ok ((v', acc ++ map (map decf) ts), t + tower_ticks ts).
Proof.
  induction ts as [|tw ts IH]; intros fuel view acc t Hat Hok Hf Hin.
  - exists view. destruct fuel; cbn; rewrite app_nil_r, Z.add_0_r; reflexivity.
  - cbn [forallb] in Hok. apply andb_true_iff in Hok. destruct Hok as [Hot Hok].
    unfold ok_tower in Hot. apply andb_true_iff in Hot. destruct Hot as [Hot HL]. apply andb_true_iff in Hot. destruct Hot as [Hfl Hn].
    destruct Hat as (X & Hview & Hrest).
    destruct fuel as [|fuel]; [cbn in Hf; lia|]. cbn [for_range].
    rewrite len_cons. pose proof (len_nonneg ts) as Hnn. destruct (1 + len ts <=? 0) eqn:E; [exfalso; apply Z.leb_le in E; clear - Hnn E; lia|].
    set (L := len (twr_bytes tw)) in *.
    assert (Hv : view = concat [le 8 L; le 4 L; le 2 (len tw); concat (map packf tw) ++ X]).
    { rewrite Hview. unfold twr_bytes. cbn [concat]. rewrite app_nil_r, <- !app_assoc. reflexivity. }
    unfold tower_body at 1. rewrite Hv.
    rewrite !slice_None_lo. field_try 0%nat. rewrite (le_val_le' _ _ (in_range_4_8 _ HL)).
    field_try 2%nat. rewrite (le_val_le' _ _ Hn). tail_try 3%nat. cbn [concat]. rewrite app_nil_r.
    unfold floors_unpack.
    pose proof (for_range_items_gen floor_unpack packf decf (fun f => len (fl_lhs f) + len (fl_rhs f) + 5) okf Hrt Hadv tw fuel0 X [] 0
               (Hin tw (or_introl eq_refl)) Hfl) as Hfloors.
    match goal with |- context [for_range fuel0 (len tw) ?b ?s 0] =>
      assert (Hfl2 : for_range fuel0 (len tw) b s 0 = Ok ((X, [] ++ map decf tw), 0 + len tw)) by exact Hfloors; rewrite Hfl2 end.
    cbn [bind fst snd app].
    replace (1 + len ts - 1) with (len ts) by lia.
    destruct ts as [|tw2 ts2].
    + eexists. destruct fuel; cbn [for_range len length Z.of_nat Z.leb Z.compare map app tower_ticks];
        rewrite ?Z.add_0_r; replace (t + 1 + (0 + len tw)) with (t + (1 + len tw)) by lia; reflexivity.
    + destruct (IH fuel _ (acc ++ [map decf tw]) (t + 1 + (0 + len tw)) Hrest Hok ltac:(cbn in Hf; cbn; lia)
                  ltac:(intros; apply Hin; now right)) as (v' & Hloop).
      exists v'. etransitivity; [exact Hloop|]. rewrite <- app_assoc. cbn [app map tower_ticks].
      replace (t + 1 + (0 + len tw) + (1 + len tw2 + tower_ticks ts2)) with (t + (1 + len tw + (1 + len tw2 + tower_ticks ts2))) by lia.
      reflexivity.
Qed.

(* EptMapResult.unpack on the NDR64 layout: context handle, num_towers(4), max count(8), offset(8), actual
   count(8), one 8-octet referent per tower, the tower area, status(4). The client reads the actual count
   and ignores num_towers / max count / offset / referent values. *)
Lemma eptres_unpack_layout h f4 f8a f8b refs ts area status fuel :
  wf_entry_handle h = true -> len f4 = 4 -> len f8a = 8 -> len f8b = 8 -> len refs = 8 * len ts ->
  in_range 4 (len ts) = true -> in_range 4 status = true ->
  towers_at ts (area ++ le 4 status) -> forallb ok_tower ts = true ->
  (length ts <= fuel)%nat -> (forall tw, In tw ts -> (length tw <= fuel)%nat) ->
  ept_map_result_unpack fuel (entry_handle_pack h ++ f4 ++ f8a ++ f8b ++ le 8 (len ts) ++ refs ++ area ++ le 4 status)
  = Ok ({| er_entry_handle := h; er_towers := map (map decf) ts; er_status := status |}, tower_ticks ts).
Proof.
  intros Hh H4 H8a H8b Hrefs Hn Hst Hat Hok Hf Hin.
  pose proof (len_entry_handle_pack h Hh) as Hlh. pose proof (len_nonneg area) as Hla. pose proof (len_nonneg ts) as Hlt.
  unfold ept_map_result_unpack.
  (* status from the last four octets *)
  assert (Hs : slice (Some (-4)) None (entry_handle_pack h ++ f4 ++ f8a ++ f8b ++ le 8 (len ts) ++ refs ++ area ++ le 4 status) = le 4 status).
  { replace (entry_handle_pack h ++ f4 ++ f8a ++ f8b ++ le 8 (len ts) ++ refs ++ area ++ le 4 status)
      with ((entry_handle_pack h ++ f4 ++ f8a ++ f8b ++ le 8 (len ts) ++ refs ++ area) ++ le 4 status) by (now rewrite <- !app_assoc).
    exact (slice_neg_tail _ (le 4 status) 4 (eq_sym (len_le 4 status)) eq_refl). }
  rewrite Hs, (le_val_le' _ _ Hst). rewrite (entry_handle_rt _ _ Hh). cbn [bind].
  assert (Hv : entry_handle_pack h ++ f4 ++ f8a ++ f8b ++ le 8 (len ts) ++ refs ++ area ++ le 4 status
             = concat [entry_handle_pack h; f4; f8a; f8b; le 8 (len ts); refs; area ++ le 4 status]).
  { cbn [concat]. now rewrite app_nil_r. }
  rewrite Hv. field_try 4%nat. rewrite (le_val_le' _ _ (in_range_4_8 _ Hn)). rewrite referent_skip_spec.
  assert (Hg : k_eptres_count_guard (8 * len ts)
                 (len (concat [entry_handle_pack h; f4; f8a; f8b; le 8 (len ts); refs; area ++ le 4 status])) = false).
  { apply count_guard_spec. cbn [concat]. lens. lia. }
  rewrite Hg. tail_try 6%nat. cbn [concat]. rewrite app_nil_r.
  destruct (towers_loop fuel ts fuel (area ++ le 4 status) [] 0 Hat Hok Hf Hin) as (v' & Hloop).
  match goal with |- context [for_range fuel (len ts) ?b ?s 0] =>
    assert (Hl2 : for_range fuel (len ts) b s 0 = Ok ((v', [] ++ map (map decf) ts), 0 + tower_ticks ts)) by exact Hloop; rewrite Hl2 end.
  cbn [bind snd app]. reflexivity.
Qed.
End Towers.

(* ---- C12: EptMapResult round trip as an instance of the layout lemma ---- *)
Lemma tower_bytes_eq t : tower_bytes t = twr_bytes floor floor_pack t.
Proof. unfold tower_bytes, twr_bytes. cbn [concat]. now rewrite app_nil_r. Qed.

Lemma towers_pack_at n : forall ts idx rest, 0 <= idx -> idx + len ts = n ->
  towers_at floor floor_pack ts (towers_pack n idx ts ++ rest).
Proof.
  induction ts as [|t r IH]; intros idx rest Hi Hn; [exact I|].
  cbn [towers_pack towers_at]. rewrite tower_bytes_eq. set (L := len (twr_bytes floor floor_pack t)).
  exists (repeat 0 (Z.to_nat (k_eptres_pack_pad L idx n)) ++ towers_pack n (idx + 1) r ++ rest).
  split. { cbn [concat]. rewrite app_nil_r, <- !app_assoc. reflexivity. }
  destruct r as [|t2 r2]; [exact I|].
  rewrite !len_cons in Hn. pose proof (len_nonneg r2).
  rewrite eptres_pad_inner by lia. pose proof (eptres_unpack_pad_range L) as [Hr _].
  rewrite slice_app_r_len by (rewrite len_repeat; lia). apply IH; rewrite ?len_cons; lia.
Qed.

Lemma len_referents_pack ts : forall idx, len (referents_pack idx ts) = 8 * len ts.
Proof. induction ts as [|t r IH]; intros idx; [reflexivity|]. cbn [referents_pack]. rewrite len_app, len_le, len_cons, IH. lia. Qed.

Lemma len_floor_pack_ge f : 1 <= len (floor_pack f).
Proof. unfold floor_pack. rewrite len_floor_generic_pack. pose proof (len_nonneg (floor_lhs f)). pose proof (len_nonneg (floor_rhs f)). lia. Qed.
Lemma len_floors_ge t : len t <= len (concat (map floor_pack t)).
Proof. induction t as [|f t IH]; [reflexivity|]. cbn [map concat]. rewrite len_app, len_cons. pose proof (len_floor_pack_ge f). lia. Qed.
Lemma towers_pack_ge n tw : forall ts idx, In tw ts -> len tw <= len (towers_pack n idx ts).
Proof.
  induction ts as [|t r IH]; intros idx []; cbn [towers_pack].
  - subst t. cbn [concat]. unfold tower_bytes. cbn [concat]. rewrite !len_app. pose proof (len_floors_ge tw).
    repeat match goal with |- context [len ?x] => lazymatch goal with H : 0 <= len x |- _ => fail | _ => pose proof (len_nonneg x) end end. lia.
  - rewrite len_app. specialize (IH (idx + 1) H). pose proof (len_nonneg (concat [le 8 (len (tower_bytes t)); le 4 (len (tower_bytes t)); tower_bytes t;
      repeat 0 (Z.to_nat (k_eptres_pack_pad (len (tower_bytes t)) idx n))])). lia.
Qed.

Lemma ept_map_result_rt m fuel : wf_ept_map_result m = true -> (length (ept_map_result_pack m) <= fuel)%nat ->
  ept_map_result_unpack fuel (ept_map_result_pack m) = Ok (ept_map_result_norm m, tower_ticks (er_towers m)).
Proof.
  unfold wf_ept_map_result. intros H Hf.
  apply andb_true_iff in H. destruct H as [H Hst]. apply andb_true_iff in H. destruct H as [H Hn]. apply andb_true_iff in H. destruct H as [Hh Hts].
  assert (Hpack : ept_map_result_pack m = entry_handle_pack (er_entry_handle m) ++ le 4 (len (er_towers m)) ++ le 8 (len (er_towers m)) ++
            repeat 0 8 ++ le 8 (len (er_towers m)) ++ referents_pack 0 (er_towers m) ++ towers_pack (len (er_towers m)) 0 (er_towers m) ++ le 4 (er_status m)).
  { unfold ept_map_result_pack. cbn [concat]. now rewrite app_nil_r. }
  rewrite Hpack in *.
  assert (Hlen : len (referents_pack 0 (er_towers m)) + len (towers_pack (len (er_towers m)) 0 (er_towers m)) <= Z.of_nat fuel).
  { revert Hf. rewrite !app_length. unfold len. lia. }
  pose proof (len_referents_pack (er_towers m) 0) as Hrefs. pose proof (len_nonneg (er_towers m)).
  pose proof (len_nonneg (towers_pack (len (er_towers m)) 0 (er_towers m))).
  rewrite (eptres_unpack_layout floor floor_pack floor_norm wf_floor floor_rt floor_adv); try assumption; try reflexivity.
  - apply towers_pack_at; lia.
  - rewrite forallb_forall in *. intros t Ht. specialize (Hts t Ht). unfold ok_tower. rewrite <- tower_bytes_eq. exact Hts.
  - unfold len in *. lia.
  - intros tw Htw. pose proof (towers_pack_ge (len (er_towers m)) tw _ 0 Htw). unfold len in *. lia.
Qed.

(* re-packing the decoded (normalised) value gives the same bytes *)
Lemma floor_pack_norm f : floor_pack (floor_norm f) = floor_pack f.
Proof. destruct f as [k p l r]. destruct k; reflexivity. Qed.
Lemma tower_bytes_norm t : tower_bytes (map floor_norm t) = tower_bytes t.
Proof. unfold tower_bytes. rewrite len_map, map_map. rewrite (map_ext _ floor_pack floor_pack_norm). reflexivity. Qed.
Lemma towers_pack_norm n : forall ts idx, towers_pack n idx (map (map floor_norm) ts) = towers_pack n idx ts.
Proof. induction ts as [|t r IH]; intros idx; [reflexivity|]. cbn [map towers_pack]. rewrite tower_bytes_norm, IH. reflexivity. Qed.
Lemma referents_pack_norm : forall ts idx, referents_pack idx (map (map floor_norm) ts) = referents_pack idx ts.
Proof. induction ts as [|t r IH]; intros idx; [reflexivity|]. cbn [map referents_pack]. now rewrite IH. Qed.
Lemma ept_map_result_pack_norm m : ept_map_result_pack (ept_map_result_norm m) = ept_map_result_pack m.
Proof. unfold ept_map_result_pack, ept_map_result_norm. cbn [er_towers er_entry_handle er_status].
  rewrite len_map, towers_pack_norm, referents_pack_norm. reflexivity. Qed.
