(* Tie theorems, the steps of the GetKey conversation that live in _rpc/_client.py and _rpc/_auth.py (C17): the regenerated syntax of
   RpcClient._create_bind / _create_alter_context (against the concrete Bind / AlterContext records Model/Conversation.v puts behind
   Handshake's abstract PDUs: bind_pdu_of_sent), SyncRpcClient.request / AsyncRpcClient.request (Conversation.rpc_request) and
   AuthenticationProvider.step / complete (Conversation.step_trailer), run in the world Flow/World_client.v. *)
From V Require Import Prelude.Base Prelude.PyInt Prelude.PySlice Prelude.PyAst Prelude.PyWorld gen.F_client gen.K_client gen.C_client gen.C_rpc gen.K_online gen.C_online.
From V Require Import Model.Pdu Model.Request Model.Bind Model.Verification Model.RpcDispatch.
From V Require Import Model.Handshake Model.Framing Model.Seal Model.Recv Model.Conversation Model.Types Model.Gkdi.
From V Require Import Flow.World_client Proofs.FlowClientLib.
Local Open Scope string_scope.
Local Open Scope list_scope.
Local Open Scope Z_scope.

Arguments len : simpl never.
Arguments Z.lor : simpl never.
Arguments k_alter_flags : simpl never.
Arguments create_request : simpl never.
Arguments prepare_pdu : simpl never.
Arguments receive_response : simpl never.
Arguments request_pack : simpl never.
Arguments verification_trailer_pack : simpl never.

Section Conv.
Context (wrap : wrap_fn) (unwrap : unwrap_fn) (sch : list Z).
Notation W := (WC wrap unwrap sch).

Lemma ces_of_cev cs : ces_of (map cev cs) = Some cs.
Proof. induction cs as [|c r IH]; [reflexivity|]. cbn. now rewrite IH. Qed.

(* _create_bind(self, contexts, sec_trailer): the Bind record, and self._sign_header afterwards *)
Lemma flow_create_bind_pdu fuel c cs st :
  run_self W fuel k_flow_create_bind [VO (OSelf c); VL (map cev cs); stv st]
  = Ok (VO (OBind {| b_header := create_pdu_header c_PT_BIND (match st with Some s => len (st_auth_value s) | None => 0 end) 1
                                    (match st with Some _ => Z.lor c_PFC_NONE c_PFC_SUPPORT_HEADER_SIGN | None => c_PFC_NONE end);
                     b_sec_trailer := st; b_max_xmit_frag := 5840; b_max_recv_frag := 5840; b_assoc_group := 0; b_contexts := cs |}),
        Some (VO (OSelf (match st with Some _ => cl_set_sign c true | None => c end)))).
Proof.
  unfold run_self. destruct st as [s|]; cbn; rewrite ces_of_cev; reflexivity.
Qed.

(* ... which is the PDU Model/Conversation.v puts behind Handshake's SBind *)
Lemma create_bind_pdu_is_model pv all ids tk :
  {| b_header := create_pdu_header c_PT_BIND (match option_map (step_trailer pv) tk with Some s => len (st_auth_value s) | None => 0 end) 1
                   (match option_map (step_trailer pv) tk with Some _ => Z.lor c_PFC_NONE c_PFC_SUPPORT_HEADER_SIGN | None => c_PFC_NONE end);
     b_sec_trailer := option_map (step_trailer pv) tk; b_max_xmit_frag := 5840; b_max_recv_frag := 5840; b_assoc_group := 0;
     b_contexts := select_contexts all ids |}
  = bind_pdu_of_sent pv all (SBind (match tk with Some _ => Z.lor c_PFC_NONE c_PFC_SUPPORT_HEADER_SIGN | None => c_PFC_NONE end) tk ids).
Proof. destruct tk; reflexivity. Qed.


(* _create_alter_context(self, contexts, sec_trailer) *)
Lemma flow_create_alter_context_pdu fuel c cs s :
  run_self W fuel k_flow_create_alter_context [VO (OSelf c); VL (map cev cs); VO (OSt s)]
  = Ok (VO (OAlter {| b_header := create_pdu_header c_PT_ALTER_CONTEXT (len (st_auth_value s)) 1
                                     (k_alter_flags (cl_sign c) c_PFC_SUPPORT_HEADER_SIGN c_PFC_NONE);
                      b_sec_trailer := Some s; b_max_xmit_frag := 5840; b_max_recv_frag := 5840; b_assoc_group := 0; b_contexts := cs |}),
        Some (VO (OSelf c))).
Proof.
  unfold run_self, k_alter_flags. cbn. rewrite truthy_vb. destruct (cl_sign c); cbn; rewrite ces_of_cev; reflexivity.
Qed.

Lemma create_alter_pdu_is_model pv all ids fl tk :
  {| b_header := create_pdu_header c_PT_ALTER_CONTEXT (len (st_auth_value (step_trailer pv tk))) 1 fl;
     b_sec_trailer := Some (step_trailer pv tk); b_max_xmit_frag := 5840; b_max_recv_frag := 5840; b_assoc_group := 0;
     b_contexts := select_contexts all ids |}
  = bind_pdu_of_sent pv all (SAlter fl tk ids).
Proof. reflexivity. Qed.

(* AuthenticationProvider.step(self, in_token): the level-6 trailer around the context's next token.  Conversation.step_trailer reads only
   the provider id of its `provider` argument (pv_type; the signature size pv_sig_len is not part of a step() trailer), so the statement
   is for every model provider whose id is self.provider *)
Lemma flow_auth_step fuel ap tok pv :
  pv_type pv = ap_provider ap ->
  run W fuel k_flow_auth_step [VO (OAuthP ap); optbv tok]
  = match ap_legs ap with
    | [] => Raise KeyError
    | l :: _ => Ok (VO (OSt (step_trailer pv (leg_token l))))
    end.
Proof.
  intro Hpv. unfold step_trailer, k_onl_step_level, k_onl_step_pad, k_onl_step_ctx. rewrite Hpv.
  destruct (ap_legs ap) as [|l ls] eqn:El; cbn; rewrite El; cbn; [reflexivity|].
  destruct (leg_token l) as [|x r]; cbn; rewrite ?len_cons_nz; reflexivity.
Qed.

(* ... and the provider afterwards: the security context has consumed that leg (self.ctx is written back into self) *)
Lemma flow_auth_step_state fuel ap tok pv :
  pv_type pv = ap_provider ap ->
  run_self W fuel k_flow_auth_step [VO (OAuthP ap); optbv tok]
  = match ap_legs ap with
    | [] => Raise KeyError
    | l :: ls => Ok (VO (OSt (step_trailer pv (leg_token l))),
                     Some (VO (OAuthP {| ap_provider := ap_provider ap; ap_legs := ls; ap_complete := leg_complete l |})))
    end.
Proof.
  intro Hpv. unfold run_self, step_trailer, k_onl_step_level, k_onl_step_pad, k_onl_step_ctx. rewrite Hpv.
  destruct (ap_legs ap) as [|l ls] eqn:El; cbn; rewrite El; cbn; [reflexivity|].
  destruct (leg_token l) as [|x r]; cbn; rewrite ?len_cons_nz; reflexivity.
Qed.

Lemma flow_auth_complete fuel ap :
  run W fuel k_flow_auth_complete [VO (OAuthP ap)] = Ok (vb (ap_complete ap)).
Proof. reflexivity. Qed.

(* SyncRpcClient.request / AsyncRpcClient.request (the same body): Conversation.rpc_request -- what went on the wire and what was handed to
   the security context are recorded in the client, the Response is returned *)
Definition request_result (c : client) (cid op : Z) (stub : bytes) (vt : option (list command)) : res (pv obj * option (pv obj)) :=
  match rpc_request (cl_flavour c) wrap unwrap (cl_auth c) (cl_sign c) cid op stub (option_map verification_trailer_pack vt) (cl_stream c) sch with
  | (Ok sent, Ok rsp) => Ok (VO (OResp rsp), Some (VO (OSelf (cl_add_sent c sent))))
  | (Raise e, _) => Raise e
  | (_, Raise e) => Raise e
  end.

Lemma flow_sync_request fuel c cid op stub vt :
  run_self W fuel k_flow_sync_request [VO (OSelf c); VI cid; VI op; VB stub; vtv vt] = request_result c cid op stub vt.
Proof.
  unfold run_self, request_result, rpc_request, send_request, send_request_pdu.
  destruct vt as [cmds|]; cbn;
    destruct (create_request (cl_auth c) cid op stub _) as [rq offs] eqn:Ec; cbn;
    destruct offs as [[o0 o1]|]; cbn; unfold send_request_pdu;
    destruct (prepare_pdu wrap _ (cl_sign c) (request_pack rq) _) as [sent|e]; cbn; try reflexivity;
    destruct (receive_response (cl_flavour c) unwrap _ _ _ _ _) as [rsp|e]; reflexivity.
Qed.

Lemma flow_request_twin : k_flow_async_request = k_flow_sync_request.
Proof. reflexivity. Qed.

End Conv.
