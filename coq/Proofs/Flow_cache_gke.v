(* _client._get_protection_gke_from_cache (regenerated in gen/F_e2e.v; its value-only tie in the e2e world is Proofs/Flow_e2e_gke.v),
   run with PyAstMut.run_mut in the concrete world of Flow/World_cache.v: the VALUE and the CACHE AFTERWARDS (parameter 2, which the
   body mutates through cache._get_key) are the two components of Model/Client.v protection_gke_from_cache.  This is what the
   mw_call_mut entry of World_cache.MW says when ncrypt_protect_secret calls it.
   Precondition: root_key_identifier is None or a uuid.UUID; a UUID is represented here by its 16 bytes_le octets and is
   always true, so the empty octet string (not a UUID) is excluded. *)
From V Require Import Prelude.Base Prelude.PyAst Prelude.PyAstMut Prelude.PyWorld gen.F_e2e gen.Kernels gen.Consts.
From V Require Import Model.Types Model.Crypto Model.Chain Model.Gkdi Model.Interval Model.Client Flow.World_cache.
Local Open Scope string_scope.
Local Open Scope list_scope.
Local Open Scope Z_scope.

Local Arguments len : simpl never.
Local Arguments Z.div : simpl never.
Local Arguments Z.modulo : simpl never.
Local Arguments Z.add : simpl never.
Local Opaque cc_get_key KDFParameters_unpack hash_algorithm compute_l2_key.

Definition gke_value_and_cache (r : res (pv obj * list (pv obj))) : res (pv obj * pv obj) :=
  let* (v, ps) := r in Ok (v, nth 2 ps VN).
Definition lift_gke_state (r : res (option envelope * ccache)) : res (pv obj * pv obj) :=
  let* (o, cc') := r in Ok (venv_opt o, VO (OCache cc')).

Lemma truthy_cons (x : Z) (r : bytes) : negb (len (x :: r) =? 0) = true.
Proof. rewrite len_cons. pose proof (len_nonneg r). lia. Qed.

Lemma flow_get_protection_gke_from_cache_state c r1 r2 r3 time_ns dns getkey fuel rkid sd cc :
  rkid <> Some [] ->
  gke_value_and_cache (run_mut (MW c r1 r2 r3 time_ns dns getkey) fuel k_flow_get_protection_gke_from_cache
                         [vbytes_opt rkid; VB sd; VO (OCache cc)])
  = lift_gke_state (protection_gke_from_cache c cc rkid sd time_ns).
Proof.
  intros Hne. unfold protection_gke_from_cache, lift_gke_state, gke_value_and_cache, interval_of_time_ns.
  destruct rkid as [[|x rid]|]; [congruence| |reflexivity].
  unfold k_l0, k_l1, k_l2, k_now, c_EPOCH_FILETIME. cbn. rewrite truthy_cons. cbn.
  destruct (cc_get_key c cc sd (x :: rid) _ _ _) as [[rko cache1]|e]; cbn; [|reflexivity].
  destruct rko as [rk|]; cbn; [|reflexivity].
  destruct (KDFParameters_unpack _) as [n|e]; cbn; [|reflexivity].
  destruct (hash_algorithm n) as [h|e]; cbn; [|reflexivity].
  destruct (compute_l2_key c h _ _ rk) as [k|e]; cbn; reflexivity.
Qed.
