(* Stepping lemmas for Prelude/PyAst.v's interpreter (statement by statement, loops as named fixpoints), used by the
   tie proofs Flow_asn1_*.v.  Generic in the world. *)
From V Require Import Prelude.Base Prelude.PySlice Prelude.PyAst.
Local Open Scope string_scope.
Local Open Scope list_scope.

Section Steps.
Context {V : Type} (W : world V).

(* the local block fixpoint inside exec is exec_block *)
Definition blk (fuel : nat) := fix blk (ss : list pstmt) (env : penv) : res (outcome (V:=V)) :=
  match ss with
  | [] => Ok (Next env)
  | s' :: r => let* o := exec W fuel env s' in
               match o with Next env' => blk r env' | other => Ok other end
  end.
Lemma blk_eq fuel ss : forall env, blk fuel ss env = exec_block W fuel ss env.
Proof.
  induction ss as [|s r IH]; intro env; [reflexivity|].
  cbn [blk exec_block]. destruct (exec W fuel env s) as [o|e]; [|reflexivity]. cbn [bind].
  destruct o; try reflexivity. apply IH.
Qed.

Lemma exec_block_nil fuel env : exec_block W fuel [] env = Ok (Next env).
Proof. reflexivity. Qed.
Lemma exec_block_cons fuel s r env :
  exec_block W fuel (s :: r) env =
  let* o := exec W fuel env s in match o with Next env' => exec_block W fuel r env' | other => Ok other end.
Proof. reflexivity. Qed.

Lemma exec_assign fuel env xs e :
  exec W fuel env (SAssign xs e) = let* (v, env1) := eval W env e in let* env2 := bind_targets W xs v env1 in Ok (Next env2).
Proof. reflexivity. Qed.
Lemma exec_setattr fuel env x a e :
  exec W fuel env (SSetAttr x a e) =
  let* (v, env1) := eval W env e in
  match lookup x env1 with
  | None => Raise AttributeError
  | Some o => let* o' := w_setattr W a o v in Ok (Next (update x o' env1))
  end.
Proof. reflexivity. Qed.
Lemma exec_return fuel env e : exec W fuel env (SReturn e) = let* (v, _) := eval W env e in Ok (Ret v).
Proof. reflexivity. Qed.
Lemma exec_raise fuel env x : exec W fuel env (SRaise x) = Raise (w_exc W x).
Proof. reflexivity. Qed.
Lemma exec_expr fuel env e : exec W fuel env (SExpr e) = let* (_, env1) := eval W env e in Ok (Next env1).
Proof. reflexivity. Qed.
Lemma exec_break fuel env : exec W fuel env SBreak = Ok (Brk env). Proof. reflexivity. Qed.
Lemma exec_continue fuel env : exec W fuel env SContinue = Ok (Cont env). Proof. reflexivity. Qed.
Lemma exec_pass fuel env : exec W fuel env SPass = Ok (Next env). Proof. reflexivity. Qed.
Lemma exec_if fuel env c a b :
  exec W fuel env (SIf c a b) =
  let* (t, env1) := test W env c in if t then exec_block W fuel a env1 else exec_block W fuel b env1.
Proof.
  change (exec W fuel env (SIf c a b)) with
    (let* (t, env1) := test W env c in if t then blk fuel a env1 else blk fuel b env1).
  destruct (test W env c) as [[t env1]|e]; [|reflexivity]. cbn [bind]. destruct t; apply blk_eq.
Qed.

(* while: n = iterations left (exec starts it at n = fuel) *)
Fixpoint while_loop (fuel : nat) (c : pexp) (body : list pstmt) (n : nat) (env : penv) : res (outcome (V:=V)) :=
  match n with
  | O => Raise OutOfFuel
  | S n' => let* (t, env1) := test W env c in
            if t then let* o := exec_block W fuel body env1 in
                      match o with
                      | Next env' | Cont env' => while_loop fuel c body n' env'
                      | Brk env' => Ok (Next env')
                      | Ret v => Ok (Ret v)
                      end
            else Ok (Next env1)
  end.
Definition loop0 (fuel : nat) (c : pexp) (body : list pstmt) :=
  fix loop (n : nat) (env : penv) : res (outcome (V:=V)) :=
    match n with
    | O => Raise OutOfFuel
    | S n' => let* (t, env1) := test W env c in
              if t then let* o := blk fuel body env1 in
                        match o with
                        | Next env' | Cont env' => loop n' env'
                        | Brk env' => Ok (Next env')
                        | Ret v => Ok (Ret v)
                        end
              else Ok (Next env1)
    end.
Lemma loop0_eq fuel c body n : forall env, loop0 fuel c body n env = while_loop fuel c body n env.
Proof.
  induction n as [|n IH]; intro env; [reflexivity|].
  cbn [loop0 while_loop]. destruct (test W env c) as [[t env1]|e]; [|reflexivity]. cbn [bind].
  destruct t; [|reflexivity]. rewrite blk_eq. destruct (exec_block W fuel body env1) as [o|e]; [|reflexivity].
  cbn [bind]. destruct o; try reflexivity; apply IH.
Qed.
Lemma exec_while fuel env c body : exec W fuel env (SWhile c body) = while_loop fuel c body fuel env.
Proof. change (exec W fuel env (SWhile c body)) with (loop0 fuel c body fuel env). apply loop0_eq. Qed.
Lemma while_loop_S fuel c body n env :
  while_loop fuel c body (S n) env =
  let* (t, env1) := test W env c in
  if t then let* o := exec_block W fuel body env1 in
            match o with
            | Next env' | Cont env' => while_loop fuel c body n env'
            | Brk env' => Ok (Next env')
            | Ret v => Ok (Ret v)
            end
  else Ok (Next env1).
Proof. reflexivity. Qed.

(* for *)
Fixpoint for_each (fuel : nat) (xs : list string) (body : list pstmt) (vs : list V) (env : penv) : res (outcome (V:=V)) :=
  match vs with
  | [] => Ok (Next env)
  | v :: r => let* envb := bind_targets W xs v env in
              let* o := exec_block W fuel body envb in
              match o with
              | Next env' | Cont env' => for_each fuel xs body r env'
              | Brk env' => Ok (Next env')
              | Ret w => Ok (Ret w)
              end
  end.
Definition each0 (fuel : nat) (xs : list string) (body : list pstmt) :=
  fix each (vs : list V) (env : penv) : res (outcome (V:=V)) :=
    match vs with
    | [] => Ok (Next env)
    | v :: r => let* envb := bind_targets W xs v env in
                let* o := blk fuel body envb in
                match o with
                | Next env' | Cont env' => each r env'
                | Brk env' => Ok (Next env')
                | Ret w => Ok (Ret w)
                end
    end.
Lemma each0_eq fuel xs body vs : forall env, each0 fuel xs body vs env = for_each fuel xs body vs env.
Proof.
  induction vs as [|v r IH]; intro env; [reflexivity|].
  cbn [each0 for_each]. destruct (bind_targets W xs v env) as [envb|e]; [|reflexivity]. cbn [bind].
  rewrite blk_eq. destruct (exec_block W fuel body envb) as [o|e]; [|reflexivity].
  cbn [bind]. destruct o; try reflexivity; apply IH.
Qed.
Lemma exec_for fuel env xs it body :
  exec W fuel env (SFor xs it body) =
  let* (iv, env1) := eval W env it in let* items := w_iter W iv in for_each fuel xs body items env1.
Proof.
  change (exec W fuel env (SFor xs it body)) with
    (let* (iv, env1) := eval W env it in let* items := w_iter W iv in each0 fuel xs body items env1).
  destruct (eval W env it) as [[iv env1]|e]; [|reflexivity]. cbn [bind].
  destruct (w_iter W iv) as [items|e]; [|reflexivity]. cbn [bind]. apply each0_eq.
Qed.
Lemma for_each_cons fuel xs body v r env :
  for_each fuel xs body (v :: r) env =
  let* envb := bind_targets W xs v env in
  let* o := exec_block W fuel body envb in
  match o with
  | Next env' | Cont env' => for_each fuel xs body r env'
  | Brk env' => Ok (Next env')
  | Ret w => Ok (Ret w)
  end.
Proof. reflexivity. Qed.
Lemma for_each_nil fuel xs body env : for_each fuel xs body [] env = Ok (Next env).
Proof. reflexivity. Qed.

(* expression lists and comprehensions (without conditions) as named fixpoints *)
Fixpoint evals (env : penv) (l : list pexp) : res (list V * penv (V:=V)) :=
  match l with
  | [] => Ok ([], env)
  | a :: r => let* (v, env1) := eval W env a in let* (vs, env2) := evals env1 r in Ok (v :: vs, env2)
  end.
Definition evals0 := fix evals (env : penv) (l : list pexp) : res (list V * penv (V:=V)) :=
    match l with
    | [] => Ok ([], env)
    | a :: r => let* (v, env1) := eval W env a in let* (vs, env2) := evals env1 r in Ok (v :: vs, env2)
    end.
Lemma evals0_eq l : forall env, evals0 env l = evals env l.
Proof.
  induction l as [|a r IH]; intro env; [reflexivity|]. cbn [evals0 evals].
  destruct (eval W env a) as [[v env1]|e]; [|reflexivity]. cbn [bind]. rewrite IH. reflexivity.
Qed.
Lemma eval_tuple env l : eval W env (PTuple l) = let* (vs, env1) := evals env l in Ok (w_tuple W vs, env1).
Proof. change (eval W env (PTuple l)) with (let* (vs, env1) := evals0 env l in Ok (w_tuple W vs, env1)). rewrite evals0_eq. reflexivity. Qed.
Lemma eval_meth env m recv args :
  eval W env (PMeth m recv args) =
  let* (rv, env1) := eval W env recv in
  let* (vs, env2) := evals env1 args in
  let* (r, rv') := w_meth W m rv vs in
  Ok (r, place_set W env2 recv rv').
Proof.
  change (eval W env (PMeth m recv args)) with
    (let* (rv, env1) := eval W env recv in
     let* (vs, env2) := evals0 env1 args in
     let* (r, rv') := w_meth W m rv vs in
     Ok (r, place_set W env2 recv rv')).
  destruct (eval W env recv) as [[rv env1]|e]; [|reflexivity]. cbn [bind]. rewrite evals0_eq. reflexivity.
Qed.
Lemma place_set_name env x v o : lookup x env = Some o -> place_set W env (PName x) v = update x v env.
Proof. intros H. cbn [place_set]. rewrite H. reflexivity. Qed.
Fixpoint comp_each (xs : list string) (elt : pexp) (vs : list V) (envc : penv) : res (list V) :=
  match vs with
  | [] => Ok []
  | v :: r => let* envb := bind_targets W xs v envc in
              let* (x, enve) := eval W envb elt in
              let* rest := comp_each xs elt r enve in Ok (x :: rest)
  end.
Lemma comp_each_cons xs elt v r envc :
  comp_each xs elt (v :: r) envc =
  let* envb := bind_targets W xs v envc in
  let* (x, enve) := eval W envb elt in
  let* rest := comp_each xs elt r enve in Ok (x :: rest).
Proof. reflexivity. Qed.
Definition comp0 (xs : list string) (elt : pexp) := fix each (vs : list V) (envc : penv) : res (list V) :=
         match vs with
         | [] => Ok []
         | v :: r =>
           let* envb := bind_targets W xs v envc in
           let* (keep, envd) := Ok (true, envb) in
           if keep then let* (x, enve) := eval W envd elt in let* rest := each r enve in Ok (x :: rest)
           else each r envd
         end.
Lemma comp0_eq xs elt vs : forall envc, comp0 xs elt vs envc = comp_each xs elt vs envc.
Proof.
  induction vs as [|v r IH]; intro envc; [reflexivity|]. cbn [comp0 comp_each].
  destruct (bind_targets W xs v envc) as [envb|e]; [|reflexivity]. cbn [bind].
  destruct (eval W envb elt) as [[x enve]|e]; [|reflexivity]. cbn [bind]. rewrite IH. reflexivity.
Qed.
Lemma eval_comp0 env elt xs it :
  eval W env (PComp elt xs it []) =
  let* (iv, env1) := eval W env it in let* items := w_iter W iv in
  let* out := comp_each xs elt items env1 in Ok (w_list W out, env1).
Proof.
  change (eval W env (PComp elt xs it [])) with
    (let* (iv, env1) := eval W env it in let* items := w_iter W iv in
     let* out := comp0 xs elt items env1 in Ok (w_list W out, env1)).
  destruct (eval W env it) as [[iv env1]|e]; [|reflexivity]. cbn [bind].
  destruct (w_iter W iv) as [items|e]; [|reflexivity]. cbn [bind]. rewrite comp0_eq. reflexivity.
Qed.

(* frame: the locals a loop does not assign keep their value *)
Definition frame (mods : list string) (env env' : penv (V:=V)) : Prop :=
  forall x, ~ In x mods -> lookup x env' = lookup x env.
Lemma frame_refl mods env : frame mods env env. Proof. intros x _. reflexivity. Qed.
Lemma frame_step mods env env1 env' :
  frame mods env1 env' -> (forall x, ~ In x mods -> lookup x env1 = lookup x env) -> frame mods env env'.
Proof. intros H1 H2 x Hx. rewrite H1 by exact Hx. apply H2. exact Hx. Qed.

Lemma run_unfold fuel f args :
  run W fuel f args =
  match bind_params (pf_params f) args with
  | None => Raise TypeError
  | Some env => let* o := exec_block W fuel (pf_body f) env in match o with Ret v => Ok v | _ => Ok (w_none W) end
  end.
Proof. reflexivity. Qed.

End Steps.

Global Opaque exec exec_block.
Arguments while_loop : simpl never.
Arguments for_each : simpl never.
Arguments comp_each : simpl never.

Lemma len3 {A} (a b c : A) : len [a; b; c] = 3. Proof. reflexivity. Qed.
Lemma len2 {A} (a b : A) : len [a; b] = 2. Proof. reflexivity. Qed.
Lemma len1 {A} (a : A) : len [a] = 1. Proof. reflexivity. Qed.
Lemma vb_truth (b : bool) : negb (Z.eqb (if b then 1 else 0) 0) = b.
Proof. destruct b; reflexivity. Qed.

(* one interpreter step (the generic `autorewrite with pyexec` is much slower) *)
Ltac step1 :=
  match goal with
  | |- context [exec_block ?W ?f [] ?env] => rewrite (exec_block_nil W f env)
  | |- context [exec_block ?W ?f (?s :: ?r) ?env] => rewrite (exec_block_cons W f s r env)
  | |- context [exec ?W ?f ?env (SAssign ?xs ?e)] => rewrite (exec_assign W f env xs e)
  | |- context [exec ?W ?f ?env (SSetAttr ?x ?a ?e)] => rewrite (exec_setattr W f env x a e)
  | |- context [exec ?W ?f ?env (SReturn ?e)] => rewrite (exec_return W f env e)
  | |- context [exec ?W ?f ?env (SRaise ?e)] => rewrite (exec_raise W f env e)
  | |- context [exec ?W ?f ?env (SExpr ?e)] => rewrite (exec_expr W f env e)
  | |- context [exec ?W ?f ?env SBreak] => rewrite (exec_break W f env)
  | |- context [exec ?W ?f ?env SContinue] => rewrite (exec_continue W f env)
  | |- context [exec ?W ?f ?env SPass] => rewrite (exec_pass W f env)
  | |- context [exec ?W ?f ?env (SIf ?c ?a ?b)] => rewrite (exec_if W f env c a b)
  | |- context [exec ?W ?f ?env (SWhile ?c ?b)] => rewrite (exec_while W f env c b)
  | |- context [exec ?W ?f ?env (SFor ?xs ?it ?b)] => rewrite (exec_for W f env xs it b)
  end.
Ltac py := repeat (progress (repeat step1; unfold test; cbn; rewrite ?len3, ?len2, ?len1, ?index_0)).
(* locals of an abstract environment known through hypotheses `lookup x env = Some v` *)
Ltac lk := repeat match goal with H : lookup _ _ = _ |- _ => rewrite H end.
Ltac pye := repeat (progress (py; lk)).
(* side condition of frame_step for an environment built by updates of modified names *)
Ltac frame_upd :=
  let x := fresh "x" in let Hx := fresh "Hx" in
  intros x Hx; cbn [lookup update];
  repeat match goal with |- context [String.eqb x ?y] =>
    destruct (String.eqb_spec x y) as [->|_]; [exfalso; apply Hx; cbn; tauto|] end;
  reflexivity.
(* use a frame hypothesis for one name *)
Ltac fr H name := rewrite (H name) by (cbn; intuition discriminate).
Ltac start W kk := (rewrite (run_unfold W)); unfold kk; cbn [bind_params pf_params pf_body].

Global Hint Rewrite @exec_block_nil @exec_block_cons @exec_assign @exec_setattr @exec_return @exec_raise @exec_expr
  @exec_break @exec_continue @exec_pass @exec_if @exec_while @exec_for : pyexec.
