(* Tie theorems, group "chain" (props C02, C03): the regenerated syntax of _gkdi.compute_kdf_context, compute_l1_key and
   compute_l2_key (gen/F_gkdi.v), run in the world Flow/World_gkdi_keys.v, computes exactly the model functions of
   Model/Chain.v the C02 / C03 theorems are about.

   compute_l2_key has two `while` loops.  The model (Model/Chain.v) is the regenerated statement-level kernel
   k_compute_l2_key run with its own fuel L2_FUEL over keys of type `res bytes` (an OverflowError raised while building a
   KDF context is carried in the key and the loops go on), whereas the interpreter raises at once.  The two agree whenever
   the model does not run out of fuel:  flow_l2_kernel  (any kernel fuel n, interpreter fuel > n),  flow_compute_l2_key
   (the model function: interpreter fuel > L2_FUEL and model result <> OutOfFuel),  l2_fuel_enough  (the model never runs
   out of fuel for envelope indices <= 100; MS-GKDI: <= 31),  flow_compute_l2_key_chain / _noncover  (composition with the
   C02 theorems: the SOURCE computes the MS-GKDI chain key from every conforming covering envelope and refuses the rest). *)
From V Require Import Prelude.Base Prelude.PyInt Prelude.Loops Prelude.PyAst Prelude.PyWorld gen.Kernels gen.F_gkdi gen.Consts.
From V Require Import Spec.GkdiSpec Model.Types Model.Crypto Model.Chain Model.KeyId Model.Gkdi Model.Kek Proofs.C02 Flow.World_gkdi_keys.
Local Open Scope string_scope.
Local Open Scope list_scope.
Local Open Scope Z_scope.

Local Arguments len : simpl never.
Local Arguments to_bytes_le_signed : simpl never.

Definition liftb (r : res bytes) : res (pv obj) := let* b := r in Ok (VB b).

Lemma flow_compute_kdf_context c u fuel g l0 l1 l2 :
  run (W c u) fuel k_flow_compute_kdf_context [VO (OUuid g); VI l0; VI l1; VI l2] = liftb (compute_kdf_context g l0 l1 l2).
Proof.
  unfold compute_kdf_context, liftb. cbn. change (Pos.to_nat 4) with 4%nat.
  destruct (to_bytes_le_signed 4 l0) as [b0|x]; cbn; [|reflexivity].
  destruct (to_bytes_le_signed 4 l1) as [b1|x]; cbn; [|reflexivity].
  destruct (to_bytes_le_signed 4 l2) as [b2|x]; cbn; reflexivity.
Qed.

Lemma flow_compute_l1_key c u fuel sd g l0 rk h :
  run (W c u) fuel k_flow_compute_l1_key [VB sd; VO (OUuid g); VI l0; VB rk; VO (OHash h)] = liftb (compute_l1_key c h sd g l0 rk).
Proof.
  unfold compute_l1_key, liftb. cbn.
  destruct (compute_kdf_context g l0 (-1) (-1)) as [c0|x]; cbn; [|reflexivity].
  destruct (compute_kdf_context g l0 31 (-1)) as [c1|x]; cbn; reflexivity.
Qed.

Local Arguments compute_kdf_context : simpl never.

(* ---- the interpreter's local fixpoints, named ---- *)
Section Loop.
Context {V : Type} (W : world V).
Definition blk (fuel : nat) : list pstmt -> (@penv V) -> res ((@outcome V)) :=
  fix blk (ss : list pstmt) (env : (@penv V)) : res ((@outcome V)) :=
    match ss with
    | [] => Ok (Next env)
    | s' :: r => let* o := exec W fuel env s' in match o with Next env' => blk r env' | other => Ok other end
    end.
Definition wloop (fuel : nat) (c : pexp) (body : list pstmt) : nat -> (@penv V) -> res ((@outcome V)) :=
  fix loop (n : nat) (env : (@penv V)) : res ((@outcome V)) :=
    match n with
    | O => Raise OutOfFuel
    | S n' => let* (t, env1) := test W env c in
              if t then let* o := blk fuel body env1 in
                        match o with
                        | Next env' | Cont env' => loop n' env'
                        | Brk env' => Ok (Next env')
                        | Ret v => Ok (Ret v)
                        end
              else Ok (Next env1)
    end.
Lemma exec_while fuel env c body : exec W fuel env (SWhile c body) = wloop fuel c body fuel env.
Proof. reflexivity. Qed.
Lemma exec_if fuel env c a b :
  exec W fuel env (SIf c a b) = let* (t, env1) := test W env c in if t then blk fuel a env1 else blk fuel b env1.
Proof. reflexivity. Qed.
Lemma wloop_S fuel c body n env :
  wloop fuel c body (S n) env =
  let* (t, env1) := test W env c in
  if t then let* o := blk fuel body env1 in
            match o with
            | Next env' | Cont env' => wloop fuel c body n env'
            | Brk env' => Ok (Next env')
            | Ret v => Ok (Ret v)
            end
  else Ok (Next env1).
Proof. reflexivity. Qed.
Lemma exec_block_cons fuel s r env :
  exec_block W fuel (s :: r) env =
  let* o := exec W fuel env s in match o with Next env' => exec_block W fuel r env' | other => Ok other end.
Proof. reflexivity. Qed.
Lemma exec_block_app fuel a b env :
  exec_block W fuel (a ++ b) env =
  let* o := exec_block W fuel a env in match o with Next env' => exec_block W fuel b env' | other => Ok other end.
Proof.
  revert env; induction a as [|s a IH]; intros env; [reflexivity|].
  cbn [app]. rewrite !exec_block_cons. destruct (exec W fuel env s) as [o|x]; cbn [bind]; [|reflexivity].
  destruct o; try reflexivity. apply IH.
Qed.
End Loop.

Definition l2_body := pf_body k_flow_compute_l2_key.
Definition l2_pre := Eval cbv in firstn 8 l2_body.
Definition l2_w1 := Eval cbv in nth 8 l2_body SPass.
Definition l2_mid := Eval cbv in nth 9 l2_body SPass.
Definition l2_w2 := Eval cbv in nth 10 l2_body SPass.
Definition l2_ret := Eval cbv in nth 11 l2_body SPass.
Lemma l2_body_split : pf_body k_flow_compute_l2_key = l2_pre ++ [l2_w1; l2_mid; l2_w2; l2_ret].
Proof. reflexivity. Qed.

Definition wc (s : pstmt) : pexp := match s with SWhile c _ => c | _ => PNone end.
Definition wb (s : pstmt) : list pstmt := match s with SWhile _ b => b | _ => [] end.

Section L2.
Context (c : Crypto) (u : Z -> bytes) (h : hash) (q1 q2 : Z) (e : envelope).
Notation KDF := (kdfK c h (gke_rkid e) (gke_l0 e)).

(* the variables of compute_l2_key in an environment (environments grow with every assignment: only lookups are known) *)
Definition has (env : penv) (r : pv obj) (a : Z) (k1 : bytes) (b : Z) (k2 : bytes) : Prop :=
  lookup "algorithm" env = Some (VO (OHash h)) /\
  lookup "request_l1" env = Some (VI q1) /\ lookup "request_l2" env = Some (VI q2) /\
  lookup "rk" env = Some (VO (OEnv e)) /\ lookup "KDS_SERVICE_LABEL" env = None /\
  lookup "reseed_l2" env = Some r /\ lookup "l1" env = Some (VI a) /\ lookup "l1_key" env = Some (VB k1) /\
  lookup "l2" env = Some (VI b) /\ lookup "l2_key" env = Some (VB k2).

Ltac open_has H := destruct H as (Ha & Hq1 & Hq2 & Hrk & Hlab & Hr & Hl1 & Hk1 & Hl2 & Hk2).
Ltac sc := repeat (progress (cbn; try unfold test)).
Ltac rwb := repeat match goal with H : _ = true |- _ => rewrite H | H : _ = false |- _ => rewrite H end.
Ltac scb := repeat (progress (cbn; try unfold test; rwb)).
Ltac rw := repeat match goal with H : lookup _ ?env = _ |- context [lookup _ ?env] => rewrite H end.

Lemma body1_run fuel env r a k1 b k2 : has env r a k1 b k2 ->
  match compute_kdf_context (gke_rkid e) (gke_l0 e) (a - 1) (-1) with
  | Ok ctx => exists env', blk (W c u) fuel (wb l2_w1) env = Ok (Next env') /\
                           has env' (vb true) (a - 1) (kdf c h k1 c_KDS_SERVICE_LABEL ctx 64) b k2
  | Raise x => blk (W c u) fuel (wb l2_w1) env = Raise x
  end.
Proof.
  intros H. open_has H.
  repeat (progress (cbn; rw)).
  destruct (compute_kdf_context _ _ _ _) as [ctx|x]; cbn; [|reflexivity].
  eexists; split; [reflexivity|]. unfold has; cbn; rw. repeat split.
Qed.

Lemma body2_run fuel env r a k1 b k2 : has env r a k1 b k2 ->
  match compute_kdf_context (gke_rkid e) (gke_l0 e) a (b - 1) with
  | Ok ctx => exists env', blk (W c u) fuel (wb l2_w2) env = Ok (Next env') /\
                           has env' r a k1 (b - 1) (kdf c h k2 c_KDS_SERVICE_LABEL ctx 64)
  | Raise x => blk (W c u) fuel (wb l2_w2) env = Raise x
  end.
Proof.
  intros H. open_has H.
  repeat (progress (cbn; rw)).
  destruct (compute_kdf_context _ _ _ _) as [ctx|x]; cbn; [|reflexivity].
  eexists; split; [reflexivity|]. unfold has; cbn; rw. repeat split.
Qed.

Lemma mid_run fuel env (r : bool) a k1 b k2 : has env (vb r) a k1 b k2 ->
  if r then
    match compute_kdf_context (gke_rkid e) (gke_l0 e) a 31 with
    | Ok ctx => exists env', exec (W c u) fuel env l2_mid = Ok (Next env') /\
                             has env' (vb r) a k1 31 (kdf c h k1 c_KDS_SERVICE_LABEL ctx 64)
    | Raise x => exec (W c u) fuel env l2_mid = Raise x
    end
  else exec (W c u) fuel env l2_mid = Ok (Next env).
Proof.
  intros H. pose proof H as H'. open_has H. destruct r.
  - repeat (progress (cbn; unfold test; rw)).
    destruct (compute_kdf_context _ _ _ _) as [ctx|x]; cbn; [|reflexivity].
    eexists; split; [reflexivity|]. unfold has; cbn; rw. repeat split.
  - repeat (progress (cbn; unfold test; rw)). reflexivity.
Qed.

(* the loop tests *)
Lemma test1 env r a k1 b k2 : has env r a k1 b k2 -> test (W c u) env (wc l2_w1) = Ok (negb (a =? q1), env).
Proof. intros H. open_has H. unfold test. repeat (progress (cbn; rw)). destruct (a =? q1); reflexivity. Qed.
Lemma test2 env r a k1 b k2 : has env r a k1 b k2 -> test (W c u) env (wc l2_w2) = Ok (negb (b =? q2), env).
Proof. intros H. open_has H. unfold test. repeat (progress (cbn; rw)). destruct (b =? q2); reflexivity. Qed.

Section Loops.
Context (fuel : nat).

Lemma loop1_err (cond : bool * Z * res bytes -> bool) (body : bool * Z * res bytes -> bool * Z * res bytes) :
  (forall r l k, body (r, l, k) = (true, l - 1, KDF k (l - 1) (-1))) ->
  forall n a x, match while n cond body (true, a, Raise x) with Ok (r', _, k) => r' = true /\ k = Raise x | Raise _ => True end.
Proof.
  intros Hb. induction n as [|n IH]; intros a x; cbn [while]; destruct (cond _); try exact I; try (split; reflexivity).
  rewrite Hb. cbn [kdfK bind]. apply IH.
Qed.

Lemma while_raise {St} (cond : St -> bool) (body : St -> St) : forall n s x, while n cond body s = Raise x -> x = OutOfFuel.
Proof.
  induction n as [|n IH]; intros s x; cbn [while]; destruct (cond s); try congruence. apply IH.
Qed.

Lemma loop1_run (cond : bool * Z * res bytes -> bool) (body : bool * Z * res bytes -> bool * Z * res bytes) b k2 :
  (forall r l k, cond (r, l, k) = negb (l =? q1)) ->
  (forall r l k, body (r, l, k) = (true, l - 1, KDF k (l - 1) (-1))) ->
  forall n m env (r : bool) a k1, has env (vb r) a k1 b k2 -> (n < m)%nat ->
  match while n cond body (r, a, Ok k1) with
  | Ok (r', a', Ok k1') => exists env', wloop (W c u) fuel (wc l2_w1) (wb l2_w1) m env = Ok (Next env') /\ has env' (vb r') a' k1' b k2
  | Ok (r', _, Raise x) => r' = true /\ wloop (W c u) fuel (wc l2_w1) (wb l2_w1) m env = Raise x
  | Raise _ => True
  end.
Proof.
  intros Hc Hb. induction n as [|n IH]; intros m env r a k1 H Hm; (destruct m as [|m]; [lia|]);
    cbn [while]; rewrite Hc; destruct (a =? q1) eqn:E; cbn [negb]; try exact I.
  - eexists; split; [|exact H]. rewrite wloop_S, (test1 _ _ _ _ _ _ H), E. reflexivity.
  - eexists; split; [|exact H]. rewrite wloop_S, (test1 _ _ _ _ _ _ H), E. reflexivity.
  - rewrite Hb. cbn [kdfK bind].
    pose proof (body1_run fuel env (vb r) a k1 b k2 H) as HB.
    destruct (compute_kdf_context (gke_rkid e) (gke_l0 e) (a - 1) (-1)) as [ctx|x]; cbn [bind].
    + destruct HB as (env' & Hrun & Hhas).
      assert (Hw : wloop (W c u) fuel (wc l2_w1) (wb l2_w1) (S m) env = wloop (W c u) fuel (wc l2_w1) (wb l2_w1) m env').
      { rewrite wloop_S, (test1 _ _ _ _ _ _ H), E. cbn [negb bind]. rewrite Hrun. reflexivity. }
      rewrite Hw. apply IH; [exact Hhas|lia].
    + pose proof (loop1_err cond body Hb n (a - 1) x) as HE.
      destruct (while n cond body (true, a - 1, Raise x)) as [[[r' a'] k']|]; [|exact I]. destruct HE as [-> ->].
      split; [reflexivity|]. rewrite wloop_S, (test1 _ _ _ _ _ _ H), E. cbn [negb bind]. rewrite HB. reflexivity.
Qed.

Lemma loop2_err a (cond : Z * res bytes -> bool) (body : Z * res bytes -> Z * res bytes) :
  (forall l k, body (l, k) = (l - 1, KDF k a (l - 1))) ->
  forall n b x, match while n cond body (b, Raise x) with Ok (_, k) => k = Raise x | Raise _ => True end.
Proof.
  intros Hb. induction n as [|n IH]; intros b x; cbn [while]; destruct (cond _); try exact I; try reflexivity.
  rewrite Hb. cbn [kdfK bind]. apply IH.
Qed.

Lemma loop2_run (cond : Z * res bytes -> bool) (body : Z * res bytes -> Z * res bytes) r a k1 :
  (forall l k, cond (l, k) = negb (l =? q2)) ->
  (forall l k, body (l, k) = (l - 1, KDF k a (l - 1))) ->
  forall n m env b k2, has env r a k1 b k2 -> (n < m)%nat ->
  match while n cond body (b, Ok k2) with
  | Ok (b', Ok k2') => exists env', wloop (W c u) fuel (wc l2_w2) (wb l2_w2) m env = Ok (Next env') /\ has env' r a k1 b' k2'
  | Ok (_, Raise x) => wloop (W c u) fuel (wc l2_w2) (wb l2_w2) m env = Raise x
  | Raise _ => True
  end.
Proof.
  intros Hc Hb. induction n as [|n IH]; intros m env b k2 H Hm; (destruct m as [|m]; [lia|]);
    cbn [while]; rewrite Hc; destruct (b =? q2) eqn:E; cbn [negb]; try exact I.
  - eexists; split; [|exact H]. rewrite wloop_S, (test2 _ _ _ _ _ _ H), E. reflexivity.
  - eexists; split; [|exact H]. rewrite wloop_S, (test2 _ _ _ _ _ _ H), E. reflexivity.
  - rewrite Hb. cbn [kdfK bind].
    pose proof (body2_run fuel env r a k1 b k2 H) as HB.
    destruct (compute_kdf_context (gke_rkid e) (gke_l0 e) a (b - 1)) as [ctx|x]; cbn [bind].
    + destruct HB as (env' & Hrun & Hhas).
      assert (Hw : wloop (W c u) fuel (wc l2_w2) (wb l2_w2) (S m) env = wloop (W c u) fuel (wc l2_w2) (wb l2_w2) m env').
      { rewrite wloop_S, (test2 _ _ _ _ _ _ H), E. cbn [negb bind]. rewrite Hrun. reflexivity. }
      rewrite Hw. apply IH; [exact Hhas|lia].
    + pose proof (loop2_err a cond body Hb n (b - 1) x) as HE.
      destruct (while n cond body (b - 1, Raise x)) as [[b' k']|]; [|exact I]. subst k'.
      rewrite wloop_S, (test2 _ _ _ _ _ _ H), E. cbn [negb bind]. rewrite HB. reflexivity.
Qed.
End Loops.

Definition env0 : penv := [("algorithm", VO (OHash h)); ("request_l1", VI q1); ("request_l2", VI q2); ("rk", VO (OEnv e))].

Lemma pre_run fuel :
  if negb (((0 <=? q1) && (q1 <=? 31)) && ((0 <=? q2) && (q2 <=? 31))) then exec_block (W c u) fuel l2_pre env0 = Raise ValueError
  else if (gke_l1 e <? q1) || ((gke_l1 e =? q1) && (gke_l2 e <? q2)) then exec_block (W c u) fuel l2_pre env0 = Raise ValueError
  else exists env, exec_block (W c u) fuel l2_pre env0 = Ok (Next env) /\
       has env (vb ((gke_l2 e =? 31) || negb (gke_l1 e =? q1)))
           (if negb (gke_l2 e =? 31) && negb (gke_l1 e =? q1) then gke_l1 e - 1 else gke_l1 e)
           (gke_l1_key e) (gke_l2 e) (gke_l2_key e).
Proof.
  unfold env0. sc.
  destruct (0 <=? q1) eqn:A1; scb; [|reflexivity].
  destruct (q1 <=? 31) eqn:A2; scb; [|reflexivity].
  destruct (0 <=? q2) eqn:A3; scb; [|reflexivity].
  destruct (q2 <=? 31) eqn:A4; scb; [|reflexivity].
  destruct (gke_l1 e <? q1) eqn:A5; scb; [reflexivity|].
  destruct (gke_l1 e =? q1) eqn:A6; scb.
  - destruct (gke_l2 e <? q2) eqn:A7; scb; [reflexivity|].
    destruct (gke_l2 e =? 31) eqn:A8; scb; (eexists; split; [reflexivity|unfold has; cbn; repeat split]).
  - destruct (gke_l2 e =? 31) eqn:A8; scb; (eexists; split; [reflexivity|unfold has; cbn; repeat split]).
Qed.

Lemma ret_run fuel env r a k1 b k2 : has env r a k1 b k2 -> exec_block (W c u) fuel [l2_ret] env = Ok (Ret (VB k2)).
Proof. intros H. open_has H. cbn. rw. reflexivity. Qed.

Definition fin (r : res (@outcome (pv obj))) : res (pv obj) :=
  let* o := r in match o with Ret v => Ok v | _ => Ok (w_none (W c u)) end.

Lemma tail3 n fuel (cond : Z * res bytes -> bool) (body : Z * res bytes -> Z * res bytes) env r a k1 b k2 :
  (forall l k, cond (l, k) = negb (l =? q2)) ->
  (forall l k, body (l, k) = (l - 1, KDF k a (l - 1))) ->
  has env r a k1 b k2 -> (n < fuel)%nat ->
  (let* (_, k) := while n cond body (b, Ok k2) in Ok k) <> Raise OutOfFuel ->
  fin (exec_block (W c u) fuel [l2_w2; l2_ret] env)
  = liftb (match (let* (_, k) := while n cond body (b, Ok k2) in Ok k) with Ok r => r | Raise x => Raise x end).
Proof.
  intros Hc Hb H Hn. rewrite exec_block_cons. change l2_w2 with (SWhile (wc l2_w2) (wb l2_w2)). rewrite exec_while.
  pose proof (loop2_run fuel cond body r a k1 Hc Hb n fuel env b k2 H Hn) as HL.
  destruct (while n cond body (b, Ok k2)) as [[b' [k2'|x]]|x] eqn:EW; cbn [bind].
  - intros _. destruct HL as (env' & Hw & Hhas). rewrite Hw. cbn [bind].
    rewrite (ret_run fuel env' _ _ _ _ _ Hhas). reflexivity.
  - intros _. rewrite HL. reflexivity.
  - intros HM. apply while_raise in EW. subst x. congruence.
Qed.

Lemma tail3_err n (cond : Z * res bytes -> bool) (body : Z * res bytes -> Z * res bytes) a b x :
  (forall l k, body (l, k) = (l - 1, KDF k a (l - 1))) ->
  (let* (_, k) := while n cond body (b, Raise x) in Ok k) <> Raise OutOfFuel ->
  match (let* (_, k) := while n cond body (b, Raise x) in Ok k) with Ok r => r | Raise y => Raise y end = Raise x.
Proof.
  intros Hb. pose proof (loop2_err a cond body Hb n b x) as HE.
  destruct (while n cond body (b, Raise x)) as [[b' k']|y] eqn:EW; cbn [bind].
  - intros _. exact HE.
  - intros HM. apply while_raise in EW. subst y. congruence.
Qed.

Lemma flow_l2_kernel n fuel : (n < fuel)%nat ->
  k_compute_l2_key KDF n q1 q2 (gke_l1 e) (gke_l2 e) (Ok (gke_l1_key e)) (Ok (gke_l2_key e)) <> Raise OutOfFuel ->
  run (W c u) fuel k_flow_compute_l2_key [VO (OHash h); VI q1; VI q2; VO (OEnv e)]
  = liftb (match k_compute_l2_key KDF n q1 q2 (gke_l1 e) (gke_l2 e) (Ok (gke_l1_key e)) (Ok (gke_l2_key e)) with
           | Ok r => r | Raise x => Raise x end).
Proof.
  intros Hn. unfold run. rewrite l2_body_split. cbn [k_flow_compute_l2_key pf_params bind_params].
  change (@cons (string * pv obj) ("algorithm", VO (OHash h)) _) with env0.
  rewrite exec_block_app. pose proof (pre_run fuel) as HP. unfold k_compute_l2_key.
  destruct (negb _); [intros _; rewrite HP; reflexivity|].
  destruct (_ || _); [intros _; rewrite HP; reflexivity|].
  destruct HP as (env & HP & Hhas). rewrite HP. cbn [bind]. cbv zeta.
  change (let* o := ?r in match o with Ret v => Ok v | _ => Ok (w_none (W c u)) end) with (fin r).
  rewrite exec_block_cons. change l2_w1 with (SWhile (wc l2_w1) (wb l2_w1)). rewrite exec_while.
  match goal with |- context [while n ?cond ?body (?r0, ?a0, Ok ?k1)] =>
    pose proof (loop1_run fuel cond body (gke_l2 e) (gke_l2_key e) ltac:(intros; reflexivity) ltac:(intros; reflexivity)
                  n fuel env r0 a0 k1 Hhas Hn) as HL;
    destruct (while n cond body (r0, a0, Ok k1)) as [[[r' a'] [k1'|x]]|x] eqn:EW
  end; cbn [bind].
  - destruct HL as (env1 & Hw & Hhas1). rewrite Hw. cbn [bind]. rewrite exec_block_cons.
    pose proof (mid_run fuel env1 r' a' k1' _ _ Hhas1) as HMid. destruct r'.
    + cbn [kdfK bind]. destruct (compute_kdf_context (gke_rkid e) (gke_l0 e) a' 31) as [ctx|x]; cbn [bind].
      * destruct HMid as (env2 & Hx & Hhas2). rewrite Hx. cbn [bind].
        intros HM. eapply tail3; [intros; reflexivity|intros; reflexivity|exact Hhas2|exact Hn|exact HM].
      * intros HM. rewrite HMid. cbn [fin bind]. erewrite tail3_err; [reflexivity|intros; reflexivity|exact HM].
    + rewrite HMid. cbn [bind].
      intros HM. eapply tail3; [intros; reflexivity|intros; reflexivity|exact Hhas1|exact Hn|exact HM].
  - destruct HL as [-> Hw]. rewrite Hw. cbn [kdfK bind fin]. intros HM.
    erewrite tail3_err; [reflexivity|intros; reflexivity|exact HM].
  - intros HM. apply while_raise in EW. subst x. congruence.
Qed.
End L2.

(* ---- against the model function (Model/Chain.v runs the kernel with its own fuel L2_FUEL) ---- *)
Lemma flow_compute_l2_key c u fuel h q1 q2 e :
  (L2_FUEL < fuel)%nat -> compute_l2_key c h q1 q2 e <> Raise OutOfFuel ->
  run (W c u) fuel k_flow_compute_l2_key [VO (OHash h); VI q1; VI q2; VO (OEnv e)] = liftb (compute_l2_key c h q1 q2 e).
Proof.
  intros Hf HM. unfold compute_l2_key in *. apply flow_l2_kernel; [exact Hf|].
  intros E. apply HM. rewrite E. reflexivity.
Qed.

(* counting-down loops terminate within their distance *)
Lemma while_down {St} (cond : St -> bool) (body : St -> St) (m : St -> Z) (q : Z) (P : St -> Prop) :
  (forall s, cond s = negb (m s =? q)) -> (forall s, m (body s) = m s - 1) -> (forall s, P s -> P (body s)) ->
  forall n s, P s -> q <= m s -> m s - q <= Z.of_nat n -> exists s', while n cond body s = Ok s' /\ P s' /\ m s' = q.
Proof.
  intros Hc Hm HP. induction n as [|n IH]; intros s Ps Hq Hn; cbn [while]; rewrite Hc; destruct (m s =? q) eqn:E; cbn [negb].
  - exists s. repeat split; [assumption|lia].
  - lia.
  - exists s. repeat split; [assumption|lia].
  - apply IH; [apply HP; assumption|rewrite Hm; lia|rewrite Hm; lia].
Qed.

(* the model's fuel is enough for every envelope whose indices are at most 100 (MS-GKDI: at most 31) *)
Lemma to_bytes_le_signed_err w z x : to_bytes_le_signed w z = Raise x -> x = OverflowError.
Proof. unfold to_bytes_le_signed. destruct (_ && _); congruence. Qed.
Lemma kdf_context_err g a b d x : compute_kdf_context g a b d = Raise x -> x = OverflowError.
Proof.
  unfold compute_kdf_context.
  destruct (to_bytes_le_signed 4 a) eqn:E0; cbn [bind]; [|intros H; injection H as <-; eauto using to_bytes_le_signed_err].
  destruct (to_bytes_le_signed 4 b) eqn:E1; cbn [bind]; [|intros H; injection H as <-; eauto using to_bytes_le_signed_err].
  destruct (to_bytes_le_signed 4 d) eqn:E2; cbn [bind]; [discriminate|intros H; injection H as <-; eauto using to_bytes_le_signed_err].
Qed.
Lemma kdfK_not_oof c h g l0 k a b : k <> Raise OutOfFuel -> kdfK c h g l0 k a b <> Raise OutOfFuel.
Proof.
  intros Hk. unfold kdfK. destruct k as [key|x]; cbn [bind]; [|exact Hk].
  destruct (compute_kdf_context g l0 a b) eqn:E; cbn [bind]; [discriminate|].
  apply kdf_context_err in E. subst. discriminate.
Qed.

Lemma l2_fuel_enough c h q1 q2 e : gke_l1 e <= 100 -> gke_l2 e <= 100 -> compute_l2_key c h q1 q2 e <> Raise OutOfFuel.
Proof.
  intros B1 B2. unfold compute_l2_key, k_compute_l2_key.
  destruct (negb _) eqn:G1; [discriminate|].
  destruct (_ || _) eqn:G2; [discriminate|]. cbv zeta.
  assert (F : Z.of_nat L2_FUEL = 100) by reflexivity.
  destruct (gke_l2 e =? 31) eqn:E31; destruct (gke_l1 e =? q1) eqn:E1; cbn [negb andb orb];
  (match goal with |- context [while L2_FUEL ?cond ?body (?r0, ?a0, ?k0)] =>
    destruct (while_down cond body (fun s => snd (fst s)) q1
                (fun s => (fst (fst s) = false -> r0 = false) /\ snd s <> Raise OutOfFuel)
                ltac:(intros [[? ?] ?]; reflexivity) ltac:(intros [[? ?] ?]; reflexivity)
                ltac:(intros [[? ?] ?] [_ ?]; cbn [fst snd]; split; [discriminate|apply kdfK_not_oof; assumption])
                L2_FUEL (r0, a0, k0) ltac:(cbn [fst snd]; split; [auto|discriminate])
                ltac:(cbn [fst snd]; lia) ltac:(cbn [fst snd]; lia))
      as ([[r' a'] k'] & EW & [HP HK] & Ha)
  end);
  rewrite EW; cbn [bind]; cbn [fst snd] in HP, HK, Ha; subst a';
  (destruct r'; [|specialize (HP eq_refl); try discriminate HP]);
  (match goal with |- context [while L2_FUEL ?cond ?body (?b0, ?k0)] =>
      destruct (while_down cond body fst q2 (fun s => snd s <> Raise OutOfFuel)
                  ltac:(intros [? ?]; reflexivity) ltac:(intros [? ?]; reflexivity)
                  ltac:(intros [? ?] ?; cbn [fst snd]; apply kdfK_not_oof; assumption)
                  L2_FUEL (b0, k0) ltac:(cbn [snd]; first [discriminate | apply kdfK_not_oof; assumption])
                  ltac:(cbn [fst]; lia) ltac:(cbn [fst]; lia))
        as ([b' k2'] & EW2 & HK2 & _)
   end);
  rewrite EW2; cbn [bind]; exact HK2.
Qed.

Lemma flow_compute_l2_key_in_range c u fuel h q1 q2 e :
  gke_l1 e <= 100 -> gke_l2 e <= 100 -> (L2_FUEL < fuel)%nat ->
  run (W c u) fuel k_flow_compute_l2_key [VO (OHash h); VI q1; VI q2; VO (OEnv e)] = liftb (compute_l2_key c h q1 q2 e).
Proof. intros B1 B2 Hf. apply flow_compute_l2_key; [exact Hf|apply l2_fuel_enough; assumption]. Qed.

(* ---- composition with the C02 theorems: what the SOURCE computes ---- *)
Lemma flow_compute_l2_key_chain c u fuel h (top : res bytes) e l1 l2 :
  conforming (kdfK c h (gke_rkid e) (gke_l0 e)) top (env_of e) ->
  0 <= l1 <= 31 -> 0 <= l2 <= 31 -> covers (env_of e) l1 l2 -> (L2_FUEL < fuel)%nat ->
  run (W c u) fuel k_flow_compute_l2_key [VO (OHash h); VI l1; VI l2; VO (OEnv e)]
  = liftb (K2 (kdfK c h (gke_rkid e) (gke_l0 e)) top l1 l2).
Proof.
  intros Hc H1 H2 Hcov Hf. pose proof Hc as (R1 & R2 & _). cbn [env_of e_l1 e_l2] in R1, R2.
  rewrite flow_compute_l2_key_in_range by (assumption || lia).
  rewrite (model_chain c h top e l1 l2 Hc H1 H2 Hcov). reflexivity.
Qed.

Lemma flow_compute_l2_key_noncover c u fuel h e l1 l2 :
  ~ (0 <= l1 <= 31 /\ 0 <= l2 <= 31 /\ (gke_l1 e > l1 \/ (gke_l1 e = l1 /\ gke_l2 e >= l2))) -> (0 < fuel)%nat ->
  run (W c u) fuel k_flow_compute_l2_key [VO (OHash h); VI l1; VI l2; VO (OEnv e)] = Raise ValueError.
Proof.
  intros Hn Hf.
  pose proof (noncover (kdfK c h (gke_rkid e) (gke_l0 e)) 0%nat l1 l2 (gke_l1 e) (gke_l2 e) (Ok (gke_l1_key e)) (Ok (gke_l2_key e)) Hn) as E.
  rewrite (flow_l2_kernel c u h l1 l2 e 0%nat fuel Hf); rewrite E; [reflexivity|discriminate].
Qed.
