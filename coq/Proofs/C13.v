From V Require Import Prelude.Base Prelude.PyInt Prelude.PySlice gen.K_client gen.C_client gen.C_rpc.
From V Require Import Model.Pdu Model.Request Model.Framing.

(* ---- the regenerated padding / offset kernels ---- *)
Lemma vt_pad_spec n : 0 <= n ->
  0 <= k_vt_pad n < 4 /\ (n + k_vt_pad n) mod 4 = 0 /\ (forall p, 0 <= p -> (n + p) mod 4 = 0 -> k_vt_pad n <= p).
Proof. intros H. unfold k_vt_pad. split; [lia|]. split; [lia|]. intros p Hp Hm. lia. Qed.
Lemma auth_pad_spec n : 0 <= n ->
  0 <= k_auth_pad n < 16 /\ (n + k_auth_pad n) mod 16 = 0 /\ (forall p, 0 <= p -> (n + p) mod 16 = 0 -> k_auth_pad n <= p).
Proof. intros H. unfold k_auth_pad. split; [lia|]. split; [lia|]. intros p Hp Hm. lia. Qed.
Lemma offsets_spec n : k_enc_off n = (24, 24 + n) /\ k_alloc_hint n = n /\ k_fraglen_patch = (8, 10, 2) /\ k_wrap_trailer_len = 8.
Proof. repeat split. Qed.
Lemma strip_spec : (forall present p, k_strip_test present p = true <-> present = true /\ p <> 0) /\
                   (forall n p, k_strip_len n p = n - p).
Proof. unfold k_strip_test, k_strip_len. split; [intros [] p; cbn; lia|reflexivity]. Qed.

Lemma len_zeros n : 0 <= n -> len (zeros n) = n.
Proof. intros H. unfold zeros, len. rewrite repeat_length. lia. Qed.
Lemma wfb_zeros n : wfb (zeros n) = true.
Proof. apply wfb_repeat0. Qed.

Lemma slice_none_all {A} (l : list A) : slice None (Some (len l)) l = l.
Proof. replace l with (l ++ []) at 2 by apply app_nil_r. rewrite slice_none_l. reflexivity. Qed.
Lemma set_slice_mid (a m c v : bytes) lo hi : lo = len a -> hi = len a + len m ->
  set_slice (a ++ m ++ c) lo hi v = a ++ v ++ c.
Proof.
  intros -> ->. unfold set_slice. rewrite slice_none_l. f_equal. f_equal.
  replace (a ++ m ++ c) with ((a ++ m) ++ c) by (now rewrite app_assoc).
  replace (len a + len m) with (len (a ++ m)) by (now rewrite len_app). apply slice_app_r.
Qed.

(* ---- reply path: exactly the declared auth padding is stripped ---- *)
Lemma strip_exact data p : 0 <= p -> strip_auth_pad (data ++ zeros p) (Some p) = data.
Proof.
  intros Hp. unfold strip_auth_pad. destruct strip_spec as [Ht Hl]. rewrite Hl, len_app, len_zeros by lia.
  destruct (k_strip_test true p) eqn:E.
  - replace (len data + p - p) with (len data) by lia. apply slice_none_l.
  - assert (p = 0). { destruct (Z.eq_dec p 0); [assumption|]. assert (k_strip_test true p = true) by (apply Ht; auto). congruence. }
    subst p. unfold zeros; cbn [Z.to_nat repeat]. rewrite app_nil_r, Z.add_0_r. apply slice_none_all.
Qed.
Lemma strip_none stub : strip_auth_pad stub None = stub.
Proof.
  unfold strip_auth_pad. destruct (k_strip_test false 0); apply slice_none_all.
Qed.

(* ---- request framing ---- *)
Definition stub_with_vt (stub : bytes) (vt : option bytes) : bytes :=
  match vt with Some v => stub ++ zeros (k_vt_pad (len stub)) ++ v | None => stub end.
Definition sealed_region (stub : bytes) (vt : option bytes) : bytes :=
  let s1 := stub_with_vt stub vt in s1 ++ zeros (k_auth_pad (len s1)).
Definition trailer8 (pv : provider) (pad : Z) : bytes :=
  concat [le 1 (pv_type pv); le 1 c_PKT_PRIVACY; le 1 pad; [0]; le 4 0].
Definition fixed8 (alloc ctx opnum : Z) : bytes := concat [le 4 alloc; le 2 ctx; le 2 opnum].

Lemma create_request_auth pv ctx opnum stub vt :
  let body := sealed_region stub vt in
  let pad := k_auth_pad (len (stub_with_vt stub vt)) in
  exists req, create_request (Some pv) ctx opnum stub vt = (req, Some (24, 24 + len body)) /\
    request_pack req = pdu_header_pack (rq_header req) ++ fixed8 (len body) ctx opnum ++ body
                       ++ trailer8 pv pad ++ zeros (pv_sig_len pv) /\
    h_auth_len (rq_header req) = len (zeros (pv_sig_len pv)) /\ h_packet_type (rq_header req) = c_PT_REQUEST /\
    rq_stub_data req = body /\ rq_alloc_hint req = len body.
Proof.
  cbv zeta. unfold create_request, sealed_region, stub_with_vt.
  destruct (offsets_spec (len (match vt with Some v => stub ++ zeros (k_vt_pad (len stub)) ++ v | None => stub end
                               ++ zeros (k_auth_pad (len match vt with Some v => stub ++ zeros (k_vt_pad (len stub)) ++ v | None => stub end)))))
    as (Ho & Ha & _ & _).
  eexists. split.
  - rewrite Ho. reflexivity.
  - cbn [rq_header rq_stub_data rq_alloc_hint h_auth_len h_packet_type create_pdu_header].
    split; [|rewrite Ha; auto].
    unfold request_pack, request_body, opt_sec_trailer_pack, sec_trailer_pack, fixed8, trailer8.
    cbn [rq_header rq_sec_trailer rq_alloc_hint rq_context_id rq_opnum rq_obj rq_stub_data
         st_type st_level st_pad_length st_context_id st_auth_value concat app].
    rewrite Ha. rewrite !app_nil_r, <- !app_assoc. reflexivity.
Qed.

Lemma len_pdu_header_pack h : len (pdu_header_pack h) = 16.
Proof.
  unfold pdu_header_pack, data_rep_pack. cbn [concat]. rewrite !len_app, !len_le. cbn [len length]. reflexivity.
Qed.
Lemma len_fixed8 a c o : len (fixed8 a c o) = 8.
Proof. unfold fixed8. cbn [concat]. rewrite !len_app, !len_le. reflexivity. Qed.
Lemma len_trailer8 pv pad : len (trailer8 pv pad) = 8.
Proof. unfold trailer8. cbn [concat]. rewrite !len_app, !len_le. reflexivity. Qed.

(* the header with frag_len patched in: only octets 8..9 change *)
Definition patched_header (h : pdu_header) (total : Z) : bytes :=
  concat [ le 1 (h_version h); le 1 (h_version_minor h); le 1 (h_packet_type h); le 1 (h_packet_flags h);
           data_rep_pack (h_data_rep h); le 2 total; le 2 (h_auth_len h); le 4 (h_call_id h) ].
Lemma len_patched_header h t : len (patched_header h t) = 16.
Proof.
  unfold patched_header, data_rep_pack. cbn [concat]. rewrite !len_app, !len_le. cbn [len length]. reflexivity.
Qed.
Lemma patch_fraglen h rest total :
  set_slice (pdu_header_pack h ++ rest) 8 10 (le 2 total) = patched_header h total ++ rest.
Proof.
  unfold pdu_header_pack, patched_header. cbn [concat]. rewrite !app_nil_r, <- !app_assoc.
  set (a := le 1 (h_version h) ++ le 1 (h_version_minor h) ++ le 1 (h_packet_type h) ++ le 1 (h_packet_flags h) ++ data_rep_pack (h_data_rep h)).
  assert (Ha : len a = 8).
  { unfold a, data_rep_pack. cbn [concat]. rewrite !len_app, !len_le. cbn [len length]. reflexivity. }
  replace (le 1 (h_version h) ++ le 1 (h_version_minor h) ++ le 1 (h_packet_type h) ++ le 1 (h_packet_flags h) ++
           data_rep_pack (h_data_rep h) ++ le 2 (h_frag_len h) ++ le 2 (h_auth_len h) ++ le 4 (h_call_id h) ++ rest)
    with (a ++ le 2 (h_frag_len h) ++ (le 2 (h_auth_len h) ++ le 4 (h_call_id h) ++ rest))
    by (unfold a; rewrite <- !app_assoc; reflexivity).
  rewrite (set_slice_mid a (le 2 (h_frag_len h)) _ (le 2 total) 8 10) by (rewrite ?len_le; lia).
  unfold a. rewrite <- !app_assoc. reflexivity.
Qed.

Lemma patched_fields h t rest :
  slice (Some 8) (Some 10) (patched_header h t ++ rest) = le 2 t /\
  slice (Some 10) (Some 12) (patched_header h t ++ rest) = le 2 (h_auth_len h).
Proof.
  unfold patched_header. cbn [concat]. rewrite !app_nil_r, <- !app_assoc.
  set (a := le 1 (h_version h) ++ le 1 (h_version_minor h) ++ le 1 (h_packet_type h) ++ le 1 (h_packet_flags h) ++ data_rep_pack (h_data_rep h)).
  assert (Ha : len a = 8).
  { unfold a, data_rep_pack. cbn [concat]. rewrite !len_app, !len_le. cbn [len length]. reflexivity. }
  replace (le 1 (h_version h) ++ le 1 (h_version_minor h) ++ le 1 (h_packet_type h) ++ le 1 (h_packet_flags h) ++
           data_rep_pack (h_data_rep h) ++ le 2 t ++ le 2 (h_auth_len h) ++ le 4 (h_call_id h) ++ rest)
    with (a ++ le 2 t ++ (le 2 (h_auth_len h) ++ le 4 (h_call_id h) ++ rest))
    by (unfold a; rewrite <- !app_assoc; reflexivity).
  split.
  - apply slice_mid; rewrite ?len_le; lia.
  - replace (a ++ le 2 t ++ le 2 (h_auth_len h) ++ le 4 (h_call_id h) ++ rest)
      with ((a ++ le 2 t) ++ le 2 (h_auth_len h) ++ (le 4 (h_call_id h) ++ rest)) by (rewrite <- !app_assoc; reflexivity).
    apply slice_mid; rewrite ?len_app, ?len_le; lia.
Qed.

Section Frame.
Variable wrap : wrap_fn.
Variable pv : provider.
Hypothesis sig_nonneg : 0 <= pv_sig_len pv.
(* the security context keeps the body length and produces a signature of the announced size *)
Hypothesis wrap_lengths : forall h b t s, len (fst (wrap h b t s)) = len b /\ len (snd (wrap h b t s)) = pv_sig_len pv.

Lemma frame ctx opnum stub vt sign :
  let body := sealed_region stub vt in
  let pad := k_auth_pad (len (stub_with_vt stub vt)) in
  let total := 16 + 8 + len body + 8 + pv_sig_len pv in
  total < 65536 ->
  let hdr := patched_header (create_pdu_header c_PT_REQUEST (pv_sig_len pv) 1 c_PFC_NONE) total ++ fixed8 (len body) ctx opnum in
  let sealed := fst (wrap hdr body (trailer8 pv pad) sign) in
  let sg := snd (wrap hdr body (trailer8 pv pad) sign) in
  send_request wrap (Some pv) sign ctx opnum stub vt =
    Ok (hdr ++ sealed ++ trailer8 pv pad ++ sg,
        Some {| wa_header := hdr; wa_body := body; wa_trailer := trailer8 pv pad; wa_sign := sign |})
  /\ len (hdr ++ sealed ++ trailer8 pv pad ++ sg) = total
  /\ len hdr = 24 /\ len body mod 16 = 0.
Proof.
  cbv zeta. intros Htot.
  destruct (create_request_auth pv ctx opnum stub vt) as (req & Hcr & Hpack & Hal & Hpt & Hstub & Halloc). cbv zeta in *.
  set (body := sealed_region stub vt) in *. set (pad := k_auth_pad (len (stub_with_vt stub vt))) in *.
  assert (Hb16 : len body mod 16 = 0).
  { unfold body, sealed_region. rewrite len_app. pose proof (len_nonneg (stub_with_vt stub vt)) as Hn.
    destruct (auth_pad_spec _ Hn) as (Hr & Hm & _). rewrite len_zeros by (fold pad; lia). exact Hm. }
  assert (Hlp : len (request_pack req) = 16 + 8 + len body + 8 + pv_sig_len pv).
  { rewrite Hpack, !len_app, len_pdu_header_pack, len_fixed8, len_trailer8, len_zeros by assumption. ring. }
  unfold send_request. rewrite Hcr. unfold prepare_pdu.
  destruct (offsets_spec 0) as (_ & _ & Hfp & Hw). rewrite Hfp, Hw.
  unfold to_bytes_le. rewrite Hlp. change (Z.to_nat 2) with 2%nat. rewrite P_2.
  pose proof (len_nonneg body).
  destruct ((0 <=? 16 + 8 + len body + 8 + pv_sig_len pv) && (16 + 8 + len body + 8 + pv_sig_len pv <? 65536)) eqn:E; [|lia].
  cbn [bind].
  assert (Hh : rq_header req = create_pdu_header c_PT_REQUEST (pv_sig_len pv) 1 c_PFC_NONE).
  { unfold create_request in Hcr. apply (f_equal fst) in Hcr. cbn [fst] in Hcr. rewrite <- Hcr. cbn [rq_header st_auth_value].
    rewrite len_zeros by assumption. reflexivity. }
  assert (Hset : set_slice (request_pack req) 8 10 (le 2 (16 + 8 + len body + 8 + pv_sig_len pv)) =
                 patched_header (create_pdu_header c_PT_REQUEST (pv_sig_len pv) 1 c_PFC_NONE) (16 + 8 + len body + 8 + pv_sig_len pv)
                 ++ fixed8 (len body) ctx opnum ++ body ++ trailer8 pv pad ++ zeros (pv_sig_len pv)).
  { rewrite Hpack, patch_fraglen, Hh. reflexivity. }
  rewrite !Hset. clear Hset.
  set (ph := patched_header (create_pdu_header c_PT_REQUEST (pv_sig_len pv) 1 c_PFC_NONE) (16 + 8 + len body + 8 + pv_sig_len pv)).
  set (f8 := fixed8 (len body) ctx opnum). set (t8 := trailer8 pv pad). set (zs := zeros (pv_sig_len pv)).
  assert (Hlh : len (ph ++ f8) = 24) by (rewrite len_app; unfold ph, f8; rewrite len_patched_header, len_fixed8; lia).
  assert (S1 : slice None (Some 24) (ph ++ f8 ++ body ++ t8 ++ zs) = ph ++ f8).
  { replace (ph ++ f8 ++ body ++ t8 ++ zs) with ((ph ++ f8) ++ body ++ t8 ++ zs) by (rewrite <- !app_assoc; reflexivity).
    rewrite <- Hlh. apply slice_none_l. }
  assert (S2 : slice (Some 24) (Some (24 + len body)) (ph ++ f8 ++ body ++ t8 ++ zs) = body).
  { replace (ph ++ f8 ++ body ++ t8 ++ zs) with ((ph ++ f8) ++ body ++ (t8 ++ zs)) by (rewrite <- !app_assoc; reflexivity).
    apply slice_mid; lia. }
  assert (S3 : slice (Some (24 + len body)) (Some (24 + len body + 8)) (ph ++ f8 ++ body ++ t8 ++ zs) = t8).
  { replace (ph ++ f8 ++ body ++ t8 ++ zs) with (((ph ++ f8) ++ body) ++ t8 ++ zs) by (rewrite <- !app_assoc; reflexivity).
    apply slice_mid; rewrite (len_app (ph ++ f8) body), Hlh; unfold t8; rewrite ?len_trailer8; lia. }
  rewrite !S1, !S2, !S3.
  destruct (wrap (ph ++ f8) body t8 sign) as [sealed sg] eqn:Ew. cbn [fst snd].
  destruct (wrap_lengths (ph ++ f8) body t8 sign) as [Hl1 Hl2]. rewrite Ew in Hl1, Hl2. cbn [fst snd] in Hl1, Hl2.
  split; [reflexivity|]. split; [|split; [exact Hlh|exact Hb16]].
  rewrite (len_app (ph ++ f8)), Hlh, !len_app, Hl1, Hl2. unfold t8. rewrite len_trailer8. ring.
Qed.

(* the length fields on the wire and the position of the verification trailer *)
Lemma frame_fields ctx opnum stub vt sign wire args :
  let body := sealed_region stub vt in
  let total := 16 + 8 + len body + 8 + pv_sig_len pv in
  total < 65536 ->
  send_request wrap (Some pv) sign ctx opnum stub vt = Ok (wire, Some args) ->
  len wire = total /\
  slice (Some 8) (Some 10) wire = le 2 (len wire) /\            (* frag_len = size on the wire *)
  slice (Some 10) (Some 12) wire = le 2 (pv_sig_len pv) /\      (* auth_len = signature size *)
  slice None (Some 24) wire = wa_header args /\                 (* PDU header + request header go out in clear *)
  slice (Some (24 + len body)) (Some (24 + len body + 8)) wire = wa_trailer args /\   (* so does the security-trailer header *)
  wa_body args = body /\ wa_sign args = sign /\
  len body mod 16 = 0 /\                                        (* security trailer 16-byte aligned from the stub start *)
  index (wa_trailer args) 2 = Ok (k_auth_pad (len (stub_with_vt stub vt)) mod 256).   (* pad_length field = padding added *)
Proof.
  cbv zeta. intros Htot Hs. destruct (frame ctx opnum stub vt sign Htot) as (Heq & Hlen & Hlh & Hb16). cbv zeta in *.
  set (body := sealed_region stub vt) in *.
  set (hdr := patched_header _ _ ++ fixed8 _ _ _) in *.
  set (t8 := trailer8 pv _) in *.
  destruct (wrap hdr body t8 sign) as [sealed sg] eqn:Ew. cbn [fst snd] in *.
  rewrite Heq in Hs.
  assert (Hw : wire = hdr ++ sealed ++ t8 ++ sg) by congruence.
  assert (Ha : args = {| wa_header := hdr; wa_body := body; wa_trailer := t8; wa_sign := sign |}) by congruence.
  subst wire args. clear Hs. cbn [wa_header wa_body wa_trailer wa_sign].
  destruct (wrap_lengths hdr body t8 sign) as [Hl1 Hl2]. rewrite Ew in Hl1, Hl2. cbn [fst snd] in Hl1, Hl2.
  assert (Hwire : hdr ++ sealed ++ t8 ++ sg =
     patched_header (create_pdu_header c_PT_REQUEST (pv_sig_len pv) 1 c_PFC_NONE) (16 + 8 + len body + 8 + pv_sig_len pv)
     ++ (fixed8 (len body) ctx opnum ++ sealed ++ t8 ++ sg)) by (unfold hdr; rewrite <- !app_assoc; reflexivity).
  destruct (patched_fields (create_pdu_header c_PT_REQUEST (pv_sig_len pv) 1 c_PFC_NONE)
              (16 + 8 + len body + 8 + pv_sig_len pv) (fixed8 (len body) ctx opnum ++ sealed ++ t8 ++ sg)) as [Hp1 Hp2].
  rewrite <- Hwire in Hp1, Hp2.
  split; [exact Hlen|].
  split; [rewrite Hp1, Hlen; reflexivity|].
  split; [rewrite Hp2; reflexivity|].
  split; [rewrite <- Hlh; apply slice_none_l|].
  split.
  { replace (hdr ++ sealed ++ t8 ++ sg) with ((hdr ++ sealed) ++ t8 ++ sg) by (rewrite <- !app_assoc; reflexivity).
    apply slice_mid; rewrite (len_app hdr sealed), Hlh, Hl1; unfold t8; rewrite ?len_trailer8; ring. }
  split; [reflexivity|]. split; [reflexivity|]. split; [exact Hb16|].
  unfold t8, trailer8. cbn [concat].
  replace (le 1 (pv_type pv) ++ le 1 c_PKT_PRIVACY ++ le 1 (k_auth_pad (len (stub_with_vt stub vt))) ++ [0] ++ le 4 0 ++ [])
    with ((le 1 (pv_type pv) ++ le 1 c_PKT_PRIVACY) ++ (k_auth_pad (len (stub_with_vt stub vt)) mod 256) :: ([0] ++ le 4 0 ++ []))
    by (rewrite <- !app_assoc; reflexivity).
  replace 2 with (len (le 1 (pv_type pv) ++ le 1 c_PKT_PRIVACY)) by (rewrite len_app, !len_le; reflexivity).
  apply index_app_r.
Qed.
End Frame.

(* where the verification trailer sits inside the sealed region: at the next 4-byte boundary after the stub *)
Lemma vt_position stub v : let off := len stub + k_vt_pad (len stub) in
  off mod 4 = 0 /\ len stub <= off < len stub + 4 /\
  slice (Some off) (Some (off + len v)) (sealed_region stub (Some v)) = v /\
  slice None (Some (len stub)) (sealed_region stub (Some v)) = stub.
Proof.
  cbv zeta. pose proof (len_nonneg stub) as Hn. destruct (vt_pad_spec _ Hn) as (Hr & Hm & _).
  split; [exact Hm|]. split; [lia|]. unfold sealed_region, stub_with_vt. split.
  - replace ((stub ++ zeros (k_vt_pad (len stub)) ++ v) ++ zeros _)
      with ((stub ++ zeros (k_vt_pad (len stub))) ++ v ++ zeros (k_auth_pad (len (stub ++ zeros (k_vt_pad (len stub)) ++ v))))
      by (rewrite <- !app_assoc; reflexivity).
    apply slice_mid; rewrite len_app, len_zeros by lia; lia.
  - rewrite <- !app_assoc. apply slice_none_l.
Qed.
