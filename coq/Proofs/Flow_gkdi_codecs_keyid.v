(* Tie theorems (C11): _blob.KeyIdentifier.pack / unpack / is_public_key = Model/KeyId.v, for all key identifiers / all
   input bytes. *)
From V Require Import Prelude.Base Prelude.PyInt Prelude.PySlice Prelude.PyStr Prelude.PyAst Prelude.PyWorld gen.C_gkdi gen.K_gkdi gen.F_gkdi.
From V Require Import Model.Types Model.Crypto Model.KeyId Model.Gkdi Flow.World_gkdi_codecs Proofs.Flow_gkdi_codecs_lib.
Local Open Scope string_scope.
Local Open Scope list_scope.
Local Open Scope Z_scope.

Lemma flow_kid_pack fuel k :
  run W fuel k_flow_kid_pack [VO (OKid k)] = lift_b (KeyIdentifier_pack k).
Proof.
  unfold KeyIdentifier_pack, KeyIdentifier_fields, encode_utf16z, lift_b. go.
  dres_all. rewrite app_nil_r. reflexivity.
Qed.

Lemma flow_kid_unpack fuel data :
  run W fuel k_flow_kid_unpack [VO (OCls CKid); VB data] = (let* k := KeyIdentifier_unpack data in Ok (VO (OKid k))).
Proof.
  unfold KeyIdentifier_unpack. change beqb with zs_eqb. go.
  deq; [|reflexivity].
  dres_all. reflexivity.
Qed.

Lemma flow_kid_is_public_key fuel k :
  run W fuel k_flow_kid_is_public_key [VO (OKid k)] = Ok (VI (if kid_is_public_key k then 1 else 0)).
Proof. reflexivity. Qed.
