(* Generic lemmas about the interpreter of Prelude/PyAst.v used by the flow ties of areas `client` and `online`:
   stand-alone copies of the loop bodies nested in `exec` (for_each, while_loop) with their unfolding equations, and
   `run_self`: `run` that also reports the final value of the local "self" when the function ends in its last
   statement `return e` (the effect of a method on its receiver). Nothing here mentions a particular world or function. *)
From V Require Import Prelude.Base Prelude.PySlice Prelude.PyAst Prelude.PyWorld.
Local Open Scope string_scope.
Local Open Scope list_scope.

Section Lib.
Context {V : Type} (W : world V).

Lemma exec_blk_eq fuel ss env :
  (fix blk (ss : list pstmt) (env : penv) : res outcome :=
     match ss with
     | [] => Ok (Next env)
     | s' :: r => let* o := exec W fuel env s' in
                  match o with Next env' => blk r env' | other => Ok other end
     end) ss env = exec_block W fuel ss env.
Proof.
  revert env. induction ss as [|s r IH]; intro env; [reflexivity|].
  cbn [exec_block]. destruct (exec W fuel env s) as [o|e]; [|reflexivity].
  cbn [bind]. destruct o; try reflexivity. apply IH.
Qed.

Fixpoint for_each (fuel : nat) (xs : list string) (body : list pstmt) (vs : list V) (env : penv) : res outcome :=
  match vs with
  | [] => Ok (Next env)
  | v :: r => let* envb := bind_targets W xs v env in
              let* o := exec_block W fuel body envb in
              match o with
              | Next env' | Cont env' => for_each fuel xs body r env'
              | Brk env' => Ok (Next env')
              | Ret w => Ok (Ret w)
              end
  end.

Lemma exec_for fuel env xs it body :
  exec W fuel env (SFor xs it body) =
  let* (iv, env1) := eval W env it in let* items := w_iter W iv in for_each fuel xs body items env1.
Proof.
  cbn [exec]. destruct (eval W env it) as [[iv env1]|e]; [|reflexivity]. cbn [bind].
  destruct (w_iter W iv) as [items|e]; [|reflexivity]. cbn [bind].
  revert env1. induction items as [|v r IH]; intro env1; [reflexivity|].
  cbn [for_each]. destruct (bind_targets W xs v env1) as [envb|e]; [|reflexivity]. cbn [bind].
  rewrite exec_blk_eq. destruct (exec_block W fuel body envb) as [o|e]; [|reflexivity]. cbn [bind].
  destruct o; try reflexivity; apply IH.
Qed.

(* `while c: body` with n iterations of fuel left *)
Fixpoint while_loop (fuel : nat) (c : pexp) (body : list pstmt) (n : nat) (env : penv) : res outcome :=
  match n with
  | O => Raise OutOfFuel
  | S n' => let* (t, env1) := test W env c in
            if t then let* o := exec_block W fuel body env1 in
                      match o with
                      | Next env' | Cont env' => while_loop fuel c body n' env'
                      | Brk env' => Ok (Next env')
                      | Ret v => Ok (Ret v)
                      end
            else Ok (Next env1)
  end.

Lemma exec_while fuel env c body : exec W fuel env (SWhile c body) = while_loop fuel c body fuel env.
Proof.
  cbn [exec]. generalize fuel at 2 4 as n. intro n. revert env.
  induction n as [|n IH]; intro env; [reflexivity|].
  cbn [while_loop]. destruct (test W env c) as [[t env1]|e]; [|reflexivity]. cbn [bind].
  destruct t; [|reflexivity].
  rewrite exec_blk_eq. destruct (exec_block W fuel body env1) as [o|e]; [|reflexivity]. cbn [bind].
  destruct o; try reflexivity; apply IH.
Qed.

Lemma exec_if fuel env c a b :
  exec W fuel env (SIf c a b) =
  let* (t, env1) := test W env c in if t then exec_block W fuel a env1 else exec_block W fuel b env1.
Proof.
  cbn [exec]. destruct (test W env c) as [[t env1]|e]; [|reflexivity]. cbn [bind].
  destruct t; apply exec_blk_eq.
Qed.

Lemma exec_block_cons fuel s r env :
  exec_block W fuel (s :: r) env =
  let* o := exec W fuel env s in match o with Next env' => exec_block W fuel r env' | other => Ok other end.
Proof. reflexivity. Qed.

Lemma exec_block_app fuel a b env :
  exec_block W fuel (a ++ b) env =
  let* o := exec_block W fuel a env in match o with Next env' => exec_block W fuel b env' | other => Ok other end.
Proof.
  revert env. induction a as [|s r IH]; intro env; cbn [app exec_block bind].
  - destruct (exec_block W fuel b env) as [o|e]; [destruct o|]; reflexivity.
  - destruct (exec W fuel env s) as [o|e]; [|reflexivity]. cbn [bind]. destruct o; try reflexivity. apply IH.
Qed.

(* ---- run_self: the result AND the final value of "self" ------------------------------------------------------------- *)
Definition split_last_return (body : list pstmt) : option (list pstmt * pexp) :=
  match rev body with SReturn e :: r => Some (rev r, e) | _ => None end.

Definition run_self (fuel : nat) (f : pfun) (args : list V) : res (V * option V) :=
  match bind_params (pf_params f) args, split_last_return (pf_body f) with
  | Some env, Some (pre, e) =>
    let* o := exec_block W fuel pre env in
    match o with
    | Next env1 => let* (v, env2) := eval W env1 e in Ok (v, lookup "self" env2)
    | Ret v => Ok (v, None)            (* an early return: the receiver is not observed *)
    | _ => Ok (w_none W, None)
    end
  | _, _ => Raise TypeError
  end.

Lemma split_last_return_app body pre e : split_last_return body = Some (pre, e) -> body = pre ++ [SReturn e].
Proof.
  unfold split_last_return. intro H. destruct (rev body) as [|s r] eqn:E; [discriminate|].
  destruct s; try discriminate. inversion H; subst. clear H.
  rewrite <- (rev_involutive body), E. reflexivity.
Qed.

(* what `run` returns is the first component of `run_self` *)
Lemma run_of_run_self fuel f args pre e :
  split_last_return (pf_body f) = Some (pre, e) ->
  run W fuel f args = let* (v, _) := run_self fuel f args in Ok v.
Proof.
  intro H. unfold run, run_self. rewrite H. destruct (bind_params (pf_params f) args) as [env|]; [|reflexivity].
  rewrite (split_last_return_app _ _ _ H), exec_block_app.
  destruct (exec_block W fuel pre env) as [o|er]; [|reflexivity]. cbn [bind].
  destruct o; try reflexivity.
  cbn [exec_block exec]. destruct (eval W env0 e) as [[v env2]|er]; reflexivity.
Qed.

End Lib.

(* b"\x00" * n *)
Lemma repeat_list_single {A} n (x : A) : repeat_list n [x] = repeat x n.
Proof. induction n; cbn; [reflexivity|]. now rewrite IHn. Qed.

Lemma len_cons_nz {A} (x : A) r : (len (x :: r) =? 0)%Z = false.
Proof. unfold len. apply Z.eqb_neq. change (List.length (x :: r)) with (S (List.length r)). rewrite Nat2Z.inj_succ. lia. Qed.
Lemma len_nil_z {A} : (len (@nil A) =? 0)%Z = true.
Proof. reflexivity. Qed.

(* `x or b""` on bytes *)
Lemma or_empty_bytes (x : bytes) : (if negb (len x =? 0)%Z then x else []) = x.
Proof. destruct x; [reflexivity|]. now rewrite len_cons_nz. Qed.

Lemma truthy_vb (b : bool) : (negb ((if b then 1 else 0) =? 0)%Z) = b.
Proof. destruct b; reflexivity. Qed.

Lemma index_map {A B} (f : A -> B) l i : PySlice.index (map f l) i = let* x := PySlice.index l i in Ok (f x).
Proof.
  unfold PySlice.index, len. rewrite map_length.
  destruct ((0 <=? _)%Z && _); [|reflexivity].
  rewrite nth_error_map. destruct (nth_error l _); reflexivity.
Qed.
