(* C14: the receive functions fill their buffer through memoryview aliases, which the flow semantics (Prelude/PyAst.v) cannot
   express; their guards, requested sizes and statement skeletons are regenerated as kernels (gen/K_client.v) and tied to the
   model's read loops here. *)
From V Require Import Prelude.Base Model.Recv gen.K_client.

(* the header loop as the source writes it:  while len(header) < 16: data = recv(16 - len(header)); if not data: raise EOFError;
   header += data  - with the REGENERATED guard and requested size *)
Fixpoint hdr_loop_src (fuel : nat) (header : bytes) (t : transport) (reads : nat) : res (bytes * transport) * nat :=
  if negb (k_recv_hdr_guard (len header)) then (Ok (header, t), reads) else
  match fuel with
  | O => (Raise OutOfFuel, reads)
  | S f =>
    let '(d, t') := recv (k_recv_hdr_want (len header)) t in
    match d with
    | [] => (Raise EOFError, S reads)
    | _ => hdr_loop_src f (header ++ d) t' (S reads)
    end
  end.

Lemma hdr_loop_src_is_recv_exactly : forall fuel header t reads,
  hdr_loop_src fuel header t reads = recv_exactly fuel (16 - len header) header t reads.
Proof.
  induction fuel as [|f IH]; intros header t reads; cbn [hdr_loop_src recv_exactly]; unfold k_recv_hdr_guard, k_recv_hdr_want.
  - destruct (len header <? 16) eqn:E1; destruct (16 - len header <=? 0) eqn:E2; cbn [negb]; try reflexivity; lia.
  - destruct (len header <? 16) eqn:E1; destruct (16 - len header <=? 0) eqn:E2; cbn [negb]; try reflexivity; try lia.
    destruct (recv (16 - len header) t) as [d t'].
    destruct d as [|x d]; [reflexivity|].
    rewrite IH. rewrite len_app. f_equal. lia.
Qed.

Lemma recv_kernels :
  (forall n, k_recv_hdr_guard n = (n <? 16)) /\ (forall n, k_recv_hdr_want n = 16 - n) /\
  k_recv_async_hdr_want = 16 /\ (forall n, k_recv_async_body_want n = n - 16) /\
  k_recv_sync_shape = true /\ k_recv_async_shape = true.
Proof. repeat split; reflexivity. Qed.

(* the model's sync header read IS the source's loop started from the empty header *)
Lemma sync_header_loop : forall fuel t, hdr_loop_src fuel [] t 0 = recv_exactly fuel 16 [] t 0.
Proof. intros. rewrite hdr_loop_src_is_recv_exactly. reflexivity. Qed.
