(* C02: the regenerated control skeleton of compute_l2_key computes the MS-GKDI chain key
   from every conforming covering envelope, and refuses everything else. *)
From V Require Import Prelude.Base Prelude.Loops gen.Kernels Spec.GkdiSpec.

Section P.
Context {K : Type} (kdf : K -> Z -> Z -> K) (top : K).
Notation K1 := (K1 kdf top).
Notation K2 := (K2 kdf top).

(* closed form of the L1 loop: n iterations from (r, a, K1 a) *)
Lemma l1_loop_iter (body : bool * Z * K -> bool * Z * K) :
  (forall r l k, body (r, l, k) = (true, l - 1, kdf k (l - 1) (-1))) ->
  forall n r a, a <= 31 ->
  Nat.iter n body (r, a, K1 a) = ((if Nat.eqb n 0 then r else true), a - Z.of_nat n, K1 (a - Z.of_nat n)).
Proof.
  intros Hb n. induction n as [|n IH]; intros r a Ha.
  - cbn. now rewrite Z.sub_0_r.
  - rewrite iter_shift, Hb.
    replace (kdf (K1 a) (a - 1) (-1)) with (K1 (a - 1))
      by (rewrite (K1_step kdf top (a - 1)) by lia; repeat f_equal; lia).
    rewrite IH by lia. cbn [Nat.eqb].
    replace (a - 1 - Z.of_nat n) with (a - Z.of_nat (S n)) by lia.
    destruct (Nat.eqb n 0); reflexivity.
Qed.

Lemma l2_loop_iter l1 (body : Z * K -> Z * K) :
  (forall l k, body (l, k) = (l - 1, kdf k l1 (l - 1))) ->
  forall n b, b <= 31 ->
  Nat.iter n body (b, K2 l1 b) = (b - Z.of_nat n, K2 l1 (b - Z.of_nat n)).
Proof.
  intros Hb n. induction n as [|n IH]; intros b Hle.
  - cbn. now rewrite Z.sub_0_r.
  - rewrite iter_shift, Hb.
    replace (kdf (K2 l1 b) l1 (b - 1)) with (K2 l1 (b - 1))
      by (rewrite (K2_step kdf top l1 (b - 1)) by lia; repeat f_equal; lia).
    rewrite IH by lia. replace (b - 1 - Z.of_nat n) with (b - Z.of_nat (S n)) by lia. reflexivity.
Qed.

Ltac loop1 n := match goal with |- context [while ?f ?c ?b ?s] =>
  let H := fresh "Hb" in
  assert (H : forall r l k, b (r, l, k) = (true, l - 1, kdf k (l - 1) (-1))) by (intros; reflexivity);
  rewrite (while_steps c b n s f);
  [ rewrite (l1_loop_iter b H) by lia
  | let i := fresh "i" in intros i ?; rewrite (l1_loop_iter b H) by lia; cbv beta iota; lia
  | rewrite (l1_loop_iter b H) by lia; cbv beta iota; lia
  | lia ] end.
Ltac loop2 n l1 := match goal with |- context [while ?f ?c ?b ?s] =>
  let H := fresh "Hb" in
  assert (H : forall l k, b (l, k) = (l - 1, kdf k l1 (l - 1))) by (intros; reflexivity);
  rewrite (while_steps c b n s f);
  [ rewrite (l2_loop_iter l1 b H) by lia
  | let i := fresh "i" in intros i ?; rewrite (l2_loop_iter l1 b H) by lia; cbv beta iota; lia
  | rewrite (l2_loop_iter l1 b H) by lia; cbv beta iota; lia
  | lia ] end.
Ltac loop0 := match goal with |- context [while ?f ?c ?b ?s] =>
  rewrite (while_steps c b 0%nat s f); [ cbn [Nat.iter nat_rect] | intros ? ?; lia | cbn; lia | lia ] end.
(* guards of the form `if c then Raise ValueError else ...` that the hypotheses make false *)
Ltac pass_guards := repeat match goal with
  |- context [if ?c then Raise ValueError else _] =>
     let E := fresh "G" in destruct c eqn:E; [exfalso; lia|] end.

Theorem chain fuel e l1 l2 : conforming kdf top e -> 0 <= l1 <= 31 -> 0 <= l2 <= 31 ->
  covers e l1 l2 -> (32 <= fuel)%nat ->
  k_compute_l2_key kdf fuel l1 l2 (e_l1 e) (e_l2 e) (e_l1key e) (e_l2key e) = Ok (K2 l1 l2).
Proof.
  intros (Hr1 & Hr2 & Hc31 & Hcn) H1 H2 Hcov Hf.
  unfold k_compute_l2_key, covers in *. pass_guards.
  destruct (e_l2 e =? 31) eqn:E31.
  - assert (e_l2 e = 31) as E by lia. rewrite (Hc31 E). cbn [orb negb andb].
    loop1 (Z.to_nat (e_l1 e - l1)). cbn [bind].
    replace (e_l1 e - Z.of_nat (Z.to_nat (e_l1 e - l1))) with l1 by lia.
    destruct (Nat.eqb _ 0); change (kdf (K1 l1) l1 31) with (K2 l1 31);
    loop2 (Z.to_nat (31 - l2)) l1; cbn [bind]; do 2 f_equal; lia.
  - assert (e_l2 e <> 31) as E by lia. destruct (Hcn E) as [Hk2 Hk1]. rewrite Hk2. cbn [orb negb andb].
    destruct (e_l1 e =? l1) eqn:El1.
    + assert (e_l1 e = l1) as El by lia. cbn [negb andb].
      loop0. cbn [bind]. rewrite El.
      loop2 (Z.to_nat (e_l2 e - l2)) l1; cbn [bind]; do 2 f_equal; lia.
    + assert (e_l1 e > l1) as Hgt by lia. rewrite (Hk1 ltac:(lia)). cbn [negb andb].
      loop1 (Z.to_nat (e_l1 e - 1 - l1)). cbn [bind].
      replace (e_l1 e - 1 - Z.of_nat (Z.to_nat (e_l1 e - 1 - l1))) with l1 by lia.
      destruct (Nat.eqb _ 0); change (kdf (K1 l1) l1 31) with (K2 l1 31);
      loop2 (Z.to_nat (31 - l2)) l1; cbn [bind]; do 2 f_equal; lia.
Qed.

(* seed material that does not cover the request, or a request outside 0..31: an error,
   for every fuel (neither a key nor a loop) *)
Theorem noncover fuel l1 l2 a b (k1 k2 : K) :
  ~ (0 <= l1 <= 31 /\ 0 <= l2 <= 31 /\ (a > l1 \/ (a = l1 /\ b >= l2))) ->
  k_compute_l2_key kdf fuel l1 l2 a b k1 k2 = Raise ValueError.
Proof.
  intros H. unfold k_compute_l2_key.
  repeat match goal with
  |- context [if ?c then Raise ValueError else _] =>
     let E := fresh "G" in destruct c eqn:E; [reflexivity|] end.
  exfalso. apply H. lia.
Qed.

(* the library's own root-derived envelope (31,31, L1 key = top) yields every key of the L0 *)
Corollary chain_from_root fuel nokey l1 l2 : 0 <= l1 <= 31 -> 0 <= l2 <= 31 -> (32 <= fuel)%nat ->
  k_compute_l2_key kdf fuel l1 l2 31 31 top nokey = Ok (K2 l1 l2).
Proof.
  intros H1 H2 Hf. apply (chain fuel (root_env top nokey) l1 l2); auto using root_env_conforming.
  unfold covers, root_env; cbn. lia.
Qed.
End P.

(* The model function of Model/Chain.v (any Crypto record, any hash, root key id, L0), K := res bytes *)
From V Require Import Model.Crypto Model.Types Model.Chain.

Definition env_of (e : envelope) : env (K := res bytes) :=
  {| e_l1 := gke_l1 e; e_l2 := gke_l2 e; e_l1key := Ok (gke_l1_key e); e_l2key := Ok (gke_l2_key e) |}.

Lemma model_chain (c : Crypto) (h : hash) (top : res bytes) (e : envelope) l1 l2 :
  conforming (kdfK c h (gke_rkid e) (gke_l0 e)) top (env_of e) ->
  0 <= l1 <= 31 -> 0 <= l2 <= 31 -> covers (env_of e) l1 l2 ->
  compute_l2_key c h l1 l2 e = K2 (kdfK c h (gke_rkid e) (gke_l0 e)) top l1 l2.
Proof.
  intros Hc H1 H2 Hcov. unfold compute_l2_key.
  pose proof (chain (kdfK c h (gke_rkid e) (gke_l0 e)) top L2_FUEL (env_of e) l1 l2 Hc H1 H2 Hcov) as H.
  cbn [env_of e_l1 e_l2 e_l1key e_l2key] in H. rewrite H; [reflexivity|]. unfold L2_FUEL. lia.
Qed.

Lemma model_noncover (c : Crypto) (h : hash) (e : envelope) l1 l2 :
  ~ (0 <= l1 <= 31 /\ 0 <= l2 <= 31 /\ (gke_l1 e > l1 \/ (gke_l1 e = l1 /\ gke_l2 e >= l2))) ->
  compute_l2_key c h l1 l2 e = Raise ValueError.
Proof. intros H. unfold compute_l2_key. rewrite noncover by assumption. reflexivity. Qed.
