(* C04: a modified blob never decrypts to different plaintext.
   The integrity of AES-KW and AES-GCM (INT-CTXT) is ASSUMED, not proved: it enters as the record IdealLaws
   (decryption succeeds only on images of encryption; encryption is jointly injective) and as the explicit
   premise NoForgery (the modified blob carries no NEW valid image: a wrapped key that unwraps under a KEK
   derivable from the cache while the blob is processed is the original wrapped key; a content that decrypts
   under the original CEK is the original content).  What is proved is that the library routes the right slices
   to the primitives -- wrapped CEK, ciphertext with tag, nonce from the parameters, KEK from SD / root key id /
   L0-L2 / key_info of the blob -- so that these guarantees cover the whole blob: whatever else was changed, the
   result is an error or the original plaintext. *)
From Coq Require Import String.
From V Require Import Prelude.Base Prelude.PyInt Prelude.PySlice Prelude.PyStr.
From V Require Import Model.Types Model.Crypto Model.Sym Model.Chain Model.KeyId Model.Gkdi Model.Kek Model.SecDesc.
From V Require Import Model.Asn1 Model.Pkcs7 Model.Blob Model.CryptoWrap Model.Interval Model.Client.
From V Require Import Spec.GkdiSpec Spec.KekSpec.
From V Require Import Proofs.BlobPkcs7 Proofs.BlobMain Proofs.C01Lib Proofs.C01.

Section C04.
Context (c : Crypto).

(* k' is the KEK get_kek derives while unprotect processes B' with the cache X *)
Definition derived_while_processing (X : ccache) (B' : bytes) (k' : bytes) : Prop :=
  exists b' sd' e' X', blob_unpack B' = Ok b' /\ get_target_sd (b_sid b') = Ok sd' /\
    cc_get_key c X sd' (kid_rkid (b_key_identifier b')) (kid_l0 (b_key_identifier b')) (kid_l1 (b_key_identifier b'))
      (kid_l2 (b_key_identifier b')) = Ok (Some e', X') /\
    get_kek c e' (b_key_identifier b') = Ok k'.

(* the attacker cannot produce a new valid image (w0, ct0, cek0: wrapped CEK, content and CEK of the original blob) *)
Record NoForgery (X : ccache) (w0 ct0 cek0 : bytes) (B' : bytes) : Prop := {
  nf_wrap : forall b' k' x', blob_unpack B' = Ok b' -> derived_while_processing X B' k' ->
              kw_unwrap c k' (b_enc_cek b') = Ok x' -> b_enc_cek b' = w0;
  nf_gcm : forall b' n' p', blob_unpack B' = Ok b' -> gcm_dec c cek0 n' (b_enc_content b') = Ok p' -> b_enc_content b' = ct0 }.
(* the same with the key and the nonce named (then the round-trip laws suffice, no injectivity is needed) *)
Record NoForgeryKeyed (X : ccache) (w0 kek0 ct0 cek0 n0 : bytes) (B' : bytes) : Prop := {
  nfk_wrap : forall b' k' x', blob_unpack B' = Ok b' -> derived_while_processing X B' k' ->
               kw_unwrap c k' (b_enc_cek b') = Ok x' -> b_enc_cek b' = w0 /\ k' = kek0;
  nfk_gcm : forall b' n' p', blob_unpack B' = Ok b' -> gcm_dec c cek0 n' (b_enc_content b') = Ok p' ->
              b_enc_content b' = ct0 /\ n' = n0 }.

(* what a successful unprotect did *)
Lemma unprotect_inv X B' p' : fst (unprotect_offline c X B') = Ok p' ->
  exists b' k' cek' n', blob_unpack B' = Ok b' /\ derived_while_processing X B' k' /\
    kw_unwrap c k' (b_enc_cek b') = Ok cek' /\ gcm_iv_of_parameters (b_enc_content_parameters b') = Ok n' /\
    gcm_dec c cek' n' (b_enc_content b') = Ok p'.
Proof.
  unfold unprotect_offline. destruct (blob_unpack B') as [b'|] eqn:Eu; [|discriminate].
  destruct (get_target_sd (b_sid b')) as [sd'|] eqn:Es; [|discriminate].
  destruct (cc_get_key c X sd' _ _ _ _) as [[[e'|] X']|] eqn:Eg; try discriminate. cbn [fst].
  unfold decrypt_blob. destruct (get_kek c e' (b_key_identifier b')) as [k'|] eqn:Ek; [|discriminate]. cbn [bind].
  unfold cek_decrypt. destruct (oid_eqb (b_enc_cek_algorithm b') oid_aes256_wrap); [|discriminate].
  destruct (kw_unwrap c k' (b_enc_cek b')) as [cek'|] eqn:Ew; [|discriminate]. cbn [bind].
  unfold content_decrypt. destruct (oid_eqb (b_enc_content_algorithm b') oid_aes256_gcm); [|discriminate].
  destruct (gcm_iv_of_parameters (b_enc_content_parameters b')) as [n'|] eqn:En; [|discriminate]. cbn [bind]. intros Ed.
  exists b', k', cek', n'. split; [reflexivity|]. split; [exists b', sd', e', X'; auto|]. auto.
Qed.

(* the core: wrapped CEK w0 of cek0 under kek0, content ct0 of data under (cek0, n0) *)
Lemma no_other_plaintext_core (I : IdealLaws c) kek0 cek0 n0 data w0 ct0 X B' p' :
  kw_wrap c kek0 cek0 = Ok w0 -> gcm_enc c cek0 n0 data = Ok ct0 -> NoForgery X w0 ct0 cek0 B' ->
  fst (unprotect_offline c X B') = Ok p' -> p' = data.
Proof.
  intros Ew Ect [Nw Ng] Hu. destruct (unprotect_inv X B' p' Hu) as (b' & k' & cek' & n' & Eu & Hd & Euw & En & Ed).
  pose proof (Nw b' k' cek' Eu Hd Euw) as E1. rewrite E1 in Euw.
  destruct (kw_inj c I _ _ _ _ _ (kw_ideal c I _ _ _ Euw) Ew) as [-> ->].
  pose proof (Ng b' n' p' Eu Ed) as E2. rewrite E2 in Ed.
  destruct (gcm_inj c I _ _ _ _ _ _ _ (gcm_ideal c I _ _ _ _ Ed) Ect) as (_ & _ & ->). reflexivity.
Qed.
Lemma no_other_plaintext_keyed_core (L : CryptoLaws c) kek0 cek0 n0 data w0 ct0 X B' p' :
  kw_wrap c kek0 cek0 = Ok w0 -> gcm_enc c cek0 n0 data = Ok ct0 -> NoForgeryKeyed X w0 kek0 ct0 cek0 n0 B' ->
  fst (unprotect_offline c X B') = Ok p' -> p' = data.
Proof.
  intros Ew Ect [Nw Ng] Hu. destruct (unprotect_inv X B' p' Hu) as (b' & k' & cek' & n' & Eu & Hd & Euw & En & Ed).
  destruct (Nw b' k' cek' Eu Hd Euw) as [E1 ->]. rewrite E1, (kw_roundtrip c L _ _ _ Ew) in Euw. apply Ok_inj in Euw. subst cek'.
  destruct (Ng b' n' p' Eu Ed) as [E2 ->]. rewrite E2, (gcm_roundtrip c L _ _ _ _ Ect) in Ed. congruence.
Qed.

Section Protected.
Context (h : hash) (rk : root_key) (rkid : bytes) (s : sid) (sid : pystr) (time_ns l0 l1 l2 : Z).
Context (cache : ccache) (r1 r2 r3 data B : bytes) (cache1 : ccache) (b0 : blob).
Hypothesis Hhash : rk_hash rk = Ok h.
Hypothesis Halg : rk_kdf_alg rk = STR_KDF_ALG.
Hypothesis Hrk : len rkid = 16.
Hypothesis Hsid : sid_parse sid = Ok s.
Hypothesis Hsok : sid_okb sid = true.
Hypothesis Hns : 0 <= time_ns.
Hypothesis Hint : interval_of_time_ns time_ns = (l0, l1, l2).
Hypothesis Hne : kdf_nonempty c.
Hypothesis Hc : cache_ok c h rk rkid (target_sd s) l0 cache.
Hypothesis Hr2 : len r2 = 12.
Hypothesis Hr3 : len r3 = 32.
Hypothesis Sw : forall kek w, derived_kek c h rk rkid (target_sd s) l0 l1 l2 r3 = Ok kek -> kw_wrap c kek r1 = Ok w -> len w < U32.
Hypothesis Sct : forall ct, gcm_enc c r1 r2 data = Ok ct -> len ct < U32.
Hypothesis Hp : protect_offline c cache r1 r2 r3 data sid (Some rkid) time_ns = (Ok B, cache1).
Hypothesis Hb0 : blob_unpack B = Ok b0.

Lemma protected_facts : exists kek0, derived_kek c h rk rkid (target_sd s) l0 l1 l2 r3 = Ok kek0 /\
  kw_wrap c kek0 r1 = Ok (b_enc_cek b0) /\ gcm_enc c r1 r2 data = Ok (b_enc_content b0).
Proof.
  destruct (protect_inv c h rk rkid s sid time_ns l0 l1 l2 Hhash Halg Hrk Hsid Hsok Hns Hint Hne cache r1 r2 r3 data B cache1 Hc Hr2 Hr3 Sw Sct Hp)
    as (e0 & seed & w & ct & p & _ & _ & _ & _ & Es & _ & Ew & Ect & _ & _ & _ & _ & Eu).
  rewrite Hb0 in Eu. apply Ok_inj in Eu. subst b0. exists (kek_nonce c h seed r3).
  split; [unfold derived_kek; rewrite Es; reflexivity|]. split; [exact Ew|exact Ect].
Qed.

(* for ANY byte string B' and ANY cache X (in particular the cache left by protect) *)
Theorem no_other_plaintext (I : IdealLaws c) X B' p' :
  NoForgery X (b_enc_cek b0) (b_enc_content b0) r1 B' -> fst (unprotect_offline c X B') = Ok p' -> p' = data.
Proof.
  destruct protected_facts as (kek0 & _ & Ew & Ect). intros N Hu.
  exact (no_other_plaintext_core I kek0 r1 r2 data _ _ X B' p' Ew Ect N Hu).
Qed.
Theorem no_other_plaintext_keyed (L : CryptoLaws c) X B' p' kek0 :
  derived_kek c h rk rkid (target_sd s) l0 l1 l2 r3 = Ok kek0 ->
  NoForgeryKeyed X (b_enc_cek b0) kek0 (b_enc_content b0) r1 r2 B' -> fst (unprotect_offline c X B') = Ok p' -> p' = data.
Proof.
  destruct protected_facts as (kek0' & Ek & Ew & Ect). intros Ek' N Hu. rewrite Ek in Ek'. apply Ok_inj in Ek'. subst kek0'.
  exact (no_other_plaintext_keyed_core L kek0 r1 r2 data _ _ X B' p' Ew Ect N Hu).
Qed.

(* the benign fields, in general: a blob B' whose value differs from the original only in the key-identifier version, in
   flag bits other than bit 0 and in the domain / forest names still decrypts to the plaintext (those fields influence
   neither the keys nor the ciphertext) -- with any cache in which the root key is loaded *)
Definition with_kid (b : blob) (kid : key_identifier) : blob :=
  {| b_key_identifier := kid; b_sid := b_sid b; b_enc_cek := b_enc_cek b; b_enc_cek_algorithm := b_enc_cek_algorithm b;
     b_enc_cek_parameters := b_enc_cek_parameters b; b_enc_content := b_enc_content b;
     b_enc_content_algorithm := b_enc_content_algorithm b; b_enc_content_parameters := b_enc_content_parameters b |}.
Definition same_key_fields (k k' : key_identifier) : Prop :=
  kid_l0 k' = kid_l0 k /\ kid_l1 k' = kid_l1 k /\ kid_l2 k' = kid_l2 k /\ kid_rkid k' = kid_rkid k /\
  kid_key_info k' = kid_key_info k /\ kid_is_public_key k' = kid_is_public_key k.
Lemma get_kek_same_fields e k k' : same_key_fields k k' -> get_kek c e k' = get_kek c e k.
Proof. intros (E0 & E1 & E2 & _ & Ei & Ep). unfold get_kek. rewrite E0, E1, E2, Ei, Ep. reflexivity. Qed.

Theorem benign_fields (L : CryptoLaws c) X B' kid' :
  same_key_fields (b_key_identifier b0) kid' -> blob_unpack B' = Ok (with_kid b0 kid') ->
  cache_ok c h rk rkid (target_sd s) l0 X -> fst (unprotect_offline c X B') = Ok data.
Proof.
  intros Hk Eu HX.
  destruct (protect_inv c h rk rkid s sid time_ns l0 l1 l2 Hhash Halg Hrk Hsid Hsok Hns Hint Hne cache r1 r2 r3 data B cache1 Hc Hr2 Hr3 Sw Sct Hp)
    as (e0 & seed & w & ct & p & Hb & _ & He0 & _ & Es & Hn & Ew & Ect & _ & Eiv & _ & _ & Eu0).
  rewrite Hb0 in Eu0. apply Ok_inj in Eu0.
  destruct (interval_ranges _ _ _ _ Hns Hint) as (H0 & H1 & H2).
  set (kid0 := emitted_kid (gke_flags e0) l0 l1 l2 rkid r3 (gke_domain e0) (gke_forest e0)) in *.
  assert (Ek0 : b_key_identifier b0 = kid0) by (rewrite Eu0; reflexivity). rewrite Ek0 in Hk.
  destruct Hk as (K0 & K1 & K2 & Kr & Ki & Kp). cbn [kid0 emitted_kid kid_l0 kid_l1 kid_l2 kid_rkid] in K0, K1, K2, Kr.
  apply (unprotect_general c h rk rkid s sid l0 l1 l2 Hhash Halg Hsid (conj H0 Hb) H1 H2 L X B' kid' (kek_nonce c h seed r3) r1 r2 data w ct p); auto.
  - intros e' He' Hcov. rewrite (get_kek_same_fields e' kid0 kid'); [|unfold same_key_fields; cbn [kid0 emitted_kid kid_l0 kid_l1 kid_l2 kid_rkid]; auto 10].
    exact (proj2 (kek_agreement c h rk rkid (target_sd s) l0 l1 l2 Hhash H1 H2 e0 e' seed r3 He0 He' Hcov Es Hn)).
  - rewrite Eu. f_equal. rewrite Eu0. reflexivity.
Qed.
End Protected.
End C04.

(* ---- instances under the guarded symbolic crypto (ideal by construction: symg_ideal) ---- *)
Definition ex_data : bytes := [100; 97; 116; 97].
Definition ex_B : bytes :=
  match protect_offline symg ex_cache ex_r1 ex_r2 ex_r3 ex_data ex_sid (Some ex_rkid) ex_time with (Ok B, _) => B | _ => [] end.
Definition ex_c1 : ccache := snd (protect_offline symg ex_cache ex_r1 ex_r2 ex_r3 ex_data ex_sid (Some ex_rkid) ex_time).
Definition dummy_blob : blob :=
  {| b_key_identifier := emitted_kid 0 0 0 0 [] [] [] []; b_sid := []; b_enc_cek := []; b_enc_cek_algorithm := []; b_enc_cek_parameters := None;
     b_enc_content := []; b_enc_content_algorithm := []; b_enc_content_parameters := None |}.
Definition ex_b0 : blob := match blob_unpack ex_B with Ok b => b | Raise _ => dummy_blob end.
Lemma ex_protect : protect_offline symg ex_cache ex_r1 ex_r2 ex_r3 ex_data ex_sid (Some ex_rkid) ex_time = (Ok ex_B, ex_c1).
Proof. vm_compute. reflexivity. Qed.
Lemma ex_unpack : blob_unpack ex_B = Ok ex_b0. Proof. vm_compute. reflexivity. Qed.

(* benign changes: the key-identifier version and a flag bit other than bit 0 (and both, plus the names) *)
Definition tweak_kid (version flag_bits l2_delta : Z) (domain : pystr) (k : key_identifier) : key_identifier :=
  {| kid_version := version; kid_flags := Z.lor (kid_flags k) flag_bits; kid_l0 := kid_l0 k; kid_l1 := kid_l1 k; kid_l2 := kid_l2 k + l2_delta;
     kid_rkid := kid_rkid k; kid_key_info := kid_key_info k; kid_domain := domain; kid_forest := kid_forest k |}.
Definition repack (b : blob) : bytes := match blob_pack b true with Ok bs => bs | Raise _ => [] end.
Definition ex_B_version : bytes := repack (with_kid ex_b0 (tweak_kid 7 0 0 [] (b_key_identifier ex_b0))).
Definition ex_B_flag : bytes := repack (with_kid ex_b0 (tweak_kid 1 4 0 [] (b_key_identifier ex_b0))).
Definition ex_B_names : bytes := repack (with_kid ex_b0 (tweak_kid 9 2147483648 0 [120; 46; 121] (b_key_identifier ex_b0))).
(* changes of fields that influence the keys or the ciphertext: L2 index, public-key flag, nonce in the parameters *)
Definition ex_B_l2 : bytes := repack (with_kid ex_b0 (tweak_kid 1 0 (-1) [] (b_key_identifier ex_b0))).
Definition ex_B_pubflag : bytes := repack (with_kid ex_b0 (tweak_kid 1 1 0 [] (b_key_identifier ex_b0))).

Example benign_examples :
  beqb ex_B_version ex_B = false /\ fst (unprotect_offline symg ex_c1 ex_B_version) = Ok ex_data /\
  beqb ex_B_flag ex_B = false /\ fst (unprotect_offline symg ex_c1 ex_B_flag) = Ok ex_data /\
  beqb ex_B_names ex_B = false /\ fst (unprotect_offline symg ex_c1 ex_B_names) = Ok ex_data.
Proof. repeat split; vm_compute; reflexivity. Qed.
Example harmful_examples :
  fst (unprotect_offline symg ex_c1 ex_B_l2) = Raise InvalidUnwrap /\
  (exists e, fst (unprotect_offline symg ex_c1 ex_B_pubflag) = Raise e) /\
  fst (unprotect_offline symg ex_c1 (firstn 100 ex_B)) = Raise NotEnoughData.
Proof. split; [vm_compute; reflexivity|]. split; [eexists; vm_compute; reflexivity|vm_compute; reflexivity]. Qed.

(* NoForgery holds of the benign modification (its wrapped key and content are the original ones), and the theorem
   applies to it: all hypotheses of no_other_plaintext are satisfiable together *)
Lemma ex_noforgery : NoForgery symg ex_c1 (b_enc_cek ex_b0) (b_enc_content ex_b0) ex_r1 ex_B_version.
Proof.
  assert (Eu : blob_unpack ex_B_version = Ok (with_kid ex_b0 (tweak_kid 7 0 0 [] (b_key_identifier ex_b0)))) by (vm_compute; reflexivity).
  constructor.
  - intros b' k' x' E _ _. rewrite Eu in E. apply Ok_inj in E. subst b'. reflexivity.
  - intros b' n' p' E _. rewrite Eu in E. apply Ok_inj in E. subst b'. reflexivity.
Qed.
Example ex_no_other_plaintext : forall p', fst (unprotect_offline symg ex_c1 ex_B_version) = Ok p' -> p' = ex_data.
Proof.
  intros p'.
  assert (Hc : cache_ok symg SHA512 ex_rk ex_rkid (target_sd (parsed ex_sid)) 361 ex_cache) by (apply cache_ok_fresh; reflexivity).
  apply (no_other_plaintext symg SHA512 ex_rk ex_rkid (parsed ex_sid) ex_sid ex_time 361 31 23 ex_cache ex_r1 ex_r2 ex_r3 ex_data ex_B ex_c1 ex_b0
           ltac:(vm_compute; reflexivity) eq_refl eq_refl ltac:(vm_compute; reflexivity) ltac:(vm_compute; reflexivity) ltac:(unfold ex_time; lia)
           ltac:(vm_compute; reflexivity) symg_kdf_nonempty Hc eq_refl eq_refl ltac:(ex_wrap_size) ltac:(ex_gcm_size) ex_protect ex_unpack
           symg_ideal ex_c1 ex_B_version p' ex_noforgery).
Qed.
