(* C08: the regex literal of sid_to_bytes (regenerated into gen/K_sd.v) is the pattern whose language
   Proofs/SecDesc.v characterises. A changed pattern breaks this obligation and nothing else. *)
From V Require Import Prelude.Base gen.K_sd Model.Types.

(* the pattern literal the grammar theorems are about: ^S-([0-9])-([0-9]+)(?:-[0-9]+){1,15}\Z *)
Definition expected_regex : pystr :=
  [94; 83; 45; 40; 91; 48; 45; 57; 93; 41; 45; 40; 91; 48; 45; 57; 93; 43; 41; 40; 63; 58; 45; 91; 48; 45; 57; 93; 43; 41;
   123; 49; 44; 49; 53; 125; 92; 90].
Lemma regex_is_expected : k_sid_regex = expected_regex.
Proof. reflexivity. Qed.

