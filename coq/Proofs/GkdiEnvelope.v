(* C11: GroupKeyEnvelope.unpack (GroupKeyEnvelope.pack e) = e for every well-formed e. *)
From V Require Import Prelude.Base Prelude.PyInt Prelude.PySlice Prelude.PyStr.
From V Require Import gen.C_gkdi Model.Types Model.KeyId Model.Gkdi Proofs.GkdiLib.

Definition wf_env (e : envelope) : bool :=
  u32b (gke_version e) && u32b (gke_flags e) && u32b (gke_l0 e) && u32b (gke_l1 e) && u32b (gke_l2 e) &&
  (len (gke_rkid e) =? 16) &&
  wfstr (gke_kdf_alg e) && u32b (utf16_len (gke_kdf_alg e) + 2) && u32b (len (gke_kdf_params e)) &&
  wfstr (gke_secret_alg e) && u32b (utf16_len (gke_secret_alg e) + 2) && u32b (len (gke_secret_params e)) &&
  u32b (gke_priv_len e) && u32b (gke_pub_len e) &&
  wfstr (gke_domain e) && u32b (utf16_len (gke_domain e) + 2) &&
  wfstr (gke_forest e) && u32b (utf16_len (gke_forest e) + 2) &&
  u32b (len (gke_l1_key e)) && u32b (len (gke_l2_key e)).

Definition env_field_list (e : envelope) (bka bsa bd bf : bytes) : list bytes :=
  [ le 4 (gke_version e); c_GKE_MAGIC; le 4 (gke_flags e); le 4 (gke_l0 e); le 4 (gke_l1 e); le 4 (gke_l2 e);
    gke_rkid e;
    le 4 (len bka + 2); le 4 (len (gke_kdf_params e)); le 4 (len bsa + 2); le 4 (len (gke_secret_params e));
    le 4 (gke_priv_len e); le 4 (gke_pub_len e);
    le 4 (len (gke_l1_key e)); le 4 (len (gke_l2_key e)); le 4 (len bd + 2); le 4 (len bf + 2);
    bka ++ [0; 0]; gke_kdf_params e; bsa ++ [0; 0]; gke_secret_params e;
    bd ++ [0; 0]; bf ++ [0; 0]; gke_l1_key e; gke_l2_key e ].

Record env_strings (e : envelope) (bka bsa bd bf : bytes) : Prop := {
  es_ka : utf16le_encode (gke_kdf_alg e) = Ok bka;
  es_sa : utf16le_encode (gke_secret_alg e) = Ok bsa;
  es_d : utf16le_encode (gke_domain e) = Ok bd;
  es_f : utf16le_encode (gke_forest e) = Ok bf;
  es_lka : u32b (len bka + 2) = true;
  es_lsa : u32b (len bsa + 2) = true;
  es_ld : u32b (len bd + 2) = true;
  es_lf : u32b (len bf + 2) = true }.

Lemma GroupKeyEnvelope_fields_ok e : wf_env e = true -> exists bka bsa bd bf,
  env_strings e bka bsa bd bf /\ GroupKeyEnvelope_fields e = Ok (env_field_list e bka bsa bd bf).
Proof.
  unfold wf_env. rewrite !andb_true_iff.
  intros [[[[[[[[[[[[[[[[[[[Hv Hf] H0] H1] H2] Hr] Wka] Lka] Lkp] Wsa] Lsa] Lsp] Hpr] Hpu] Wd] Ld] Wf] Lf] Lk1] Lk2].
  destruct (encode_utf16z_ok _ Wka) as (bka & Eka & Zka & Nka).
  destruct (encode_utf16z_ok _ Wsa) as (bsa & Esa & Zsa & Nsa).
  destruct (encode_utf16z_ok _ Wd) as (bd & Ed & Zd & Nd).
  destruct (encode_utf16z_ok _ Wf) as (bf & Ef & Zf & Nf).
  exists bka, bsa, bd, bf. split.
  - constructor; try assumption; rewrite ?Nka, ?Nsa, ?Nd, ?Nf; assumption.
  - unfold GroupKeyEnvelope_fields. rewrite Zka, Zsa, Zd, Zf. cbn [bind].
    rewrite !to_bytes_le_ok by (rewrite ?len_utf16z, ?Nka, ?Nsa, ?Nd, ?Nf; apply u32b_P4; assumption).
    cbn [bind]. unfold env_field_list. rewrite !len_utf16z. reflexivity.
Qed.

Lemma len_GKE_MAGIC : len c_GKE_MAGIC = 4. Proof. reflexivity. Qed.
Ltac off_side := cbn [off nth length]; rewrite ?len_le, ?len_GKE_MAGIC; cbn [Z.of_nat Pos.of_succ_nat Pos.succ]; lia.

Theorem GroupKeyEnvelope_unpack_fields e bka bsa bd bf : len (gke_rkid e) = 16 ->
  env_strings e bka bsa bd bf -> wf_env e = true ->
  GroupKeyEnvelope_unpack (concat (env_field_list e bka bsa bd bf)) = Ok e.
Proof.
  intros Hr16 [Eka Esa Ed Ef Lka Lsa Ld Lf]. unfold wf_env. rewrite !andb_true_iff.
  intros [[[[[[[[[[[[[[[[[[[Hv Hf] H0] H1] H2] _] _] _] Lkp] _] _] Lsp] Hpr] Hpu] _] _] _] _] Lk1] Lk2].
  unfold GroupKeyEnvelope_unpack. cbv zeta. rewrite (slice_none_lo (Some 4)).
  set (fs := env_field_list e bka bsa bd bf).
  rewrite (slice_field fs 0 0 4) by (unfold fs, env_field_list; off_side).
  rewrite (slice_field fs 1 4 8) by (unfold fs, env_field_list; off_side).
  rewrite (slice_field fs 2 8 12) by (unfold fs, env_field_list; off_side).
  rewrite (slice_field fs 3 12 16) by (unfold fs, env_field_list; off_side).
  rewrite (slice_field fs 4 16 20) by (unfold fs, env_field_list; off_side).
  rewrite (slice_field fs 5 20 24) by (unfold fs, env_field_list; off_side).
  rewrite (slice_field fs 6 24 40) by (unfold fs, env_field_list; off_side).
  rewrite (slice_field fs 7 40 44) by (unfold fs, env_field_list; off_side).
  rewrite (slice_field fs 8 44 48) by (unfold fs, env_field_list; off_side).
  rewrite (slice_field fs 9 48 52) by (unfold fs, env_field_list; off_side).
  rewrite (slice_field fs 10 52 56) by (unfold fs, env_field_list; off_side).
  rewrite (slice_field fs 11 56 60) by (unfold fs, env_field_list; off_side).
  rewrite (slice_field fs 12 60 64) by (unfold fs, env_field_list; off_side).
  rewrite (slice_field fs 13 64 68) by (unfold fs, env_field_list; off_side).
  rewrite (slice_field fs 14 68 72) by (unfold fs, env_field_list; off_side).
  rewrite (slice_field fs 15 72 76) by (unfold fs, env_field_list; off_side).
  rewrite (slice_field fs 16 76 80) by (unfold fs, env_field_list; off_side).
  rewrite (slice_tail fs 17 80) by (unfold fs, env_field_list; off_side).
  unfold fs, env_field_list. cbn [nth skipn concat].
  rewrite beqb_refl. cbn [negb]. unfold uuid_of_bytes_le. rewrite Hr16. cbn [Z.eqb Pos.eqb bind].
  rewrite !le4_val by assumption. rewrite app_nil_r.
  rewrite (slice_drop_nul bka) by reflexivity. rewrite (utf16le_decode_encode _ _ Eka). cbn [bind].
  rewrite (slice_suffix (bka ++ [0; 0])) by (rewrite len_utf16z; reflexivity).
  rewrite (slice_none_l (gke_kdf_params e)), (slice_app_r (gke_kdf_params e)).
  rewrite (slice_drop_nul bsa) by reflexivity. rewrite (utf16le_decode_encode _ _ Esa). cbn [bind].
  rewrite (slice_suffix (bsa ++ [0; 0])) by (rewrite len_utf16z; reflexivity).
  rewrite (slice_none_l (gke_secret_params e)), (slice_app_r (gke_secret_params e)).
  rewrite (slice_drop_nul bd) by reflexivity. rewrite (utf16le_decode_encode _ _ Ed). cbn [bind].
  rewrite (slice_suffix (bd ++ [0; 0])) by (rewrite len_utf16z; reflexivity).
  rewrite (slice_drop_nul bf) by reflexivity. rewrite (utf16le_decode_encode _ _ Ef). cbn [bind].
  rewrite (slice_suffix (bf ++ [0; 0])) by (rewrite len_utf16z; reflexivity).
  rewrite (slice_none_l (gke_l1_key e)), (slice_app_r (gke_l1_key e)).
  rewrite slice_none_lo, slice_all by lia.
  destruct e; reflexivity.
Qed.

Theorem GroupKeyEnvelope_roundtrip e : wf_env e = true ->
  exists b, GroupKeyEnvelope_pack e = Ok b /\ GroupKeyEnvelope_unpack b = Ok e.
Proof.
  intros Hwf. destruct (GroupKeyEnvelope_fields_ok e Hwf) as (bka & bsa & bd & bf & Hs & Hfs).
  exists (concat (env_field_list e bka bsa bd bf)). split.
  - unfold GroupKeyEnvelope_pack. rewrite Hfs. reflexivity.
  - apply GroupKeyEnvelope_unpack_fields; try assumption.
    unfold wf_env in Hwf. rewrite !andb_true_iff in Hwf. lia.
Qed.

Example wf_env_example :
  wf_env {| gke_version := 1; gke_flags := 2; gke_l0 := 4294967295; gke_l1 := 0; gke_l2 := 31; gke_rkid := repeat 9 16;
            gke_kdf_alg := [83; 80]; gke_kdf_params := [0; 1; 2]; gke_secret_alg := []; gke_secret_params := [];
            gke_priv_len := 512; gke_pub_len := 2048; gke_domain := [128512; 0; 97]; gke_forest := [];
            gke_l1_key := repeat 17 64; gke_l2_key := [] |} = true.
Proof. reflexivity. Qed.
