(* C07: OBJECT IDENTIFIER. For every arc list the writer accepts with first arc <= 2 (second arc <= 39,
   further arcs of any size) the content octets are the DER encoding of X.690 8.19 and the reader
   returns the arcs. *)
From V Require Import Prelude.Base Prelude.PyInt Prelude.PySlice gen.K_asn1 gen.C_asn1 Model.Asn1 Spec.DerSpec.
From V Require Import Proofs.Asn1Lib Proofs.Asn1Hdr Proofs.Asn1Tlv Proofs.Asn1Int.

Lemma oid_more_digits_spec fuel : forall c, 0 <= c < 2 ^ Z.of_nat fuel ->
  exists r, oid_more_digits fuel c = Ok r /\ Forall contd r /\ lsb128 r = c / 128 /\
    (127 < c -> r <> [] /\ (last r 0) mod 128 <> 0) /\ (c <= 127 -> r = []).
Proof.
  induction fuel as [|f IH]; intros c Hc.
  - cbn in Hc. assert (c = 0) by lia. subst. cbn. exists []. repeat split; try constructor; try lia.
  - cbn [oid_more_digits]. unfold k_oid_more. destruct (c >? 127) eqn:E.
    + unfold k_oid_shift, k_oid_cont. rewrite shiftr_7, land_127. rewrite lor_128_l_spec by lia.
      rewrite Nat2Z.inj_succ, Z.pow_succ_r in Hc by lia.
      destruct (IH (c / 128)) as (r & E1 & Hf & Hv & Hbig & Hsmall); [lia|].
      rewrite E1. cbn [bind]. exists (128 + (c / 128) mod 128 :: r).
      split; [reflexivity|]. split; [constructor; [unfold contd; lia|exact Hf]|].
      split; [cbn [lsb128]; rewrite Hv; lia|]. split; [|lia].
      intros _. split; [discriminate|].
      destruct (Z_le_gt_dec (c / 128) 127) as [Hle|Hgt].
      * rewrite (Hsmall Hle). cbn [last]. lia.
      * destruct (Hbig ltac:(lia)) as [Hne Hl]. destruct r; [congruence|]. exact Hl.
    + exists []. split; [reflexivity|]. split; [constructor|]. cbn [lsb128]. repeat split; try lia; try congruence.
Qed.

Theorem oid_arc_der c : 0 <= c -> exists ds, oid_arc c = Ok ds /\ der_b128 c ds.
Proof.
  intros Hc. unfold oid_arc.
  destruct (oid_more_digits_spec (bits_fuel c) c) as (r & E1 & Hf & Hv & Hbig & Hsmall); [split; [lia|apply bits_fuel_ok; lia]|].
  rewrite E1. cbn [bind]. unfold k_oid_low. rewrite land_127. eexists. split; [reflexivity|].
  split; [|split].
  - cbn [rev]. apply b128_shape_app; [apply Forall_rev; exact Hf|lia].
  - rewrite hd_rev. destruct (Z_le_gt_dec c 127) as [Hle|Hgt].
    + rewrite (Hsmall Hle). cbn [last]. lia.
    + destruct (Hbig ltac:(lia)) as [Hne Hl]. destruct r; [congruence|]. intros H128.
      change (last (c mod 128 :: z :: r) 0) with (last (z :: r) 0) in H128. rewrite H128 in Hl. cbn in Hl. lia.
  - rewrite b128_val_rev. cbn [lsb128]. rewrite Hv. lia.
Qed.

Lemma map_res_oid l : Forall (fun x => 0 <= x) l -> exists ds, map_res oid_arc l = Ok ds /\ Forall2 der_b128 l ds.
Proof.
  induction 1 as [|x l Hx Hl IH]; [exists []; split; [reflexivity|constructor]|].
  destruct (oid_arc_der x Hx) as (d & E & Hd). destruct IH as (ds & E2 & Hds).
  cbn [map_res]. rewrite E, E2. cbn [bind]. exists (d :: ds). split; [reflexivity|constructor; assumption].
Qed.

Theorem encode_oid_der a b rest : 0 <= a <= 2 -> 0 <= b <= 39 -> Forall (fun x => 0 <= x) rest ->
  exists bs, encode_oid (a :: b :: rest) = Ok bs /\ der_oid (a :: b :: rest) bs.
Proof.
  intros Ha Hb Hr. unfold encode_oid. destruct ((a >? 39) || (b >? 39)) eqn:E; [lia|].
  destruct (map_res_oid ((40 * a + b) :: rest)) as (ds & E2 & Hds); [constructor; [lia|exact Hr]|].
  rewrite E2. cbn [bind]. exists (concat ds). split; [reflexivity|].
  cbn [der_oid]. repeat split; try lia; try exact Hr. exists ds. auto.
Qed.

(* the writer refuses what it cannot represent *)
Theorem encode_oid_refuses a b rest : 39 < b \/ 39 < a -> encode_oid (a :: b :: rest) = Raise ValueError.
Proof. intros H. unfold encode_oid. destruct ((a >? 39) || (b >? 39)) eqn:E; [reflexivity|lia]. Qed.

(* ---- reader *)
Lemma b128_val_lower r : b128_shape r -> forall acc, 0 <= acc -> 128 * acc <= b128_val acc r.
Proof.
  induction 1 as [d Hd|d r Hd Hr IH]; intros acc Ha; cbn [b128_val].
  - lia.
  - specialize (IH (128 * acc + d mod 128) ltac:(lia)). lia.
Qed.
Lemma der_b128_small n bs : der_b128 n bs -> n < 128 -> bs = [n].
Proof.
  intros (Hs & Hh & Hv) Hn. destruct Hs as [d Hd|d r Hd Hr].
  - cbn in Hv. f_equal. lia.
  - exfalso. cbn [hd] in Hh. cbn [b128_val] in Hv.
    pose proof (b128_val_lower r Hr (128 * 0 + d mod 128) ltac:(lia)). lia.
Qed.
Lemma b128_shape_nonempty bs : b128_shape bs -> exists x r, bs = x :: r.
Proof. destruct 1; eauto. Qed.

Lemma read_oid_arcs_spec arcs ds : Forall2 der_b128 arcs ds -> forall fuel, (length (concat ds) <= fuel)%nat ->
  read_oid_arcs fuel (concat ds) = Ok arcs.
Proof.
  induction 1 as [|x d arcs ds Hd Hds IH]; intros fuel Hf.
  - cbn [concat]. destruct fuel; reflexivity.
  - destruct Hd as (Hs & Hh & Hv). destruct (b128_shape_nonempty d Hs) as (y & r & Ed).
    cbn [concat] in *. rewrite app_length in Hf.
    destruct fuel as [|f]; [rewrite Ed in Hf; cbn in Hf; lia|].
    assert (Hstep : read_oid_arcs (S f) (d ++ concat ds) =
        let* (v, _, rest) := unpack_octet_number_rest (d ++ concat ds) 0 0 in
        let* r := read_oid_arcs f rest in Ok (v :: r)).
    { rewrite Ed. reflexivity. }
    rewrite Hstep. rewrite (unpack_octet_number_shape d Hs). cbn [bind].
    rewrite IH by (rewrite Ed in Hf; cbn [length] in Hf; lia). cbn [bind]. rewrite Hv. reflexivity.
Qed.

Lemma Forall2_cons_l {A B} (R : A -> B -> Prop) x l ys : Forall2 R (x :: l) ys ->
  exists y ys', ys = y :: ys' /\ R x y /\ Forall2 R l ys'.
Proof. intros H. inversion H; subst. eauto. Qed.

Theorem read_oid_content_der a b rest bs : 0 <= a <= 2 -> 0 <= b <= 39 -> der_oid (a :: b :: rest) bs ->
  read_oid_content bs = Ok (a :: b :: rest).
Proof.
  intros Ha Hb (_ & _ & _ & _ & ds & Hds & ->).
  apply Forall2_cons_l in Hds. destruct Hds as (d & ds' & -> & Hd & Hds').
  apply der_b128_small in Hd; [|lia]. subst d. cbn [concat app read_oid_content].
  rewrite (read_oid_arcs_spec rest ds' Hds') by lia. cbn [bind]. unfold k_oid_second.
  f_equal. f_equal; [lia|]. f_equal. lia.
Qed.

Theorem read_oid_pack a b rest c suffix : 0 <= a <= 2 -> 0 <= b <= 39 -> Forall (fun x => 0 <= x) rest ->
  encode_oid (a :: b :: rest) = Ok c -> len c < P 126 ->
  exists bs, pack_object_identifier (a :: b :: rest) None = Ok bs /\
    read_object_identifier (bs ++ suffix) None None = Ok (a :: b :: rest, suffix).
Proof.
  intros Ha Hb Hr Ec Hc. destruct (encode_oid_der a b rest Ha Hb Hr) as (c' & Ec' & Hder).
  rewrite Ec in Ec'. apply Ok_inj in Ec'. subst c'.
  set (t := universal_tag c_tag_oid false).
  destruct (pack_tlv_der t c (universal_wf c_tag_oid false eq_refl) Hc) as (ib & lb & E & Hi & Hl).
  exists (ib ++ lb ++ c). unfold pack_object_identifier. rewrite Ec. cbn [bind opt_tag]. split; [exact E|].
  unfold read_object_identifier. rewrite <- !app_assoc.
  destruct (validate_tag_der t ib lb c suffix None t Hi Hl (universal_readable c_tag_oid false eq_refl) eq_refl) as [H1 H2].
  fold t. rewrite H1. cbn [bind]. rewrite (read_oid_content_der a b rest c Ha Hb Hder). cbn [bind]. rewrite H2. reflexivity.
Qed.
