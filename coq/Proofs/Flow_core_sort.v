(* The world's sorted/key (Flow/World_core.v isort_k) really is a stable sort: its result is a permutation of the input, ordered by
   the keys, and elements with equal keys keep their relative order (stated as: the result is ordered by (key, original position)). *)
From V Require Import Prelude.Base Model.Types Model.Dns Flow.World_core Proofs.Flow_core_gha.
From Coq Require Import Lia Sorting.Sorted Sorting.Permutation.
Local Open Scope list_scope.
Local Open Scope Z_scope.

Section Sort.
Context {A : Type}.
Notation E := (A * (Z * Z))%type.
Definition le_k (x y : E) : Prop := key_lt (snd y) (snd x) = false.

Lemma insert_k_perm (x : E) s : Permutation (insert_k x s) (x :: s).
Proof.
  induction s as [|y r IH]; [reflexivity|]. cbn [insert_k]. destruct (key_lt (snd y) (snd x)); [|reflexivity].
  rewrite IH. apply perm_swap.
Qed.

Lemma isort_k_perm (l : list E) : Permutation (isort_k l) l.
Proof. induction l as [|x r IH]; [reflexivity|]. cbn [isort_k]. rewrite insert_k_perm. constructor. exact IH. Qed.

Lemma insert_k_sorted (x : E) s : StronglySorted le_k s -> StronglySorted le_k (insert_k x s).
Proof.
  induction s as [|y r IH]; intro Hs; cbn [insert_k].
  - repeat constructor.
  - apply StronglySorted_inv in Hs. destruct Hs as [Hr Hy].
    destruct (key_lt (snd y) (snd x)) eqn:E.
    + constructor; [apply IH; exact Hr|].
      eapply Permutation_Forall; [symmetry; apply insert_k_perm|].
      constructor; [|exact Hy]. unfold le_k. apply key_lt_asym. exact E.
    + constructor; [constructor; assumption|].
      constructor; [exact E|].
      eapply Forall_impl; [|exact Hy]. intros z Hz. unfold le_k in *. eapply key_lt_ntrans; eassumption.
Qed.

Lemma isort_k_sorted (l : list E) : StronglySorted le_k (isort_k l).
Proof. induction l as [|x r IH]; [constructor|]. cbn [isort_k]. apply insert_k_sorted. exact IH. Qed.

(* stability: for every key value, the elements carrying it appear in the result in their original order *)
Definition eqk (a b : Z * Z) : bool := (fst a =? fst b) && (snd a =? snd b).
Lemma eqk_eq a b : eqk a b = true -> a = b.
Proof. unfold eqk. destruct a, b; cbn [fst snd]. intro H. apply andb_prop in H. destruct H as [H1 H2]. f_equal; lia. Qed.

Lemma insert_k_filter (x : E) s k :
  filter (fun e => eqk (snd e) k) (insert_k x s) = filter (fun e => eqk (snd e) k) (x :: s).
Proof.
  induction s as [|y r IH]; [reflexivity|]. cbn [insert_k].
  destruct (key_lt (snd y) (snd x)) eqn:E; [|reflexivity].
  cbn [filter] in *. rewrite IH.
  destruct (eqk (snd x) k) eqn:Ex; [|reflexivity].
  destruct (eqk (snd y) k) eqn:Ey; [|reflexivity].
  apply eqk_eq in Ex. apply eqk_eq in Ey. rewrite Ex, Ey, key_lt_irrefl in E. discriminate.
Qed.

Lemma isort_k_stable (l : list E) k :
  filter (fun e => eqk (snd e) k) (isort_k l) = filter (fun e => eqk (snd e) k) l.
Proof.
  induction l as [|x r IH]; [reflexivity|]. cbn [isort_k]. rewrite insert_k_filter. cbn [filter]. rewrite IH. reflexivity.
Qed.
End Sort.
