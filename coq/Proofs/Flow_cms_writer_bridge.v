(* Bridge between the two readings of ASN1Writer:
     A = Flow/World_asn1.v : tag + ACCUMULATED OCTETS + parent snapshot (`writer`; the C07_flow_writer_* ties of
         Proofs/Flow_asn1_writer.v prove that the bodies of the ASN1Writer methods compute exactly these functions);
     C = Flow/World_cms.v  : tag + list of child TREES (Model/Asn1.v's own writer; the C06_flow_*_pack ties).
   R w t ws : the octets of the A-writer w are the encoding of the trees of the C-writer (t, ws), same tag, root iff root.
   For every writer method the CMS pack flows call, `step_rel` says what the two worlds do from R-related writers:
     - both raise the SAME error (content encoder: pack_int_content / encode_oid / utf8_encode), or
     - both return None and the writers afterwards are R-related again, or
     - TIMING: the A-world raises e NOW (pack_tlv of this leaf / of the child being closed fails) while the C-world continues
       with trees whose encode_list is Raise e: it raises e when get_data() is reached, unless another error comes first.
       pack_tlv only fails for absurd inputs (Proofs/BlobLib.node_ok: never for a low tag and content below BIG octets).
   The fourth combination (C raises, A does not) is impossible.  Corollaries: replaying a tree as A-world writer calls extends
   the octets by exactly `encode tree` (same result, same error), so whatever a C06 pack tie appends in the C-world (X_pack x)
   is, octet for octet, what the A-world writer holds after the same calls, and get_data() on the root returns the same bytes. *)
From V Require Import Prelude.PyAst.
From V Require Import Prelude.Base Prelude.PyInt Prelude.PySlice Prelude.PyStr Prelude.PyWorld gen.K_asn1 gen.C_asn1.
From V Require Import Model.Asn1 Model.Pkcs7.
From V Require Flow.World_asn1 Flow.World_cms.
Module A := World_asn1.
Module C := World_cms.
Local Open Scope string_scope.
Local Open Scope list_scope.
Local Open Scope Z_scope.

Definition R (w : A.writer) (t : option tag) (ws : list asn1) : Prop :=
  A.wr_tag w = t /\ (A.wr_parent w = None <-> t = None) /\ encode_list ws = Ok (A.wr_data w).

(* ---- encode_list ---- *)
Lemma encode_list_app a b :
  encode_list (a ++ b) = let* x := encode_list a in let* y := encode_list b in Ok (x ++ y).
Proof.
  induction a as [|n a IH]; cbn [app encode_list bind].
  - destruct (encode_list b); reflexivity.
  - destruct (encode n) as [en|e]; cbn [bind]; [|reflexivity]. rewrite IH.
    destruct (encode_list a) as [ea|e]; cbn [bind]; [|reflexivity].
    destruct (encode_list b) as [eb|e]; cbn [bind]; [|reflexivity]. rewrite app_assoc. reflexivity.
Qed.
Lemma encode_list_snoc ws n :
  encode_list (ws ++ [n]) = let* x := encode_list ws in let* y := encode n in Ok (x ++ y).
Proof.
  rewrite encode_list_app. destruct (encode_list ws) as [x|e]; cbn [bind encode_list]; [|reflexivity].
  destruct (encode n) as [y|e]; cbn [bind]; [|reflexivity]. rewrite app_nil_r. reflexivity.
Qed.
Lemma enc_list_eq l :
  (fix enc_list (l : list asn1) : res bytes :=
     match l with [] => Ok [] | y :: r => let* a := encode y in let* b := enc_list r in Ok (a ++ b) end) l = encode_list l.
Proof. induction l as [|y r IH]; cbn [encode_list]; [reflexivity|]. rewrite IH. reflexivity. Qed.
Lemma encode_cons t l : encode (Cons t l) = let* body := encode_list l in pack_tlv t body.
Proof. cbn [encode]. rewrite enc_list_eq. reflexivity. Qed.

(* ---- the leaves: tree leaf then encode = the octet packer, as results (value AND error) ---- *)
Lemma leaf_int z t : (let* n := a_int z t in encode n) = pack_integer z t.
Proof. unfold a_int, pack_integer. destruct (pack_int_content z); reflexivity. Qed.
Lemma leaf_oid o : (let* n := a_oid o in encode n) = pack_object_identifier o None.
Proof. unfold a_oid, pack_object_identifier. destruct (encode_oid o); reflexivity. Qed.
Lemma leaf_octets b t : encode (a_octets b t) = pack_octet_string b t.
Proof. reflexivity. Qed.
Lemma leaf_utf8 s : (let* n := a_utf8 s in encode n) = pack_utf8_string s None.
Proof. unfold a_utf8, pack_utf8_string. destruct (utf8_encode s); reflexivity. Qed.
Lemma leaf_gentime s : (let* n := a_gentime s in encode n) = pack_generalized_time s None.
Proof. unfold a_gentime, pack_generalized_time. destruct (utf8_encode s); reflexivity. Qed.
Lemma leaf_raw b : encode (Raw b) = Ok b.
Proof. reflexivity. Qed.

(* ---- one method call in both worlds ---- *)
Definition step_rel (w : A.writer) (t : option tag) (ws : list asn1)
  (c : option (res (pv C.obj * pv C.obj))) (a : option (res (pv A.obj * pv A.obj))) : Prop :=
  match c, a with
  | Some (Ok (VN, VO (C.OWriter t' ws'))), Some (Ok (VN, VO (A.OWriter w'))) => R w' t' ws'
  | Some (Raise e), Some (Raise e') => e = e'
  | Some (Ok (VN, VO (C.OWriter t' ws'))), Some (Raise e) => t' = t /\ encode_list ws' = Raise e     (* timing *)
  | _, _ => False
  end.

(* generic: the C-world appends leaf n (or raises), the A-world extends by `packed`, and packed = leaf then encode *)
Lemma step_write w t ws (n : res asn1) (packed : res bytes) :
  R w t ws -> (let* x := n in encode x) = packed ->
  step_rel w t ws (Some (C.wr t ws n)) (Some (let* w' := A.writer_write packed w in Ok (VN, VO (A.OWriter w')))).
Proof.
  intros (Ht & Hp & He) <-. unfold C.wr, A.writer_write, step_rel.
  destruct n as [x|e]; cbn [bind]; [|reflexivity].
  destruct (encode x) as [b|e] eqn:Ex; cbn [bind].
  - destruct w as [d tg p]. cbn in *. unfold R. cbn. split; [exact Ht|]. split; [exact Hp|].
    rewrite encode_list_snoc, He, Ex. reflexivity.
  - split; [reflexivity|]. rewrite encode_list_snoc, He, Ex. reflexivity.
Qed.

Lemma bridge_write_integer w t ws z : R w t ws ->
  step_rel w t ws (C.writer_meth "write_integer" t ws [VI z]) (A.writer_meth "write_integer" w [VI z]).
Proof. intros H. apply (step_write w t ws (a_int z None) (pack_integer z None) H), leaf_int. Qed.
Lemma bridge_write_object_identifier w t ws o : R w t ws ->
  step_rel w t ws (C.writer_meth "write_object_identifier" t ws [VO (C.OOid o)])
                  (A.writer_meth "write_object_identifier" w [VO (A.OOid o)]).
Proof. intros H. apply (step_write w t ws (a_oid o) (pack_object_identifier o None) H), leaf_oid. Qed.
Lemma bridge_write_octet_string w t ws b : R w t ws ->
  step_rel w t ws (C.writer_meth "write_octet_string" t ws [VB b]) (A.writer_meth "write_octet_string" w [VB b]).
Proof. intros H. apply (step_write w t ws (Ok (a_octets b None)) (pack_octet_string b None) H). reflexivity. Qed.
Lemma bridge_write_octet_string_tag w t ws b tg : R w t ws ->
  step_rel w t ws (C.writer_meth "write_octet_string" t ws [VB b; VO (C.OTag tg)])
                  (A.writer_meth "write_octet_string" w [VB b; VO (A.OTag tg)]).
Proof. intros H. apply (step_write w t ws (Ok (a_octets b (Some tg))) (pack_octet_string b (Some tg)) H). reflexivity. Qed.
Lemma bridge_write_utf8_string w t ws s : R w t ws ->
  step_rel w t ws (C.writer_meth "write_utf8_string" t ws [VS s]) (A.writer_meth "write_utf8_string" w [VS s]).
Proof. intros H. apply (step_write w t ws (a_utf8 s) (pack_utf8_string s None) H), leaf_utf8. Qed.
Lemma bridge_write_generalized_time w t ws s : R w t ws ->
  step_rel w t ws (C.writer_meth "write_generalized_time" t ws [VS s]) (A.writer_meth "write_generalized_time" w [VS s]).
Proof. intros H. apply (step_write w t ws (a_gentime s) (pack_generalized_time s None) H), leaf_gentime. Qed.
(* write_raw never raises in either world *)
Lemma bridge_write_raw w t ws b : R w t ws ->
  step_rel w t ws (C.writer_meth "write_raw" t ws [VB b]) (A.writer_meth "write_raw" w [VB b]).
Proof.
  intros (Ht & Hp & He). destruct w as [d tg p]. cbn in *. unfold R. cbn. split; [exact Ht|]. split; [exact Hp|].
  rewrite encode_list_snoc, He. reflexivity.
Qed.

(* ---- push_sequence / push_set: both worlds return (child, self unchanged); the children are R-related (empty) ---- *)
Definition push_rel (w : A.writer) (t : option tag) (ws : list asn1)
  (c : option (res (pv C.obj * pv C.obj))) (a : option (res (pv A.obj * pv A.obj))) : Prop :=
  match c, a with
  | Some (Ok (VO (C.OWriter ct cws), VO (C.OWriter t' ws'))), Some (Ok (VO (A.OWriter cw), VO (A.OWriter w'))) =>
    t' = t /\ ws' = ws /\ w' = w /\ R cw ct cws /\ ct <> None /\ A.wr_parent cw = Some w
  | _, _ => False
  end.
Lemma R_push tg w : R (A.writer_push tg w) (Some tg) [].
Proof. unfold R. cbn. split; [reflexivity|]. split; [split; discriminate|reflexivity]. Qed.
Lemma bridge_push_sequence w t ws :
  push_rel w t ws (C.writer_meth "push_sequence" t ws []) (A.writer_meth "push_sequence" w []).
Proof. cbn. repeat (split; [reflexivity|]). split; [apply R_push|]. split; [discriminate|reflexivity]. Qed.
Lemma bridge_push_sequence_tag w t ws tg :
  push_rel w t ws (C.writer_meth "push_sequence/tag" t ws [VO (C.OTag tg)]) (A.writer_meth "push_sequence" w [VO (A.OTag tg)]).
Proof. cbn. repeat (split; [reflexivity|]). split; [apply R_push|]. split; [discriminate|reflexivity]. Qed.
Lemma bridge_push_set_of w t ws :
  push_rel w t ws (C.writer_meth "push_set_of" t ws []) (A.writer_meth "push_set_of" w []).
Proof. cbn. repeat (split; [reflexivity|]). split; [apply R_push|]. split; [discriminate|reflexivity]. Qed.

(* ---- leaving `with owner.push_x() as child:` (ASN1Writer.__exit__) ---- *)
Definition exit_rel (t : option tag) (c : res (option (pv C.obj))) (a : res (option (pv A.obj))) : Prop :=
  match c, a with
  | Ok (Some (VO (C.OWriter t' ws'))), Ok (Some (VO (A.OWriter w'))) => R w' t' ws'
  | Ok (Some (VO (C.OWriter t' ws'))), Raise e => t' = t /\ encode_list ws' = Raise e                 (* timing *)
  | _, _ => False
  end.
Lemma bridge_exit cw ct cws w t ws :
  R cw (Some ct) cws -> A.wr_parent cw <> None -> R w t ws ->
  exit_rel t (x_exit C.cms_ext (VO (C.OWriter (Some ct) cws)) (Some (VO (C.OWriter t ws))))
             (A.asn1_exit (VO (A.OWriter cw)) (Some (VO (A.OWriter w)))).
Proof.
  intros (Hct & _ & Hce) Hpar (Ht & Hp & He). cbn. unfold A.writer_exit. rewrite Hct.
  destruct (A.wr_parent cw) as [p|]; [|congruence].
  destruct (pack_tlv ct (A.wr_data cw)) as [d|e] eqn:Ep; cbn [bind exit_rel].
  - destruct w as [wd wt wp]. cbn in *. unfold R. cbn. split; [exact Ht|]. split; [exact Hp|].
    rewrite encode_list_snoc, He, encode_cons, Hce. cbn [bind]. rewrite Ep. reflexivity.
  - split; [reflexivity|]. rewrite encode_list_snoc, He, encode_cons, Hce. cbn [bind]. rewrite Ep. reflexivity.
Qed.

(* ---- get_data() on a root writer: the same bytes; on a pushed child both worlds raise TypeError ---- *)
Lemma bridge_get_data_root w ws : R w None ws ->
  C.writer_meth "get_data" None ws [] = Some (Ok (VB (A.wr_data w), VO (C.OWriter None ws))) /\
  A.writer_meth "get_data" w [] = Some (Ok (VB (A.wr_data w), VO (A.OWriter w))).
Proof.
  intros (Ht & Hp & He). cbn. rewrite He. split; [reflexivity|].
  unfold A.writer_get_data. rewrite Ht. destruct Hp as [_ Hp]. rewrite (Hp eq_refl). reflexivity.
Qed.
Lemma bridge_get_data_child w ct ws : R w (Some ct) ws ->
  w_meth (std_world C.cms_ext) "get_data" (VO (C.OWriter (Some ct) ws)) [] = Raise TypeError /\
  w_meth (std_world A.asn1_ext) "get_data" (VO (A.OWriter w)) [] = Raise TypeError.
Proof.
  intros (Ht & Hp & He). split; [reflexivity|]. cbn. unfold A.writer_get_data. rewrite Ht.
  destruct (A.wr_parent w); reflexivity.
Qed.
(* a C-world writer whose trees do not encode (the state after a TIMING step) raises that error at get_data() *)
Lemma poisoned_get_data ws e : encode_list ws = Raise e -> C.writer_meth "get_data" None ws [] = Some (Raise e).
Proof. intros H. cbn. rewrite H. reflexivity. Qed.

(* ---- corollary: a tree replayed as A-world writer calls ---- *)
Fixpoint replay (n : asn1) (w : A.writer) {struct n} : res A.writer :=
  match n with
  | Prim t c => A.writer_write (pack_tlv t c) w                 (* write_X: the packed TLV of a leaf *)
  | Raw b => Ok (A.wr_extend w b)                               (* write_raw *)
  | Cons t l =>                                                 (* with w.push_x(t) as c: <children> *)
    let* child := (fix all (l : list asn1) (c : A.writer) : res A.writer :=
                     match l with [] => Ok c | y :: r => let* c' := replay y c in all r c' end) l (A.writer_push t w) in
    A.writer_exit child w
  end.
Fixpoint replay_list (l : list asn1) (c : A.writer) : res A.writer :=
  match l with [] => Ok c | y :: r => let* c' := replay y c in replay_list r c' end.
Lemma replay_cons t l w :
  replay (Cons t l) w = let* child := replay_list l (A.writer_push t w) in A.writer_exit child w.
Proof.
  reflexivity.
Qed.

Lemma asn1_ind2 (P : asn1 -> Prop) :
  (forall t c, P (Prim t c)) -> (forall b, P (Raw b)) -> (forall t l, Forall P l -> P (Cons t l)) -> forall n, P n.
Proof.
  intros HP HR HC. fix IH 1. intros [t c|t l|b]; [apply HP| |apply HR].
  apply HC. induction l as [|y r IHl]; constructor; [apply IH|apply IHl].
Qed.

Lemma wr_extend_extend w a b : A.wr_extend (A.wr_extend w a) b = A.wr_extend w (a ++ b).
Proof. destruct w. cbn. rewrite app_assoc. reflexivity. Qed.
Lemma wr_extend_nil w : A.wr_extend w [] = w.
Proof. destruct w. cbn. rewrite app_nil_r. reflexivity. Qed.

Lemma replay_list_encode l :
  Forall (fun n => forall w, replay n w = let* b := encode n in Ok (A.wr_extend w b)) l ->
  forall c, replay_list l c = let* b := encode_list l in Ok (A.wr_extend c b).
Proof.
  induction 1 as [|y r Hy _ IH]; intros c; cbn [replay_list encode_list bind].
  - rewrite wr_extend_nil. reflexivity.
  - rewrite Hy. destruct (encode y) as [a|e]; cbn [bind]; [|reflexivity]. rewrite IH.
    destruct (encode_list r) as [b|e]; cbn [bind]; [|reflexivity]. rewrite wr_extend_extend. reflexivity.
Qed.

(* replaying a tree through the octet writer extends it by exactly the tree's encoding: same value, same error *)
Theorem replay_encode n : forall w, replay n w = let* b := encode n in Ok (A.wr_extend w b).
Proof.
  induction n as [t c|b|t l IH] using asn1_ind2; intros w.
  - reflexivity.
  - reflexivity.
  - rewrite replay_cons, encode_cons, (replay_list_encode l IH).
    destruct (encode_list l) as [body|e]; cbn [bind]; [|reflexivity].
    unfold A.writer_exit. cbn. reflexivity.
Qed.

(* the leaves X_pack is made of, replayed, are the A-world write_X methods *)
Lemma replay_a_int z t w : (let* n := a_int z t in replay n w) = A.writer_write (pack_integer z t) w.
Proof. unfold a_int, pack_integer. destruct (pack_int_content z); reflexivity. Qed.
Lemma replay_a_oid o w : (let* n := a_oid o in replay n w) = A.writer_write (pack_object_identifier o None) w.
Proof. unfold a_oid, pack_object_identifier. destruct (encode_oid o); reflexivity. Qed.
Lemma replay_a_octets b t w : replay (a_octets b t) w = A.writer_write (pack_octet_string b t) w.
Proof. reflexivity. Qed.
Lemma replay_a_utf8 s w : (let* n := a_utf8 s in replay n w) = A.writer_write (pack_utf8_string s None) w.
Proof. unfold a_utf8, pack_utf8_string. destruct (utf8_encode s); reflexivity. Qed.
Lemma replay_a_gentime s w : (let* n := a_gentime s in replay n w) = A.writer_write (pack_generalized_time s None) w.
Proof. unfold a_gentime, pack_generalized_time. destruct (utf8_encode s); reflexivity. Qed.

(* what a C06 pack tie appends in the C-world (`packed self t ws (X_pack x)`: ws ++ [n]) keeps the writers related when the
   A-world replays the same node without raising, and the A-world raises exactly when the node does not encode *)
Corollary pack_bridge w t ws n :
  R w t ws ->
  match replay n w with
  | Ok w' => R w' t (ws ++ [n])
  | Raise e => encode_list (ws ++ [n]) = Raise e
  end.
Proof.
  intros (Ht & Hp & He). rewrite replay_encode.
  destruct (encode n) as [b|e] eqn:En; cbn [bind].
  - destruct w as [d tg p]. unfold R. cbn in *. split; [exact Ht|]. split; [exact Hp|].
    rewrite encode_list_snoc, He, En. reflexivity.
  - rewrite encode_list_snoc, He, En. reflexivity.
Qed.

(* root writer, then get_data(): the bytes of the C-world (encode_list, what Model.Blob.blob_pack computes with `encode`)
   are the bytes the A-world octet writer returns, with the same error otherwise *)
Corollary root_bytes l :
  (let* w := replay_list l A.writer_root in A.writer_get_data w) = encode_list l.
Proof.
  rewrite (replay_list_encode l).
  - destruct (encode_list l) as [b|e]; reflexivity.
  - apply Forall_forall. intros n _. apply replay_encode.
Qed.
Corollary root_bytes_1 n :
  (let* w := replay n A.writer_root in A.writer_get_data w) = encode n.
Proof. rewrite replay_encode. destruct (encode n); reflexivity. Qed.
