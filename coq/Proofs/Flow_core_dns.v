(* Tie theorems for _dns.py (lookup_dc, async_lookup_dc): the regenerated syntax (gen/Flows.v), run in the world
   Flow/World_core.v, asks the resolver for Model/Dns.v query_name and returns Model/Dns.v get_highest_answer of the answer. *)
From V Require Import Prelude.Base Prelude.PyAst Prelude.PyWorld gen.Flows gen.Kernels.
From V Require Import Model.Types Model.Dns Flow.World_core.
Local Open Scope string_scope.
Local Open Scope list_scope.
Local Open Scope Z_scope.

Definition lookup_model (resolve : pystr -> res (list srv)) (domain : option pystr) : res (pv obj) :=
  let* l := resolve (query_name domain) in let* r := get_highest_answer l in Ok (VO (OSrv r)).

Lemma flow_lookup_dc resolve fuel domain :
  run (W resolve) fuel k_flow_lookup_dc [vopt_str domain] = lookup_model resolve domain.
Proof.
  unfold lookup_model, query_name, k_srv_name_test, k_srv_name_domain, k_srv_name_bare.
  destruct domain as [[|x d]|].
  - cbn. destruct (resolve _) as [l|e]; cbn; [|reflexivity]. destruct (get_highest_answer l); reflexivity.
  - cbn. rewrite app_nil_r.
    destruct (resolve _) as [l|e]; cbn; [|reflexivity]. destruct (get_highest_answer l); reflexivity.
  - cbn. destruct (resolve _) as [l|e]; cbn; [|reflexivity]. destruct (get_highest_answer l); reflexivity.
Qed.

Lemma flow_async_lookup_dc resolve fuel domain :
  run (W resolve) fuel k_flow_async_lookup_dc [vopt_str domain] = lookup_model resolve domain.
Proof.
  unfold lookup_model, query_name, k_srv_name_test, k_srv_name_domain, k_srv_name_bare.
  destruct domain as [[|x d]|].
  - cbn. destruct (resolve _) as [l|e]; cbn; [|reflexivity]. destruct (get_highest_answer l); reflexivity.
  - cbn. rewrite app_nil_r.
    destruct (resolve _) as [l|e]; cbn; [|reflexivity]. destruct (get_highest_answer l); reflexivity.
  - cbn. destruct (resolve _) as [l|e]; cbn; [|reflexivity]. destruct (get_highest_answer l); reflexivity.
Qed.

(* the async twin: same result as the sync function for every resolver and argument (the bodies differ only in the callee
   name dns.asyncresolver.resolve / dns.resolver.resolve, which the world maps to the same resolver) *)
Lemma flow_lookup_dc_twin resolve fuel domain :
  run (W resolve) fuel k_flow_async_lookup_dc [vopt_str domain] = run (W resolve) fuel k_flow_lookup_dc [vopt_str domain].
Proof. rewrite flow_lookup_dc, flow_async_lookup_dc. reflexivity. Qed.
