(* Tie theorems, module-level packers of _asn1.py (gen/F_asn1.v) run in Flow/World_asn1.v = the model Model/Asn1.v.
   A Python bool argument is any int (truthiness decides, as in the source). *)
From V Require Import Prelude.PyAst.
From V Require Import Prelude.Base Prelude.PyInt Prelude.PySlice Prelude.PyStr Prelude.PyWorld gen.K_asn1 gen.C_asn1 gen.F_asn1.
From V Require Import Model.Asn1 Flow.World_asn1 Proofs.Flow_asn1_lib.
Local Open Scope string_scope.
Local Open Scope list_scope.
Local Open Scope Z_scope.
Arguments len : simpl never.
Arguments pack_asn1 : simpl never.
Arguments pack_integer : simpl never.
Arguments encode_oid : simpl never.
Arguments utf8_encode : simpl never.

Lemma flow_universal_tag fuel cls (n : Z) (b : bool) :
  run W fuel k_flow_universal_tag [cls; VI n; vb b] = Ok (VO (OTag (universal_tag n b))).
Proof. start W k_flow_universal_tag. py. destruct b; reflexivity. Qed.

Lemma flow_pack_asn1_boolean fuel (v : Z) t :
  run W fuel k_flow_pack_asn1_boolean [VI v; vopt_tag t] = lift_b (pack_boolean (negb (v =? 0)) t).
Proof.
  start W k_flow_pack_asn1_boolean. unfold pack_boolean, pack_tlv.
  destruct t as [t|]; py; destruct (v =? 0); py; rewrite ?vb_truth; destruct (pack_asn1 _ _ _ _); reflexivity.
Qed.

Lemma flow_pack_asn1_octet_string fuel b t :
  run W fuel k_flow_pack_asn1_octet_string [VB b; vopt_tag t] = lift_b (pack_octet_string b t).
Proof.
  start W k_flow_pack_asn1_octet_string. unfold pack_octet_string, pack_tlv.
  destruct t as [t|]; py; rewrite ?vb_truth; destruct (pack_asn1 _ _ _ _); reflexivity.
Qed.

Lemma flow_pack_asn1_utf8_string fuel s t :
  run W fuel k_flow_pack_asn1_utf8_string [VS s; vopt_tag t] = lift_b (pack_utf8_string s t).
Proof.
  start W k_flow_pack_asn1_utf8_string. unfold pack_utf8_string, pack_tlv.
  destruct t as [t|]; py; destruct (utf8_encode s); py; rewrite ?vb_truth; try destruct (pack_asn1 _ _ _ _); reflexivity.
Qed.

Lemma flow_pack_asn1_generalized_time fuel s t :
  run W fuel k_flow_pack_asn1_generalized_time [VS s; vopt_tag t] = lift_b (pack_generalized_time s t).
Proof.
  start W k_flow_pack_asn1_generalized_time. unfold pack_generalized_time, pack_tlv.
  destruct t as [t|]; py; destruct (utf8_encode s); py; rewrite ?vb_truth; try destruct (pack_asn1 _ _ _ _); reflexivity.
Qed.

Lemma flow_pack_asn1_object_identifier fuel arcs t :
  run W fuel k_flow_pack_asn1_object_identifier [VO (OOid arcs); vopt_tag t] = lift_b (pack_object_identifier arcs t).
Proof.
  start W k_flow_pack_asn1_object_identifier. unfold pack_object_identifier, pack_tlv.
  destruct t as [t|]; py; destruct (encode_oid arcs); py; rewrite ?vb_truth; try destruct (pack_asn1 _ _ _ _); reflexivity.
Qed.

Lemma flow_pack_asn1_enumerated fuel v t :
  run W fuel k_flow_pack_asn1_enumerated [VI v; vopt_tag t] = lift_b (pack_enumerated v t).
Proof.
  start W k_flow_pack_asn1_enumerated. unfold pack_enumerated.
  destruct t as [t|]; py; destruct (pack_integer _ _); reflexivity.
Qed.
