(* C11: for ALL field values (not only well-formed ones) the model packer succeeds exactly when the
   independent table-driven encoder does, with the same bytes. The only side condition is the typing
   invariant of uuid.UUID (a root key identifier is 16 bytes). *)
From Coq Require Import String.
From V Require Import Prelude.Base Prelude.PyInt Prelude.PySlice Prelude.PyStr.
From V Require Import gen.C_gkdi Model.Types Model.Crypto Model.KeyId Model.Gkdi Model.GkdiView Spec.GkdiLayout.
From V Require Import Proofs.GkdiLib Proofs.GkdiKeyId Proofs.GkdiEnvelope Proofs.GkdiGetKey Proofs.GkdiStructs Proofs.GkdiLayoutEq.

(* ---- inversion of the spec's primitive encoders ---- *)
Lemma u32le_inv z b : u32le z = Some b -> u32b z = true.
Proof. unfold u32le, u32b. destruct ((0 <=? z) && (z <? 4294967296)); [reflexivity|discriminate]. Qed.
Lemma utf16z_inv s b : utf16z s = Some b -> wfstr s = true /\ exists b', utf16le_encode s = Ok b' /\ b = b' ++ [0; 0].
Proof.
  intros H. assert (Hw : wfstr s = true).
  { unfold utf16z in H. change (forallb is_scalar s) with (wfstr s) in H. destruct (wfstr s); [reflexivity|discriminate]. }
  split; [exact Hw|]. destruct (utf16le_encode_ok s Hw) as [b' Hb']. exists b'. split; [exact Hb'|].
  rewrite (utf16z_ok s b' Hw Hb') in H. congruence.
Qed.
Lemma utf16le_encode_len s b : utf16le_encode s = Ok b -> len b = utf16_len s.
Proof.
  intros H. assert (Hz : encode_utf16z s = Ok (b ++ [0; 0])) by (unfold encode_utf16z; apply utf16le_encode_app; [exact H|reflexivity]).
  apply encode_utf16z_inv in Hz as (b' & Hb' & _ & Hl & _). rewrite H in Hb'. apply Ok_inj in Hb'. now subst b'.
Qed.
Lemma guid16_inv g b : guid16 g = Some b -> len g = 16.
Proof. unfold guid16. destruct (len g =? 16) eqn:E; [lia|discriminate]. Qed.
Lemma befixed_inv kl v b : befixed kl v = Some b -> 0 <= kl /\ fitsb kl v = true.
Proof. unfold befixed, fitsb. destruct ((0 <=? kl) && (0 <=? v) && (v <? 256 ^ kl)) eqn:E; [lia|discriminate]. Qed.

Lemma all_some_inv {A} (l : list (option A)) p : all_some l = Some p -> Forall2 (fun o a => o = Some a) l p.
Proof.
  revert p; induction l as [|o l IH]; intros p H; cbn [all_some] in H.
  - injection H as <-. constructor.
  - destruct o as [a|]; [|discriminate]. destruct (all_some l) as [m|]; [|discriminate]. injection H as <-.
    constructor; [reflexivity|apply IH; reflexivity].
Qed.
Ltac inv_forall2 := repeat match goal with H : Forall2 _ (_ :: _) _ |- _ => inversion H; subst; clear H end.

Lemma Some_inj {A} (a b : A) : Some a = Some b -> a = b.
Proof. congruence. Qed.
Definition res_opt {A} (r : res A) : option A := match r with Ok a => Some a | Raise _ => None end.

(* generic closing argument: a value on which either encoder succeeds is well-formed, and on well-formed
   values both give the same bytes *)
Lemma iff_from_wf {A} (pack : res A) (lay : option A) (wf : bool) :
  (forall b, pack = Ok b -> wf = true) -> (forall b, lay = Some b -> wf = true) ->
  (wf = true -> exists b, pack = Ok b /\ lay = Some b) -> lay = res_opt pack.
Proof.
  intros Hp Hl Hw. destruct pack as [b|e] eqn:Ep.
  - destruct (Hw (Hp b eq_refl)) as (b' & Hb & Hl'). injection Hb as <-. exact Hl'.
  - destruct lay as [b|] eqn:El; [|reflexivity]. destruct (Hw (Hl b eq_refl)) as (b' & Hb & _). discriminate.
Qed.

(* ---- KeyIdentifier ---- *)
Lemma KeyIdentifier_pack_inv k b : len (kid_rkid k) = 16 -> KeyIdentifier_pack k = Ok b -> wf_kid k = true.
Proof.
  intros Hr. unfold KeyIdentifier_pack, KeyIdentifier_fields.
  destruct (encode_utf16z (kid_domain k)) as [bd|] eqn:Ed; [|discriminate]. cbn [bind].
  destruct (encode_utf16z (kid_forest k)) as [bf|] eqn:Ef; [|discriminate]. cbn [bind].
  repeat match goal with |- context [to_bytes_le 4 ?v] =>
    let E := fresh "E" in destruct (to_bytes_le 4 v) eqn:E; [apply to_bytes_le_inv in E as [E _]; rewrite P_4 in E|discriminate]; cbn [bind] end.
  intros _. apply encode_utf16z_inv in Ed as (bd' & _ & -> & Ld & Wd). apply encode_utf16z_inv in Ef as (bf' & _ & -> & Lf & Wf).
  rewrite len_utf16z in *. unfold wf_kid, u32b. rewrite Wd, Wf, <- Ld, <- Lf. lia.
Qed.
Lemma KeyIdentifier_layout_inv k b : layout KeyIdentifier_table (spec_of_kid k) = Some b -> wf_kid k = true.
Proof.
  unfold layout. destruct (all_some (map (enc1 (spec_of_kid k)) KeyIdentifier_table)) as [p|] eqn:E1; [|discriminate].
  destruct (all_some (map (enc2 KeyIdentifier_table (spec_of_kid k) (len (concat p))) KeyIdentifier_table)) as [q|] eqn:E2; [|discriminate].
  intros _. apply all_some_inv in E1. apply all_some_inv in E2. clear E1.
  unfold KeyIdentifier_table in E2.
  cbn [map enc1 enc2 nth spec_of_kid si_version si_flags si_l0 si_l1 si_l2 si_root_key_id si_key_info si_domain_name si_forest_name] in E2.
  inv_forall2.
  repeat match goal with H : u32le _ = Some _ |- _ => apply u32le_inv in H end.
  repeat match goal with H : match utf16z ?s with Some _ => _ | None => None end = Some _ |- _ =>
    let E := fresh "E" in destruct (utf16z s) eqn:E; [apply u32le_inv in H|discriminate H] end.
  repeat match goal with H : utf16z _ = Some _ |- _ => apply utf16z_inv in H as (? & ? & ? & ->) end.
  match goal with H : guid16 _ = Some _ |- _ => apply guid16_inv in H end.
  repeat match goal with H : utf16le_encode ?s = Ok ?b |- _ => apply utf16le_encode_len in H end.
  rewrite !len_utf16z in *. unfold wf_kid, u32b in *.
  repeat match goal with H : wfstr _ = true |- _ => rewrite H end.
  repeat match goal with H : len _ = utf16_len _ |- _ => rewrite <- H end. lia.
Qed.
Theorem KeyIdentifier_layout_iff k : len (kid_rkid k) = 16 ->
  layout KeyIdentifier_table (spec_of_kid k) = res_opt (KeyIdentifier_pack k).
Proof.
  intros Hr. apply (iff_from_wf _ _ (wf_kid k)).
  - intros b. apply KeyIdentifier_pack_inv, Hr.
  - apply KeyIdentifier_layout_inv.
  - apply KeyIdentifier_layout.
Qed.

(* ---- GroupKeyEnvelope ---- *)
Lemma GroupKeyEnvelope_pack_inv e b : len (gke_rkid e) = 16 -> GroupKeyEnvelope_pack e = Ok b -> wf_env e = true.
Proof.
  intros Hr. unfold GroupKeyEnvelope_pack, GroupKeyEnvelope_fields.
  destruct (encode_utf16z (gke_kdf_alg e)) as [b1|] eqn:E1; [|discriminate]. cbn [bind].
  destruct (encode_utf16z (gke_secret_alg e)) as [b2|] eqn:E2; [|discriminate]. cbn [bind].
  destruct (encode_utf16z (gke_domain e)) as [b3|] eqn:E3; [|discriminate]. cbn [bind].
  destruct (encode_utf16z (gke_forest e)) as [b4|] eqn:E4; [|discriminate]. cbn [bind].
  repeat match goal with |- context [to_bytes_le 4 ?v] =>
    let E := fresh "E" in destruct (to_bytes_le 4 v) eqn:E; [apply to_bytes_le_inv in E as [E _]; rewrite P_4 in E|discriminate]; cbn [bind] end.
  intros _.
  apply encode_utf16z_inv in E1 as (? & _ & -> & L1 & W1). apply encode_utf16z_inv in E2 as (? & _ & -> & L2 & W2).
  apply encode_utf16z_inv in E3 as (? & _ & -> & L3 & W3). apply encode_utf16z_inv in E4 as (? & _ & -> & L4 & W4).
  rewrite len_utf16z in *. unfold wf_env, u32b. rewrite W1, W2, W3, W4, <- L1, <- L2, <- L3, <- L4. lia.
Qed.
Lemma GroupKeyEnvelope_layout_inv e b : layout GroupKeyEnvelope_table (spec_of_env e) = Some b -> wf_env e = true.
Proof.
  unfold layout. destruct (all_some (map (enc1 (spec_of_env e)) GroupKeyEnvelope_table)) as [p|] eqn:E1; [|discriminate].
  destruct (all_some (map (enc2 GroupKeyEnvelope_table (spec_of_env e) (len (concat p))) GroupKeyEnvelope_table)) as [q|] eqn:E2; [|discriminate].
  intros _. apply all_some_inv in E2. clear E1.
  unfold GroupKeyEnvelope_table in E2.
  cbn [map enc1 enc2 nth spec_of_env sv_version sv_flags sv_l0 sv_l1 sv_l2 sv_root_key_id sv_kdf_algorithm sv_kdf_parameters
       sv_secret_algorithm sv_secret_parameters sv_private_key_length sv_public_key_length sv_domain_name sv_forest_name
       sv_l1_key sv_l2_key] in E2.
  inv_forall2.
  repeat match goal with H : u32le _ = Some _ |- _ => apply u32le_inv in H end.
  repeat match goal with H : match utf16z ?s with Some _ => _ | None => None end = Some _ |- _ =>
    let E := fresh "E" in destruct (utf16z s) eqn:E; [apply u32le_inv in H|discriminate H] end.
  repeat match goal with H : utf16z _ = Some _ |- _ => apply utf16z_inv in H as (? & ? & ? & ->) end.
  match goal with H : guid16 _ = Some _ |- _ => apply guid16_inv in H end.
  repeat match goal with H : utf16le_encode ?s = Ok ?b |- _ => apply utf16le_encode_len in H end.
  rewrite !len_utf16z in *. unfold wf_env, u32b in *.
  repeat match goal with H : wfstr _ = true |- _ => rewrite H end.
  repeat match goal with H : len _ = utf16_len _ |- _ => rewrite <- H end. lia.
Qed.
Theorem GroupKeyEnvelope_layout_iff e : len (gke_rkid e) = 16 ->
  layout GroupKeyEnvelope_table (spec_of_env e) = res_opt (GroupKeyEnvelope_pack e).
Proof.
  intros Hr. apply (iff_from_wf _ _ (wf_env e)).
  - intros b. apply GroupKeyEnvelope_pack_inv, Hr.
  - apply GroupKeyEnvelope_layout_inv.
  - apply GroupKeyEnvelope_layout.
Qed.

(* ---- KDFParameters ---- *)
Theorem KDFParameters_layout_iff name : layout KDFParameters_table name = res_opt (KDFParameters_pack name).
Proof.
  apply (iff_from_wf _ _ (wf_kdfp name)).
  - intros b. unfold KDFParameters_pack. destruct (encode_utf16z name) as [bn|] eqn:En; [|discriminate]. cbn [bind].
    destruct (to_bytes_le 4 (len bn)) eqn:El; [|discriminate]. intros _.
    apply to_bytes_le_inv in El as [El _]. rewrite P_4 in El.
    apply encode_utf16z_inv in En as (? & _ & -> & L & W). rewrite len_utf16z in El. unfold wf_kdfp, u32b. rewrite W, <- L. lia.
  - intros b. unfold layout. destruct (all_some (map (enc1 name) KDFParameters_table)) as [p|] eqn:E1; [|discriminate].
    destruct (all_some (map (enc2 KDFParameters_table name (len (concat p))) KDFParameters_table)) as [q|] eqn:E2; [|discriminate].
    intros _. apply all_some_inv in E2. clear E1. unfold KDFParameters_table in E2. cbn [map enc1 enc2 nth] in E2. inv_forall2.
    repeat match goal with H : match utf16z ?s with Some _ => _ | None => None end = Some _ |- _ =>
      let E := fresh "E" in destruct (utf16z s) eqn:E; [apply u32le_inv in H|discriminate H] end.
    repeat match goal with H : utf16z _ = Some _ |- _ => apply utf16z_inv in H as (? & ? & ? & ->) end.
    repeat match goal with H : utf16le_encode ?s = Ok ?b |- _ => apply utf16le_encode_len in H end.
    rewrite !len_utf16z in *. unfold wf_kdfp, u32b in *.
    repeat match goal with H : wfstr _ = true |- _ => rewrite H end.
    repeat match goal with H : len _ = utf16_len _ |- _ => rewrite <- H end. lia.
  - apply KDFParameters_layout.
Qed.

(* ---- big-endian fixed-width structures ---- *)
Lemma to_bytes_be_z_inv' kl v b : to_bytes_be_z kl v = Ok b -> 0 <= kl /\ fitsb kl v = true /\ len b = kl.
Proof.
  unfold to_bytes_be_z. destruct (kl <? 0) eqn:E; [discriminate|]. intros H. apply to_bytes_be_inv in H as [Hr ->].
  rewrite P_pow, Z2Nat.id in Hr by lia. unfold fitsb. rewrite len_be_z by lia. repeat split; lia.
Qed.

Theorem FFCDHParameters_layout_iff p : layout FFCDHParameters_table (spec_of_ffp p) = res_opt (FFCDHParameters_pack p).
Proof.
  apply (iff_from_wf _ _ (wf_ffp p)).
  - intros b. unfold FFCDHParameters_pack.
    destruct (to_bytes_be_z (ffp_key_length p) (ffp_field_order p)) as [b1|] eqn:E1; [|discriminate]. cbn [bind].
    destruct (to_bytes_be_z (ffp_key_length p) (ffp_generator p)) as [b2|] eqn:E2; [|discriminate]. cbn [bind].
    destruct (to_bytes_le 4 (12 + len b1 + len b2)) eqn:E3; [|discriminate]. cbn [bind].
    destruct (to_bytes_le 4 (ffp_key_length p)) eqn:E4; [|discriminate]. intros _.
    apply to_bytes_be_z_inv' in E1 as (Hk & F1 & L1). apply to_bytes_be_z_inv' in E2 as (_ & F2 & L2).
    apply to_bytes_le_inv in E3 as [E3 _]. rewrite P_4, L1, L2 in E3.
    unfold wf_ffp, u32b. rewrite F1, F2. lia.
  - intros b. unfold layout. destruct (all_some (map (enc1 (spec_of_ffp p)) FFCDHParameters_table)) as [q1|] eqn:E1; [|discriminate].
    destruct (all_some (map (enc2 FFCDHParameters_table (spec_of_ffp p) (len (concat q1))) FFCDHParameters_table)) as [q|] eqn:E2; [|discriminate].
    intros _. pose proof (all_some_inv _ _ E1) as I1.
    unfold FFCDHParameters_table in I1, E1, E2. cbn [map enc1 enc2 nth spec_of_ffp sp_key_length sp_field_order sp_generator] in I1, E1, E2.
    inversion I1 as [|? ? ? ? _ I2]. inversion I2 as [|? ? ? ? _ I3]. inversion I3 as [|? ? ? ? Hu I4].
    inversion I4 as [|? ? ? ? Hb1 I5]. inversion I5 as [|? ? ? ? Hb2 _].
    apply u32le_inv in Hu. apply befixed_inv in Hb1 as [Hk F1]. apply befixed_inv in Hb2 as [_ F2].
    clear - E1 E2 Hu Hk F1 F2.
    rewrite !befixed_ok, (u32le_le _ Hu) in E1 by assumption. cbn [all_some] in E1.
    apply Some_inj in E1. subst q1. cbn [concat] in E2. rewrite !len_app, !len_be_z, !len_le in E2 by lia.
    change (len [0; 0; 0; 0]) with 4 in E2. change (len [68; 72; 80; 77]) with 4 in E2. change (len (@nil Z)) with 0 in E2.
    destruct (u32le (4 + (4 + (Z.of_nat 4 + (ffp_key_length p + (ffp_key_length p + 0)))))) eqn:Et; [|discriminate E2].
    apply u32le_inv in Et. unfold wf_ffp, u32b in *. rewrite F1, F2. lia.
  - apply FFCDHParameters_layout.
Qed.

Theorem FFCDHKey_layout_iff k : layout FFCDHKey_table (spec_of_ffk k) = res_opt (FFCDHKey_pack k).
Proof.
  apply (iff_from_wf _ _ (wf_ffk k)).
  - intros b. unfold FFCDHKey_pack.
    destruct (to_bytes_be_z (ffk_key_length k) (ffk_field_order k)) as [b1|] eqn:E1; [|discriminate]. cbn [bind].
    destruct (to_bytes_be_z (ffk_key_length k) (ffk_generator k)) as [b2|] eqn:E2; [|discriminate]. cbn [bind].
    destruct (to_bytes_be_z (ffk_key_length k) (ffk_public_key k)) as [b3|] eqn:E3; [|discriminate]. cbn [bind].
    destruct (to_bytes_le 4 (ffk_key_length k)) eqn:E4; [|discriminate]. intros _.
    apply to_bytes_be_z_inv' in E1 as (Hk & F1 & _). apply to_bytes_be_z_inv' in E2 as (_ & F2 & _). apply to_bytes_be_z_inv' in E3 as (_ & F3 & _).
    apply to_bytes_le_inv in E4 as [E4 _]. rewrite P_4 in E4. unfold wf_ffk, u32b. rewrite F1, F2, F3. lia.
  - intros b. unfold layout. destruct (all_some (map (enc1 (spec_of_ffk k)) FFCDHKey_table)) as [q1|] eqn:E1; [|discriminate].
    intros _. apply all_some_inv in E1. unfold FFCDHKey_table in E1.
    cbn [map enc1 nth spec_of_ffk sk_key_length sk_field_order sk_generator sk_public_key] in E1.
    inversion E1 as [|? ? ? ? _ I2]; subst. inversion I2 as [|? ? ? ? Hu I3]; subst. inversion I3 as [|? ? ? ? Hb1 I4]; subst.
    inversion I4 as [|? ? ? ? Hb2 I5]; subst. inversion I5 as [|? ? ? ? Hb3 _]; subst.
    apply u32le_inv in Hu. apply befixed_inv in Hb1 as [_ F1]. apply befixed_inv in Hb2 as [_ F2]. apply befixed_inv in Hb3 as [_ F3].
    unfold wf_ffk. rewrite Hu, F1, F2, F3. reflexivity.
  - apply FFCDHKey_layout.
Qed.

Theorem ECDHKey_layout_iff k : layout ECDHKey_table (spec_of_eck k) = res_opt (ECDHKey_pack k).
Proof.
  apply (iff_from_wf _ _ (wf_eck k)).
  - intros b. unfold ECDHKey_pack.
    destruct (to_bytes_be_z (eck_key_length k) (eck_x k)) as [b1|] eqn:E1; [|discriminate]. cbn [bind].
    destruct (to_bytes_be_z (eck_key_length k) (eck_y k)) as [b2|] eqn:E2; [|discriminate]. cbn [bind].
    destruct (curve_of_name (eck_curve_name k)) as [cv|] eqn:Ec; [|discriminate].
    destruct (to_bytes_le 4 (eck_key_length k)) eqn:E4; [|discriminate]. intros _.
    apply to_bytes_be_z_inv' in E1 as (Hk & F1 & _). apply to_bytes_be_z_inv' in E2 as (_ & F2 & _).
    apply to_bytes_le_inv in E4 as [E4 _]. rewrite P_4 in E4. unfold wf_eck, u32b. rewrite Ec, F1, F2. lia.
  - intros b. unfold layout. destruct (all_some (map (enc1 (spec_of_eck k)) ECDHKey_table)) as [q1|] eqn:E1; [|discriminate].
    intros _. apply all_some_inv in E1. unfold ECDHKey_table, spec_of_eck in E1.
    cbn [map enc1 nth se_curve se_key_length se_x se_y] in E1.
    inversion E1 as [|? ? ? ? Hm I2]; subst. inversion I2 as [|? ? ? ? Hu I3]; subst. inversion I3 as [|? ? ? ? Hb1 I4]; subst.
    inversion I4 as [|? ? ? ? Hb2 _]; subst.
    apply u32le_inv in Hu. apply befixed_inv in Hb1 as [_ F1]. apply befixed_inv in Hb2 as [_ F2].
    unfold wf_eck. rewrite Hu, F1, F2.
    destruct (curve_of_name (eck_curve_name k)) as [cv|]; [reflexivity|]. unfold ecdh_magic in Hm. cbn [se_curve] in Hm. discriminate.
  - apply ECDHKey_layout.
Qed.
