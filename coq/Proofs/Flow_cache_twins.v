(* Sync / async twins of the four public functions (gen/F_cache.v): the regenerated body of the async function IS the
   regenerated body of the sync one after an explicit, purely syntactic renaming of two callees
   (`_async_get_key` -> `_sync_get_key`, `async_lookup_dc` -> `lookup_dc`; `await` is dropped by the translator).
   Re-checked against the regenerated terms on every run. *)
From Coq Require Import Ascii.
From V Require Import Prelude.Base Prelude.PyAst gen.F_cache.
Local Open Scope string_scope.
Local Open Scope list_scope.

(* callee key = dotted name, optionally followed by "/kw1,kw2,..": split at the first "/" *)
Fixpoint split_slash (s : string) : string * string :=
  match s with
  | EmptyString => (EmptyString, EmptyString)
  | String ch r => if Ascii.eqb ch "/"%char then (EmptyString, s)
                   else let (a, b) := split_slash r in (String ch a, b)
  end.

Definition ren_name (n : string) : string :=
  if String.eqb n "_async_get_key" then "_sync_get_key"
  else if String.eqb n "async_lookup_dc" then "lookup_dc"
  else n.

Definition ren_callee (f : string) : string :=
  let (n, kw) := split_slash f in ren_name n ++ kw.

(* the renaming touches callee names of PCall only; everything else is copied *)
Fixpoint ren_e (e : pexp) : pexp :=
  match e with
  | PName x => PName x
  | PAttr e' a => PAttr (ren_e e') a
  | PInt z => PInt z
  | PBytes b => PBytes b
  | PStr s => PStr s
  | PNone => PNone
  | PBool b => PBool b
  | PCall f args => PCall (ren_callee f) (map ren_e args)
  | PMeth m recv args => PMeth m (ren_e recv) (map ren_e args)
  | PCmp op a b => PCmp op (ren_e a) (ren_e b)
  | PNot e' => PNot (ren_e e')
  | PAnd a b => PAnd (ren_e a) (ren_e b)
  | POr a b => POr (ren_e a) (ren_e b)
  | PBin op a b => PBin op (ren_e a) (ren_e b)
  | PNeg e' => PNeg (ren_e e')
  | PTuple l => PTuple (map ren_e l)
  | PList l => PList (map ren_e l)
  | PIfExp c a b => PIfExp (ren_e c) (ren_e a) (ren_e b)
  | PSub e' i => PSub (ren_e e') (ren_e i)
  | PSlice e' lo hi => PSlice (ren_e e') (ren_e lo) (ren_e hi)
  | PComp elt xs it conds => PComp (ren_e elt) xs (ren_e it) (map ren_e conds)
  end.

Fixpoint ren_s (s : pstmt) : pstmt :=
  match s with
  | SAssign xs e => SAssign xs (ren_e e)
  | SSetAttr x a e => SSetAttr x a (ren_e e)
  | SReturn e => SReturn (ren_e e)
  | SRaise exc => SRaise exc
  | SIf c a b => SIf (ren_e c) (map ren_s a) (map ren_s b)
  | SExpr e => SExpr (ren_e e)
  | SWhile c body => SWhile (ren_e c) (map ren_s body)
  | SFor xs it body => SFor xs (ren_e it) (map ren_s body)
  | SWith ctx x body => SWith (ren_e ctx) x (map ren_s body)
  | SBreak => SBreak
  | SContinue => SContinue
  | SPass => SPass
  end.

Definition ren_f (f : pfun) : pfun := {| pf_params := pf_params f; pf_body := map ren_s (pf_body f) |}.

(* the renaming does what it says on the two keys that occur, and nothing on a key that is not one of the two *)
Lemma ren_callee_examples :
  ren_callee "_async_get_key/username,password,auth_protocol" = "_sync_get_key/username,password,auth_protocol" /\
  ren_callee "async_lookup_dc" = "lookup_dc" /\
  ren_callee "_decrypt_blob" = "_decrypt_blob" /\ ren_callee "_sync_get_key/username,password,auth_protocol" = "_sync_get_key/username,password,auth_protocol".
Proof. repeat split; reflexivity. Qed.

Lemma flow_twin_unprotect : k_flow_ncrypt_unprotect_secret = ren_f k_flow_async_ncrypt_unprotect_secret.
Proof. vm_compute. reflexivity. Qed.

Lemma flow_twin_protect : k_flow_ncrypt_protect_secret = ren_f k_flow_async_ncrypt_protect_secret.
Proof. vm_compute. reflexivity. Qed.

(* the sync functions do not mention the async callees: the renaming is the identity on them (so the equalities above are
   not obtained by collapsing distinct programs) *)
Lemma flow_twin_sync_fixed :
  ren_f k_flow_ncrypt_unprotect_secret = k_flow_ncrypt_unprotect_secret /\
  ren_f k_flow_ncrypt_protect_secret = k_flow_ncrypt_protect_secret.
Proof. split; vm_compute; reflexivity. Qed.

(* and the async bodies really differ from the sync ones before renaming *)
Lemma flow_twin_differ :
  pf_body k_flow_async_ncrypt_unprotect_secret <> pf_body k_flow_ncrypt_unprotect_secret /\
  pf_body k_flow_async_ncrypt_protect_secret <> pf_body k_flow_ncrypt_protect_secret.
Proof. split; intro H; vm_compute in H; discriminate H. Qed.
