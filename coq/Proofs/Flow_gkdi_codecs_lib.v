(* Shared setup of the tie proofs of the gkdi codecs (Flow_gkdi_codecs_*.v): reduction flags that keep `cbn` inside the
   interpreter (never through slices, integer codecs, UTF-16, arithmetic on variables) and three small tactics. *)
From V Require Import Prelude.Base Prelude.PyInt Prelude.PySlice Prelude.PyStr Prelude.PyAst Prelude.PyWorld.
From V Require Import Model.Types Model.Crypto Model.KeyId Model.Gkdi Flow.World_gkdi_codecs.
Local Open Scope string_scope.
Local Open Scope list_scope.
Local Open Scope Z_scope.

Global Arguments len : simpl never.
Global Arguments slice : simpl never.
Global Arguments le_val : simpl never.
Global Arguments be_val : simpl never.
Global Arguments le_val_signed : simpl never.
Global Arguments from_signed : simpl never.
Global Arguments to_bytes_le : simpl never.
Global Arguments to_bytes_be : simpl never.
Global Arguments to_bytes_le_signed : simpl never.
Global Arguments utf16le_encode : simpl never.
Global Arguments utf16le_decode : simpl never.
Global Arguments uuid_of_bytes_le : simpl never.
Global Arguments GroupKeyEnvelope_unpack : simpl never.
Global Arguments to_bytes_be_z : simpl never.
Global Arguments Z.add : simpl nomatch.
Global Arguments Z.sub : simpl nomatch.
Global Arguments Z.mul : simpl nomatch.
Global Arguments Z.opp : simpl nomatch.
Global Arguments Z.modulo : simpl nomatch.
Global Arguments Z.ltb : simpl nomatch.
Global Arguments Z.leb : simpl nomatch.
Global Arguments Z.eqb : simpl nomatch.
Global Arguments Z.land : simpl nomatch.
Global Arguments Z.to_nat : simpl nomatch.
Global Arguments Pos.to_nat : simpl nomatch.

(* bytes/str equality of the standard world and of the model are the same function *)
Lemma zs_eqb_beqb a b : zs_eqb a b = beqb a b.
Proof. reflexivity. Qed.

Definition lift_b (r : res bytes) : res (pv obj) := let* b := r in Ok (VB b).

(* int.to_bytes(n, "big") with a variable length is the model's to_bytes_be_z *)
Ltac tbe := repeat match goal with |- context [to_bytes_generic ?z ?n false false] =>
  change (to_bytes_generic z n false false) with (to_bytes_be_z n z) end.

(* run the interpreter as far as it goes *)
Ltac go := cbn; unfold test; cbn;
  change (Pos.to_nat 4) with 4%nat; change (Pos.to_nat 8) with 8%nat; tbe.

Ltac stuck m := lazymatch m with
  | bind _ _ => fail
  | match _ with _ => _ end => fail
  | exec_block _ _ _ _ => fail
  | _ => idtac end.
(* case split on the first stuck `let*`: the Raise branch must close by computation *)
Ltac dres := match goal with |- context [bind ?m _] => stuck m; destruct m; go; [|reflexivity] end.
Ltac dres_all := repeat dres.
(* case split on a stuck bytes/str comparison *)
Ltac deq := match goal with |- context [zs_eqb ?a ?b] => destruct (zs_eqb a b); go end.
(* case split on a stuck integer comparison *)
Ltac dlt := match goal with |- context [?a <? ?b] => destruct (a <? b); go end.
Ltac dze := match goal with |- context [?a =? ?b] => destruct (a =? b); go end.

Lemma repeat_list_zero n : repeat_list n [0] = repeat 0 n.
Proof. induction n as [|n IH]; [reflexivity|]. cbn [repeat_list repeat app]. rewrite IH. reflexivity. Qed.

(* len of a literal list *)
Ltac lenc := repeat match goal with |- context [len (?x :: ?l)] =>
  let v := eval cbv in (len (x :: l)) in change (len (x :: l)) with v end.

(* ---- statement-by-statement execution: long function bodies are run one statement at a time on a concrete environment
   (stuck calls are case split as soon as they appear), so that neither `cbn` nor the kernel ever evaluates the rest of a
   body under an unknown environment ---- *)
Lemma run_unfold {V} (Wd : world V) fuel f args :
  run Wd fuel f args = match bind_params (pf_params f) args with
                       | None => Raise TypeError
                       | Some env => let* o := exec_block Wd fuel (pf_body f) env in
                                     match o with Ret v => Ok v | _ => Ok (w_none Wd) end
                       end.
Proof. reflexivity. Qed.
Lemma exec_block_cons {V} (Wd : world V) fuel s r env :
  exec_block Wd fuel (s :: r) env =
  let* o := exec Wd fuel env s in match o with Next env' => exec_block Wd fuel r env' | other => Ok other end.
Proof. reflexivity. Qed.
Lemma exec_block_nil {V} (Wd : world V) fuel env : exec_block Wd fuel [] env = Ok (Next env).
Proof. reflexivity. Qed.

(* evaluate the next statement only *)
Ltac step :=
  rewrite exec_block_cons;
  match goal with |- context [exec ?Wd ?fuel ?env ?s] =>
    let t := eval cbn in (exec Wd fuel env s) in
    let t' := eval unfold test in t in
    let t'' := eval cbn in t' in
    change (exec Wd fuel env s) with t''
  end;
  change (Pos.to_nat 4) with 4%nat; change (Pos.to_nat 8) with 8%nat;
  cbn [bind].
(* run a tactic with the statements still to run hidden behind a variable *)
Ltac protect tac :=
  lazymatch goal with
  | |- context [exec_block _ _ (?s :: ?r) _] =>
    let R := fresh "R" in let HR := fresh "HR" in remember (s :: r) as R eqn:HR; tac; subst R
  | _ => tac
  end.
(* case splits that do not touch the statements still to run *)
Ltac sdeq := match goal with |- context [zs_eqb ?a ?b] => destruct (zs_eqb a b); protect go end.
Ltac sdlt := match goal with |- context [?a <? ?b] => destruct (a <? b); protect go end.
Ltac sdze := match goal with |- context [?a =? ?b] => destruct (a =? b); protect go end.
Ltac sdres := match goal with |- context [bind ?m _] => stuck m; destruct m; protect go; [|reflexivity] end.
Ltac steps := repeat (step; repeat sdres).
