(* C17: lemmas about Model/Conversation.v. Composition only: C11 (GetKey stub = NDR64 reference encoding, reply decoding, padding
   strip), C13 (what _create_request/_prepare_pdu hand to the security context), C16 (replies accepted only after unwrap).
   The security context (wrap / unwrap) and the provider are arbitrary throughout. *)
From V Require Import Prelude.Base Prelude.PyInt Prelude.PySlice.
From V Require Import gen.K_client gen.C_client gen.C_rpc gen.C_gkdi gen.K_online gen.C_online.
From V Require Import Model.Pdu Model.Request Model.Bind Model.Verification Model.Epm.
From V Require Import Model.Handshake Model.Framing Model.Seal Model.Recv.
From V Require Import Model.Types Model.Gkdi Model.Conversation Spec.GkdiLayout.
From V Require Import Proofs.GkdiLib Proofs.GkdiGetKey Proofs.GkdiEnvelope Proofs.C13 Proofs.C15 Proofs.C16 Proofs.C17Consts.

(* the kernels that carry the arguments are identities *)
Lemma getkey_of_eq f sd rk l0 l1 l2 :
  getkey_of f sd rk l0 l1 l2 = {| gk_target_sd := sd; gk_root_key_id := rk; gk_l0 := l0; gk_l1 := l1; gk_l2 := l2 |}.
Proof. destruct f, rk; reflexivity. Qed.

Section Conv.
Variable wrap : wrap_fn.
Variable unwrap : unwrap_fn.
Variable pv : provider.

(* whatever the outcome, a GetKey request in the transcript was produced by send_request on the packed GetKey stub with the
   ISD_KEY context id, the GetKey opnum and the interface verification trailer *)
Lemma isd_request_sent f sg g stream sch wire oargs resp :
  isd_request f wrap unwrap pv sg g stream sch = (Ok (wire, oargs), resp) ->
  exists stub, GetKey_pack g = Ok stub /\
    send_request wrap (Some pv) sg c_onl_isd_ctx_id c_onl_getkey_opnum stub (Some c_onl_vt) = Ok (wire, oargs) /\
    resp = receive_response f unwrap (Some pv) (snd (create_request (Some pv) c_onl_isd_ctx_id c_onl_getkey_opnum stub (Some c_onl_vt)))
             sg stream sch.
Proof.
  unfold isd_request. destruct (GetKey_pack g) as [stub|e]; [|discriminate]. unfold rpc_request.
  destruct (send_request wrap (Some pv) sg c_onl_isd_ctx_id c_onl_getkey_opnum stub (Some c_onl_vt)) as [sr|e] eqn:Es; [|discriminate].
  intros H. exists stub. split; [reflexivity|]. split; congruence.
Qed.

Lemma isd_phase_request f legs dc g t0 r t wire oargs :
  isd_key_phase f wrap unwrap pv legs dc g t0 = (r, t) -> tr_getkey_request t0 = None ->
  tr_getkey_request t = Some (wire, oargs) ->
  exists stub, GetKey_pack g = Ok stub /\
    send_request wrap (Some pv) (tr_sign t) c_onl_isd_ctx_id c_onl_getkey_opnum stub (Some c_onl_vt) = Ok (wire, oargs) /\
    (forall env, r = Ok env -> exists rsp,
        receive_response f unwrap (Some pv) (snd (create_request (Some pv) c_onl_isd_ctx_id c_onl_getkey_opnum stub (Some c_onl_vt)))
          (tr_sign t) (ds_getkey_stream dc) (ds_sched dc) = Ok rsp /\
        process_get_key_result (rs_stub_data rsp) (match rs_sec_trailer rsp with Some st => Some (st_pad_length st) | None => None end) = Ok env).
Proof.
  unfold isd_key_phase. intros H H0 Hreq.
  destruct (bind_run true legs (ds_isd_srv dc) (context_ids isd_key_contexts)) as [rb s].
  destruct rb as [results|e].
  2:{ apply (f_equal snd) in H. cbn [snd] in H. subst t. cbn [tr_getkey_request tr_isd] in Hreq. congruence. }
  destruct (process_bind_result _ results c_onl_isd_ctx_id) as [u|e].
  2:{ apply (f_equal snd) in H. cbn [snd] in H. subst t. cbn [tr_getkey_request tr_isd] in Hreq. congruence. }
  destruct (isd_request f wrap unwrap pv (sign s) g (ds_getkey_stream dc) (ds_sched dc)) as [sent_req resp] eqn:Ei.
  assert (Ht : tr_getkey_request t = ok_opt sent_req /\ tr_sign t = sign s).
  { destruct resp; apply (f_equal snd) in H; cbn [snd] in H; subst t; split; reflexivity. }
  destruct Ht as [Ht Hs]. rewrite Ht in Hreq. destruct sent_req as [[w oa]|e]; cbn [ok_opt] in Hreq; [|discriminate].
  assert (w = wire /\ oa = oargs) as [-> ->] by (split; congruence).
  destruct (isd_request_sent _ _ _ _ _ _ _ _ Ei) as (stub & Hp & Hsend & Hresp).
  exists stub. rewrite Hs. split; [exact Hp|]. split; [exact Hsend|].
  intros env ->. destruct resp as [rsp|e]; [|apply (f_equal fst) in H; cbn [fst] in H; discriminate].
  exists rsp. split; [symmetry; exact Hresp|]. apply (f_equal fst) in H. exact H.
Qed.

Lemma conversation_request f legs dc sd rk l0 l1 l2 r t wire oargs :
  get_key_conversation f wrap unwrap pv legs dc sd rk l0 l1 l2 = (r, t) ->
  tr_getkey_request t = Some (wire, oargs) ->
  exists stub, GetKey_pack {| gk_target_sd := sd; gk_root_key_id := rk; gk_l0 := l0; gk_l1 := l1; gk_l2 := l2 |} = Ok stub /\
    send_request wrap (Some pv) (tr_sign t) c_onl_isd_ctx_id c_onl_getkey_opnum stub (Some c_onl_vt) = Ok (wire, oargs) /\
    (forall env, r = Ok env -> exists rsp,
        receive_response f unwrap (Some pv) (snd (create_request (Some pv) c_onl_isd_ctx_id c_onl_getkey_opnum stub (Some c_onl_vt)))
          (tr_sign t) (ds_getkey_stream dc) (ds_sched dc) = Ok rsp /\
        process_get_key_result (rs_stub_data rsp) (match rs_sec_trailer rsp with Some st => Some (st_pad_length st) | None => None end) = Ok env).
Proof.
  unfold get_key_conversation. intros H Hreq.
  destruct (bind_run false [] (ds_epm_srv dc) (context_ids epm_contexts)) as [rb s].
  destruct rb as [results|e].
  2:{ apply (f_equal snd) in H. cbn [snd] in H. subst t. discriminate. }
  destruct (process_bind_result _ results c_onl_epm_ctx_id) as [u|e].
  2:{ apply (f_equal snd) in H. cbn [snd] in H. subst t. discriminate. }
  destruct (rpc_request f wrap unwrap None (sign s) _ c_onl_ept_map_opnum c_onl_ept_map_stub None (ds_ept_stream dc) (ds_sched dc)) as [sent_req resp].
  destruct resp as [rsp|e].
  2:{ apply (f_equal snd) in H. cbn [snd] in H. subst t. discriminate. }
  destruct (process_ept_map_result _ (rs_stub_data rsp)) as [[port ticks]|e].
  2:{ apply (f_equal snd) in H. cbn [snd] in H. subst t. discriminate. }
  rewrite getkey_of_eq in H.
  eapply isd_phase_request; [exact H|reflexivity|exact Hreq].
Qed.
End Conv.


(* RpcClient.request on an authenticated connection, read backwards: if it produced a wire image then -- for ANY security context,
   any signature size -- the context was handed exactly (24 octets of headers, the stub region padded to 16, the 8-octet trailer
   header naming PKT_PRIVACY and the padding, the sign flag) and the wire is header ++ what the context returned ++ trailer ++ signature *)
Lemma send_request_inv (wrap : wrap_fn) pv sg ctx opnum stub vt wire oargs :
  send_request wrap (Some pv) sg ctx opnum stub vt = Ok (wire, oargs) ->
  let body := sealed_region stub vt in
  let pad := k_auth_pad (len (stub_with_vt stub vt)) in
  exists hdr16, len hdr16 = 16 /\
    let hdr := hdr16 ++ fixed8 (len body) ctx opnum in
    oargs = Some {| wa_header := hdr; wa_body := body; wa_trailer := trailer8 pv pad; wa_sign := sg |} /\
    wire = hdr ++ fst (wrap hdr body (trailer8 pv pad) sg) ++ trailer8 pv pad ++ snd (wrap hdr body (trailer8 pv pad) sg) /\
    len body mod 16 = 0 /\ 0 <= pad < 16.
Proof.
  cbv zeta. intros Hs.
  destruct (create_request_auth pv ctx opnum stub vt) as (req & Hcr & Hpack & Hal & Hpt & Hstub & Halloc). cbv zeta in *.
  set (body := sealed_region stub vt) in *. set (pad := k_auth_pad (len (stub_with_vt stub vt))) in *.
  pose proof (len_nonneg (stub_with_vt stub vt)) as Hn.
  destruct (auth_pad_spec _ Hn) as (Hr & Hm & _). fold pad in Hr.
  assert (Hb16 : len body mod 16 = 0).
  { unfold body, sealed_region. rewrite len_app. rewrite len_zeros by (fold pad; lia). exact Hm. }
  unfold send_request in Hs. rewrite Hcr in Hs. unfold prepare_pdu in Hs.
  destruct (offsets_spec 0) as (_ & _ & Hfp & Hw). rewrite Hfp, Hw in Hs.
  change (Z.to_nat 2) with 2%nat in Hs.
  destruct (to_bytes_le 2 (len (request_pack req))) as [fl|e] eqn:Efl; [|discriminate]. cbn [bind] in Hs.
  apply to_bytes_le_inv in Efl as [_ ->].
  set (L := len (request_pack req)) in *.
  assert (Hset : set_slice (request_pack req) 8 10 (le 2 L) =
                 patched_header (rq_header req) L ++ fixed8 (len body) ctx opnum ++ body ++ trailer8 pv pad ++ zeros (pv_sig_len pv)).
  { rewrite Hpack, patch_fraglen. reflexivity. }
  rewrite !Hset in Hs. clear Hset.
  set (ph := patched_header (rq_header req) L) in *.
  set (f8 := fixed8 (len body) ctx opnum) in *. set (t8 := trailer8 pv pad) in *. set (zs := zeros (pv_sig_len pv)) in *.
  assert (Hlh : len (ph ++ f8) = 24) by (rewrite len_app; unfold ph, f8; rewrite len_patched_header, len_fixed8; lia).
  pose proof (len_nonneg body) as Hbn.
  assert (S1 : slice None (Some 24) (ph ++ f8 ++ body ++ t8 ++ zs) = ph ++ f8).
  { replace (ph ++ f8 ++ body ++ t8 ++ zs) with ((ph ++ f8) ++ body ++ t8 ++ zs) by (rewrite <- !app_assoc; reflexivity).
    rewrite <- Hlh. apply slice_none_l. }
  assert (S2 : slice (Some 24) (Some (24 + len body)) (ph ++ f8 ++ body ++ t8 ++ zs) = body).
  { replace (ph ++ f8 ++ body ++ t8 ++ zs) with ((ph ++ f8) ++ body ++ (t8 ++ zs)) by (rewrite <- !app_assoc; reflexivity).
    apply slice_mid; lia. }
  assert (S3 : slice (Some (24 + len body)) (Some (24 + len body + 8)) (ph ++ f8 ++ body ++ t8 ++ zs) = t8).
  { replace (ph ++ f8 ++ body ++ t8 ++ zs) with (((ph ++ f8) ++ body) ++ t8 ++ zs) by (rewrite <- !app_assoc; reflexivity).
    apply slice_mid; rewrite (len_app (ph ++ f8) body), Hlh; unfold t8; rewrite ?len_trailer8; lia. }
  rewrite !S1, !S2, !S3 in Hs.
  destruct (wrap (ph ++ f8) body t8 sg) as [sealed sgn] eqn:Ew.
  exists ph. split; [unfold ph; apply len_patched_header|].
  rewrite Ew. cbn [fst snd].
  apply Ok_inj in Hs. split; [congruence|]. split; [|split; [exact Hb16|lia]].
  apply (f_equal fst) in Hs. cbn [fst] in Hs. rewrite <- Hs. rewrite <- !app_assoc. reflexivity.
Qed.


Definition gk (sd : bytes) (rk : option bytes) (l0 l1 l2 : Z) : getkey :=
  {| gk_target_sd := sd; gk_root_key_id := rk; gk_l0 := l0; gk_l1 := l1; gk_l2 := l2 |}.

(* the NDR64 reference encoder is injective on well-formed argument tuples: the stub determines the tuple *)
Lemma ndr64_getkey_injective g1 g2 b : wf_getkey g1 = true -> wf_getkey g2 = true ->
  ndr64_getkey_request (gk_target_sd g1) (gk_root_key_id g1) (gk_l0 g1) (gk_l1 g1) (gk_l2 g1) = Some b ->
  ndr64_getkey_request (gk_target_sd g2) (gk_root_key_id g2) (gk_l0 g2) (gk_l1 g2) (gk_l2 g2) = Some b -> g1 = g2.
Proof.
  intros W1 W2 H1 H2. rewrite (GetKey_pack_ndr64 _ W1) in H1. rewrite (GetKey_pack_ndr64 _ W2) in H2.
  pose proof (GetKey_unpack_fields _ W1) as U1. pose proof (GetKey_unpack_fields _ W2) as U2.
  assert (E : concat (getkey_field_list g1) = concat (getkey_field_list g2)) by congruence.
  rewrite E in U1. rewrite U1 in U2. apply Ok_inj in U2. exact U2.
Qed.

Lemma trailer8_fields pv pad : 0 <= pad < 16 ->
  index (trailer8 pv pad) 1 = Ok 6 /\ index (trailer8 pv pad) 2 = Ok pad.
Proof.
  intros Hp. unfold trailer8. cbn [concat]. split.
  - replace (le 1 (pv_type pv) ++ le 1 c_PKT_PRIVACY ++ le 1 pad ++ [0] ++ le 4 0 ++ [])
      with (le 1 (pv_type pv) ++ 6 :: (le 1 pad ++ [0] ++ le 4 0 ++ [])) by reflexivity.
    replace 1 with (len (le 1 (pv_type pv))) at 1 by (rewrite len_le; reflexivity). apply index_app_r.
  - replace (le 1 (pv_type pv) ++ le 1 c_PKT_PRIVACY ++ le 1 pad ++ [0] ++ le 4 0 ++ [])
      with ((le 1 (pv_type pv) ++ le 1 c_PKT_PRIVACY) ++ (pad mod 256) :: ([0] ++ le 4 0 ++ [])) by (rewrite <- !app_assoc; reflexivity).
    replace 2 with (len (le 1 (pv_type pv) ++ le 1 c_PKT_PRIVACY)) at 1 by (rewrite len_app, !len_le; reflexivity).
    rewrite index_app_r. f_equal. lia.
Qed.

Section Thm.
Variable wrap : wrap_fn.
Variable unwrap : unwrap_fn.
Variable pv : provider.

(* ---- request fidelity ---- *)
Lemma conversation_request_ndr64 f legs dc sd rk l0 l1 l2 r t wire oargs :
  wf_getkey (gk sd rk l0 l1 l2) = true ->
  get_key_conversation f wrap unwrap pv legs dc sd rk l0 l1 l2 = (r, t) ->
  tr_getkey_request t = Some (wire, oargs) ->
  exists stub args,
    ndr64_getkey_request sd rk l0 l1 l2 = Some stub /\
    oargs = Some args /\ wa_body args = sealed_region stub (Some c_onl_vt) /\
    slice None (Some (len stub)) (wa_body args) = stub /\
    slice (Some 16) (Some 24) (wa_header args) = fixed8 (len (wa_body args)) c_onl_isd_ctx_id c_onl_getkey_opnum.
Proof.
  intros Hwf H Hreq.
  destruct (conversation_request wrap unwrap pv _ _ _ _ _ _ _ _ _ _ _ _ H Hreq) as (stub & Hp & Hsend & _).
  destruct (GetKey_pack_eq_ndr64 _ Hwf) as (b & Hb & Hn). cbn [gk gk_target_sd gk_root_key_id gk_l0 gk_l1 gk_l2] in Hn.
  assert (b = stub) by (unfold gk in Hb; congruence). subst b.
  destruct (send_request_inv _ _ _ _ _ _ _ _ _ Hsend) as (h16 & Hl16 & Ha & _ & _ & _). cbv zeta in Ha.
  eexists stub, _. split; [exact Hn|]. split; [exact Ha|]. cbn [wa_body wa_header].
  split; [reflexivity|]. split; [apply vt_position|].
  replace (h16 ++ fixed8 (len (sealed_region stub (Some c_onl_vt))) c_onl_isd_ctx_id c_onl_getkey_opnum)
    with (h16 ++ fixed8 (len (sealed_region stub (Some c_onl_vt))) c_onl_isd_ctx_id c_onl_getkey_opnum ++ []) by (rewrite app_nil_r; reflexivity).
  apply slice_mid; rewrite ?len_fixed8; lia.
Qed.

Theorem unprotect_request f legs dc sd kid r t wire oargs :
  wf_getkey (gk sd (Some (kid_rkid kid)) (kid_l0 kid) (kid_l1 kid) (kid_l2 kid)) = true ->
  unprotect_get_key f wrap unwrap pv legs dc sd kid = (r, t) ->
  tr_getkey_request t = Some (wire, oargs) ->
  exists stub args,
    ndr64_getkey_request sd (Some (kid_rkid kid)) (kid_l0 kid) (kid_l1 kid) (kid_l2 kid) = Some stub /\
    oargs = Some args /\ wa_body args = sealed_region stub (Some c_onl_vt) /\
    slice None (Some (len stub)) (wa_body args) = stub /\
    slice (Some 16) (Some 24) (wa_header args) = fixed8 (len (wa_body args)) c_onl_isd_ctx_id c_onl_getkey_opnum.
Proof.
  intros Hwf H Hreq. unfold unprotect_get_key in H.
  destruct f; exact (conversation_request_ndr64 _ _ _ _ _ _ _ _ _ _ _ _ Hwf H Hreq).
Qed.

Theorem protect_request f legs dc sd rk r t wire oargs :
  wf_getkey (gk sd rk (-1) (-1) (-1)) = true ->
  protect_get_key f wrap unwrap pv legs dc sd rk = (r, t) ->
  tr_getkey_request t = Some (wire, oargs) ->
  exists stub args,
    ndr64_getkey_request sd rk (-1) (-1) (-1) = Some stub /\
    oargs = Some args /\ wa_body args = sealed_region stub (Some c_onl_vt) /\
    slice None (Some (len stub)) (wa_body args) = stub /\
    slice (Some 16) (Some 24) (wa_header args) = fixed8 (len (wa_body args)) c_onl_isd_ctx_id c_onl_getkey_opnum.
Proof.
  intros Hwf H Hreq. unfold protect_get_key in H.
  destruct f, rk; exact (conversation_request_ndr64 _ _ _ _ _ _ _ _ _ _ _ _ Hwf H Hreq).
Qed.

(* ---- sealed at level 6, verification trailer at the 4-byte boundary, nothing else in the sealed region ---- *)
Theorem sealed_vt f legs dc sd rk l0 l1 l2 r t wire oargs :
  get_key_conversation f wrap unwrap pv legs dc sd rk l0 l1 l2 = (r, t) ->
  tr_getkey_request t = Some (wire, oargs) ->
  exists stub args pad,
    GetKey_pack (gk sd rk l0 l1 l2) = Ok stub /\ oargs = Some args /\
    wa_trailer args = trailer8 pv pad /\ index (wa_trailer args) 1 = Ok 6 /\ c_PKT_PRIVACY = 6 /\
    index (wa_trailer args) 2 = Ok pad /\ 0 <= pad < 16 /\
    len (wa_header args) = 24 /\ wa_sign args = tr_sign t /\
    wire = wa_header args ++ fst (wrap (wa_header args) (wa_body args) (wa_trailer args) (wa_sign args)) ++ wa_trailer args
           ++ snd (wrap (wa_header args) (wa_body args) (wa_trailer args) (wa_sign args)) /\
    wa_body args = stub ++ zeros (k_vt_pad (len stub)) ++ c_onl_vt ++ zeros pad /\
    (len stub + k_vt_pad (len stub)) mod 4 = 0 /\ 0 <= k_vt_pad (len stub) < 4 /\ len (wa_body args) mod 16 = 0 /\
    c_onl_vt = verification_trailer_pack verification_trailer.
Proof.
  intros H Hreq.
  destruct (conversation_request wrap unwrap pv _ _ _ _ _ _ _ _ _ _ _ _ H Hreq) as (stub & Hp & Hsend & _).
  destruct (send_request_inv _ _ _ _ _ _ _ _ _ Hsend) as (h16 & Hl16 & Ha & Hw & Hb16 & Hpad). cbv zeta in Ha, Hw, Hb16, Hpad.
  set (pad := k_auth_pad (len (stub_with_vt stub (Some c_onl_vt)))) in *.
  destruct (trailer8_fields pv pad Hpad) as [Hi1 Hi2].
  pose proof (len_nonneg stub) as Hn. destruct (vt_pad_spec _ Hn) as (Hr & Hm & _).
  eexists stub, _, pad. split; [exact Hp|]. split; [exact Ha|]. cbn [wa_header wa_body wa_trailer wa_sign].
  split; [reflexivity|]. split; [exact Hi1|]. split; [reflexivity|]. split; [exact Hi2|]. split; [exact Hpad|].
  split; [rewrite len_app, Hl16, len_fixed8; reflexivity|]. split; [reflexivity|]. split; [exact Hw|].
  split; [unfold sealed_region, stub_with_vt; fold pad; rewrite <- !app_assoc; reflexivity|].
  split; [exact Hm|]. split; [exact Hr|]. split; [exact Hb16|]. symmetry. apply vt_packed.
Qed.

(* ---- the reply ---- *)
Lemma isd_phase_result f legs dc g t0 env t :
  isd_key_phase f wrap unwrap pv legs dc g t0 = (Ok env, t) ->
  exists stub rsp, GetKey_pack g = Ok stub /\
    receive_response f unwrap (Some pv) (snd (create_request (Some pv) c_onl_isd_ctx_id c_onl_getkey_opnum stub (Some c_onl_vt)))
      (tr_sign t) (ds_getkey_stream dc) (ds_sched dc) = Ok rsp /\
    process_get_key_result (rs_stub_data rsp) (match rs_sec_trailer rsp with Some st => Some (st_pad_length st) | None => None end) = Ok env.
Proof.
  unfold isd_key_phase. intros H.
  destruct (bind_run true legs (ds_isd_srv dc) (context_ids isd_key_contexts)) as [rb s].
  destruct rb as [results|e]; [|apply (f_equal fst) in H; discriminate].
  destruct (process_bind_result _ results c_onl_isd_ctx_id) as [u|e]; [|apply (f_equal fst) in H; discriminate].
  destruct (isd_request f wrap unwrap pv (sign s) g (ds_getkey_stream dc) (ds_sched dc)) as [sent_req resp] eqn:Ei.
  destruct resp as [rsp|e]; [|apply (f_equal fst) in H; discriminate].
  assert (Hs : tr_sign t = sign s) by (apply (f_equal snd) in H; cbn [snd] in H; subst t; reflexivity).
  unfold isd_request in Ei. destruct (GetKey_pack g) as [stub|e]; [|discriminate]. unfold rpc_request in Ei.
  destruct (send_request wrap (Some pv) (sign s) c_onl_isd_ctx_id c_onl_getkey_opnum stub (Some c_onl_vt)) as [sr|e]; [|discriminate].
  exists stub, rsp. split; [reflexivity|]. rewrite Hs. split; [congruence|]. apply (f_equal fst) in H. exact H.
Qed.

Lemma conversation_result f legs dc sd rk l0 l1 l2 env t :
  get_key_conversation f wrap unwrap pv legs dc sd rk l0 l1 l2 = (Ok env, t) ->
  exists stub rsp, GetKey_pack (gk sd rk l0 l1 l2) = Ok stub /\
    receive_response f unwrap (Some pv) (snd (create_request (Some pv) c_onl_isd_ctx_id c_onl_getkey_opnum stub (Some c_onl_vt)))
      (tr_sign t) (ds_getkey_stream dc) (ds_sched dc) = Ok rsp /\
    process_get_key_result (rs_stub_data rsp) (match rs_sec_trailer rsp with Some st => Some (st_pad_length st) | None => None end) = Ok env.
Proof.
  unfold get_key_conversation. intros H.
  destruct (bind_run false [] (ds_epm_srv dc) (context_ids epm_contexts)) as [rb s].
  destruct rb as [results|e]; [|apply (f_equal fst) in H; discriminate].
  destruct (process_bind_result _ results c_onl_epm_ctx_id) as [u|e]; [|apply (f_equal fst) in H; discriminate].
  destruct (rpc_request f wrap unwrap None (sign s) _ c_onl_ept_map_opnum c_onl_ept_map_stub None (ds_ept_stream dc) (ds_sched dc)) as [sent_req resp].
  destruct resp as [rsp|e]; [|apply (f_equal fst) in H; discriminate].
  destruct (process_ept_map_result _ (rs_stub_data rsp)) as [[port ticks]|e]; [|apply (f_equal fst) in H; discriminate].
  rewrite getkey_of_eq in H. exact (isd_phase_result _ _ _ _ _ _ _ H).
Qed.

(* a conforming DC's marshalled envelope, once the declared padding is stripped, decodes to the envelope *)
Lemma conforming_reply e out reply padding :
  wf_env e = true -> GroupKeyEnvelope_pack e = Ok out -> ndr64_getkey_reply out 0 = Some reply ->
  process_get_key_result (reply ++ padding) (Some (len padding)) = Ok e.
Proof.
  intros We Hp Hr. rewrite strip_pad.
  assert (Hu : u32b (len out) = true).
  { destruct (u32b (len out)) eqn:E; [reflexivity|]. exfalso. unfold ndr64_getkey_reply, u32le in Hr. unfold u32b in E. rewrite E in Hr. discriminate. }
  rewrite (unpack_response_ndr64 _ _ Hu Hr).
  destruct (GroupKeyEnvelope_roundtrip _ We) as (b & Hb & Hub). assert (b = out) by congruence. subst b. exact Hub.
Qed.

Theorem result f legs dc sd rk l0 l1 l2 env t :
  get_key_conversation f wrap unwrap pv legs dc sd rk l0 l1 l2 = (Ok env, t) ->
  exists pdu hdr rsp,
    recv_pdu f (ds_getkey_stream dc) (ds_sched dc) = Ok pdu /\ pdu_header_unpack (firstn 16 pdu) = Ok hdr /\
    h_auth_len hdr <> 0 /\
    (let a := unwrap_slices hdr 24 (tr_sign t) pdu in
     exists dec, unwrap (ua_header a) (ua_body a) (ua_trailer a) (ua_signature a) (tr_sign t) = Ok dec /\
       exists body h st, pdu_split (assign_slice pdu 24 (h_frag_len hdr - (h_auth_len hdr + 8)) dec) = Ok (body, h, st) /\
         h_packet_type h = c_PT_RESPONSE /\ response_unpack body h st = Ok rsp) /\
    process_get_key_result (rs_stub_data rsp) (match rs_sec_trailer rsp with Some st => Some (st_pad_length st) | None => None end) = Ok env /\
    (forall e out reply padding st, wf_env e = true -> GroupKeyEnvelope_pack e = Ok out -> ndr64_getkey_reply out 0 = Some reply ->
       rs_stub_data rsp = reply ++ padding -> rs_sec_trailer rsp = Some st -> st_pad_length st = len padding -> env = e).
Proof.
  intros H. destruct (conversation_result _ _ _ _ _ _ _ _ _ _ H) as (stub & rsp & Hp & Hrecv & Hres).
  destruct (create_request_auth pv c_onl_isd_ctx_id c_onl_getkey_opnum stub (Some c_onl_vt)) as (req & Hcr & _). cbv zeta in Hcr.
  rewrite Hcr in Hrecv. cbn [snd] in Hrecv. unfold receive_response in Hrecv.
  destruct (recv_pdu f (ds_getkey_stream dc) (ds_sched dc)) as [pdu|e] eqn:Er; [|discriminate]. cbn [bind] in Hrecv.
  destruct (pdu_header_unpack (firstn 16 pdu)) as [hdr|e] eqn:Eh; [|discriminate]. cbn [bind is_some] in Hrecv.
  destruct (sealed_only unwrap _ _ _ _ _ _ Hrecv) as (Hne & Hun).
  exists pdu, hdr, rsp. split; [reflexivity|]. split; [exact Eh|]. split; [exact Hne|]. split; [exact Hun|]. split; [exact Hres|].
  intros e out reply padding st We Hpk Hrep Hstub Hst Hpl. rewrite Hstub, Hst, Hpl in Hres.
  rewrite (conforming_reply _ _ _ _ We Hpk Hrep) in Hres. apply Ok_inj in Hres. symmetry. exact Hres.
Qed.
End Thm.

(* ---- the two flavours of the model coincide as soon as the two receive loops deliver the same PDUs ---- *)
Lemma receive_response_flavour unwrap auth offs sg stream sch :
  recv_pdu Sync stream sch = recv_pdu Async stream sch ->
  receive_response Sync unwrap auth offs sg stream sch = receive_response Async unwrap auth offs sg stream sch.
Proof. intros H. unfold receive_response. rewrite H. reflexivity. Qed.

Lemma rpc_request_flavour wrap unwrap auth sg ctx op stub vt stream sch :
  recv_pdu Sync stream sch = recv_pdu Async stream sch ->
  rpc_request Sync wrap unwrap auth sg ctx op stub vt stream sch = rpc_request Async wrap unwrap auth sg ctx op stub vt stream sch.
Proof.
  intros H. unfold rpc_request. destruct (send_request wrap auth sg ctx op stub vt); [|reflexivity].
  rewrite (receive_response_flavour _ _ _ _ _ _ H). reflexivity.
Qed.

Lemma flavours_agree (wrap : wrap_fn) (unwrap : unwrap_fn) pv legs dc sd rk l0 l1 l2 :
  recv_pdu Sync (ds_ept_stream dc) (ds_sched dc) = recv_pdu Async (ds_ept_stream dc) (ds_sched dc) ->
  recv_pdu Sync (ds_getkey_stream dc) (ds_sched dc) = recv_pdu Async (ds_getkey_stream dc) (ds_sched dc) ->
  get_key_conversation Sync wrap unwrap pv legs dc sd rk l0 l1 l2 = get_key_conversation Async wrap unwrap pv legs dc sd rk l0 l1 l2.
Proof.
  intros H1 H2. unfold get_key_conversation.
  destruct (bind_run false [] (ds_epm_srv dc) (context_ids epm_contexts)) as [rb s].
  destruct rb as [results|e]; [|reflexivity].
  destruct (process_bind_result _ results c_onl_epm_ctx_id) as [u|e]; [|reflexivity].
  change (k_onl_sync_epm_ctx c_onl_epm_ctx_id) with (k_onl_async_epm_ctx c_onl_epm_ctx_id).
  rewrite (rpc_request_flavour _ _ _ _ _ _ _ _ _ _ H1).
  destruct (rpc_request Async wrap unwrap None (sign s) _ c_onl_ept_map_opnum c_onl_ept_map_stub None (ds_ept_stream dc) (ds_sched dc)) as [sent_req resp].
  destruct resp as [rsp|e]; [|reflexivity].
  destruct (process_ept_map_result _ (rs_stub_data rsp)) as [[port ticks]|e]; [|reflexivity].
  rewrite !getkey_of_eq. unfold isd_key_phase.
  destruct (bind_run true legs (ds_isd_srv dc) (context_ids isd_key_contexts)) as [rb2 s2].
  destruct rb2 as [results2|e]; [|reflexivity].
  destruct (process_bind_result _ results2 c_onl_isd_ctx_id) as [u2|e]; [|reflexivity].
  unfold isd_request. destruct (GetKey_pack _) as [stub|e]; [|reflexivity].
  rewrite (rpc_request_flavour _ _ _ _ _ _ _ _ _ _ H2). reflexivity.
Qed.

(* RpcClient.request on an anonymous connection: nothing is handed to a security context; the wire is the 16-octet PDU header, the
   8-octet request header (alloc_hint = stub length, context id, opnum) and the stub *)
Lemma send_request_anon_inv (wrap : wrap_fn) sg ctx opnum stub wire oargs :
  send_request wrap None sg ctx opnum stub None = Ok (wire, oargs) ->
  oargs = None /\ exists hdr16, len hdr16 = 16 /\ wire = hdr16 ++ fixed8 (len stub) ctx opnum ++ stub.
Proof.
  unfold send_request, create_request, prepare_pdu.
  destruct (offsets_spec (len stub)) as (_ & Ha & Hfp & _). rewrite Hfp, Ha.
  change (Z.to_nat 2) with 2%nat.
  destruct (to_bytes_le 2 _) as [fl|e] eqn:Efl; [|discriminate]. cbn [bind].
  apply to_bytes_le_inv in Efl as [_ ->]. intros H. apply Ok_inj in H.
  split; [congruence|].
  apply (f_equal fst) in H. cbn [fst] in H. subst wire.
  unfold request_pack, request_body, opt_sec_trailer_pack.
  cbn [rq_header rq_sec_trailer rq_alloc_hint rq_context_id rq_opnum rq_obj rq_stub_data concat].
  rewrite !app_nil_r.
  set (h := create_pdu_header c_PT_REQUEST 0 1 c_PFC_NONE).
  replace (pdu_header_pack h ++ le 4 (len stub) ++ le 2 ctx ++ le 2 opnum ++ stub)
    with (pdu_header_pack h ++ (fixed8 (len stub) ctx opnum ++ stub))
    by (unfold fixed8; cbn [concat]; rewrite app_nil_r, <- !app_assoc; reflexivity).
  rewrite patch_fraglen. eexists. split; [apply len_patched_header|]. reflexivity.
Qed.

(* the ept_map request of the conversation: sent in clear on the first connection, presentation context 0, opnum 3, the stub of
   the library's _EPT_MAP_ISD_KEY (= the model's structured ept_map for ISD_KEY over ncacn_ip_tcp, see ept_map_packed) *)
Lemma conversation_ept_request (wrap : wrap_fn) (unwrap : unwrap_fn) pv f legs dc sd rk l0 l1 l2 r t wire oargs :
  get_key_conversation f wrap unwrap pv legs dc sd rk l0 l1 l2 = (r, t) ->
  tr_ept_request t = Some (wire, oargs) ->
  oargs = None /\ exists hdr16, len hdr16 = 16 /\
    wire = hdr16 ++ fixed8 (len c_onl_ept_map_stub) c_onl_epm_ctx_id c_onl_ept_map_opnum ++ c_onl_ept_map_stub.
Proof.
  unfold get_key_conversation. intros H Hreq.
  destruct (bind_run false [] (ds_epm_srv dc) (context_ids epm_contexts)) as [rb s].
  destruct rb as [results|e].
  2:{ apply (f_equal snd) in H. cbn [snd] in H. subst t. discriminate. }
  destruct (process_bind_result _ results c_onl_epm_ctx_id) as [u|e].
  2:{ apply (f_equal snd) in H. cbn [snd] in H. subst t. discriminate. }
  assert (Hctx : match f with Sync => k_onl_sync_epm_ctx c_onl_epm_ctx_id | Async => k_onl_async_epm_ctx c_onl_epm_ctx_id end = c_onl_epm_ctx_id)
    by (destruct f; reflexivity).
  rewrite Hctx in H.
  destruct (rpc_request f wrap unwrap None (sign s) c_onl_epm_ctx_id c_onl_ept_map_opnum c_onl_ept_map_stub None (ds_ept_stream dc) (ds_sched dc))
    as [sent_req resp] eqn:Er.
  assert (Ht : tr_ept_request t = ok_opt sent_req).
  { destruct resp as [rsp|e]; [|apply (f_equal snd) in H; cbn [snd] in H; subst t; reflexivity].
    destruct (process_ept_map_result _ (rs_stub_data rsp)) as [[port ticks]|e]; [|apply (f_equal snd) in H; cbn [snd] in H; subst t; reflexivity].
    unfold isd_key_phase in H.
    destruct (bind_run true legs (ds_isd_srv dc) (context_ids isd_key_contexts)) as [rb2 s2].
    destruct rb2 as [results2|e]; [|apply (f_equal snd) in H; cbn [snd] in H; subst t; reflexivity].
    destruct (process_bind_result _ results2 c_onl_isd_ctx_id) as [u2|e]; [|apply (f_equal snd) in H; cbn [snd] in H; subst t; reflexivity].
    destruct (isd_request _ _ _ _ _ _ _ _) as [sr2 resp2].
    destruct resp2; apply (f_equal snd) in H; cbn [snd] in H; subst t; reflexivity. }
  rewrite Ht in Hreq. destruct sent_req as [[w oa]|e]; cbn [ok_opt] in Hreq; [|discriminate].
  assert (w = wire /\ oa = oargs) as [-> ->] by (split; congruence).
  unfold rpc_request in Er.
  destruct (send_request wrap None (sign s) c_onl_epm_ctx_id c_onl_ept_map_opnum c_onl_ept_map_stub None) as [sr|e] eqn:Es; [|discriminate].
  assert (sr = (wire, oargs)) by congruence. subst sr.
  exact (send_request_anon_inv _ _ _ _ _ _ _ Es).
Qed.

(* the presentation contexts offered: the first connection binds exactly _EPM_CONTEXTS anonymously; the second connection's Bind
   offers exactly _ISD_KEY_CONTEXTS, carries the provider's first token in a PKT_PRIVACY trailer and offers header signing; what
   follows on that connection are AlterContext PDUs *)
Lemma offered_contexts pv tok :
  b_contexts (bind_pdu_of_sent pv epm_contexts (SBind 0 None (context_ids epm_contexts))) = epm_contexts /\
  b_contexts (bind_pdu_of_sent pv isd_key_contexts (SBind 4 (Some tok) (context_ids isd_key_contexts))) = isd_key_contexts /\
  b_sec_trailer (bind_pdu_of_sent pv isd_key_contexts (SBind 4 (Some tok) (context_ids isd_key_contexts)))
    = Some {| st_type := pv_type pv; st_level := 6; st_pad_length := 0; st_context_id := 0; st_auth_value := tok |} /\
  h_packet_flags (b_header (bind_pdu_of_sent pv isd_key_contexts (SBind 4 (Some tok) (context_ids isd_key_contexts)))) = 7 /\
  h_packet_flags (b_header (bind_pdu_of_sent pv epm_contexts (SBind 0 None (context_ids epm_contexts)))) = 3.
Proof. repeat split. Qed.

Lemma conversation_binds (wrap : wrap_fn) (unwrap : unwrap_fn) pv f legs dc sd rk l0 l1 l2 r t :
  get_key_conversation f wrap unwrap pv legs dc sd rk l0 l1 l2 = (r, t) ->
  tr_epm_binds t = [bind_pdu_of_sent pv epm_contexts (SBind 0 None (context_ids epm_contexts))] /\
  forall p l ls, tr_port t = Some p -> legs = l :: ls ->
    exists alters, Forall is_alter alters /\
      tr_isd_binds t = bind_pdu_of_sent pv isd_key_contexts (SBind 4 (Some (leg_token l)) (context_ids isd_key_contexts))
                       :: map (bind_pdu_of_sent pv isd_key_contexts) alters.
Proof.
  unfold get_key_conversation. intros H.
  destruct (bind_run false [] (ds_epm_srv dc) (context_ids epm_contexts)) as [rb s] eqn:Eb.
  destruct (anonymous _ _ _ _ _ Eb) as (Htr & _).
  set (t1 := tr_epm tr0 (map (bind_pdu_of_sent pv epm_contexts) (trace s))) in *.
  assert (H1 : tr_epm_binds t1 = [bind_pdu_of_sent pv epm_contexts (SBind 0 None (context_ids epm_contexts))] /\ tr_port t1 = None)
    by (unfold t1; rewrite Htr; split; reflexivity).
  destruct rb as [results|e].
  2:{ apply (f_equal snd) in H. cbn [snd] in H. subst t. destruct H1 as [H1 H2]. split; [exact H1|]. intros p l ls Hp. congruence. }
  destruct (process_bind_result _ results c_onl_epm_ctx_id) as [u|e].
  2:{ apply (f_equal snd) in H. cbn [snd] in H. subst t. destruct H1 as [H1 H2]. split; [exact H1|]. intros p l ls Hp. congruence. }
  destruct (rpc_request f wrap unwrap None (sign s) _ c_onl_ept_map_opnum c_onl_ept_map_stub None (ds_ept_stream dc) (ds_sched dc)) as [sent_req resp].
  destruct resp as [rsp|e].
  2:{ apply (f_equal snd) in H. cbn [snd] in H. subst t. destruct H1 as [H1 H2]. split; [exact H1|]. intros p l ls Hp. cbn [tr_port tr_ept] in Hp. congruence. }
  destruct (process_ept_map_result _ (rs_stub_data rsp)) as [[port ticks]|e].
  2:{ apply (f_equal snd) in H. cbn [snd] in H. subst t. destruct H1 as [H1 H2]. split; [exact H1|]. intros p l ls Hp. cbn [tr_port tr_ept] in Hp. congruence. }
  unfold isd_key_phase in H.
  destruct (bind_run true legs (ds_isd_srv dc) (context_ids isd_key_contexts)) as [rb2 s2] eqn:Eb2.
  set (t2 := tr_isd _ _ _ _) in H.
  assert (H2 : tr_epm_binds t = tr_epm_binds t1 /\ tr_isd_binds t = map (bind_pdu_of_sent pv isd_key_contexts) (trace s2)).
  { destruct rb2 as [results2|e]; [|apply (f_equal snd) in H; cbn [snd] in H; subst t; split; reflexivity].
    destruct (process_bind_result _ results2 c_onl_isd_ctx_id) as [u2|e]; [|apply (f_equal snd) in H; cbn [snd] in H; subst t; split; reflexivity].
    destruct (isd_request _ _ _ _ _ _ _ _) as [sr2 resp2].
    destruct resp2; apply (f_equal snd) in H; cbn [snd] in H; subst t; split; reflexivity. }
  destruct H2 as [H2a H2b]. destruct H1 as [H1 _]. split; [congruence|].
  intros p l ls _ Hl. subst legs.
  destruct (tokens_out _ _ _ _ _ _ Eb2) as (alters & n & Htr2 & _ & Hal & _).
  exists alters. split; [exact Hal|]. rewrite H2b, Htr2. reflexivity.
Qed.
