(* Lemmas about the regenerated padding / offset / mask kernels of area rpc (closed by lia, so an
   algebraically equivalent rewrite of the source re-proves and a behavioural change breaks them). *)
From V Require Import Prelude.Base gen.K_rpc gen.C_rpc.

(* BindAck: pack and unpack use the same padding, it is 0..3 and aligns 2 + len to 4 *)
Lemma bindack_pad_agree n : k_bindack_pack_pad n = k_bindack_unpack_pad n.
Proof. unfold k_bindack_pack_pad, k_bindack_unpack_pad. lia. Qed.
Lemma bindack_pad_range n : 0 <= k_bindack_pack_pad n < 4 /\ (2 + n + k_bindack_pack_pad n) mod 4 = 0.
Proof. unfold k_bindack_pack_pad. lia. Qed.
Lemma bindnak_pad_range n : 0 <= k_bindnak_pad n < 4 /\ (2 + n + k_bindnak_pad n) mod 4 = 0.
Proof. unfold k_bindnak_pad. lia. Qed.

(* EptMap: pack and unpack agree; max_count(8) + length(4) + tower + pad is a multiple of 8 *)
Lemma eptmap_pad_agree n : k_eptmap_pack_pad n = k_eptmap_unpack_pad n.
Proof. unfold k_eptmap_pack_pad, k_eptmap_unpack_pad. lia. Qed.
Lemma eptmap_pad_range n : 0 <= k_eptmap_pack_pad n < 8 /\ (12 + n + k_eptmap_pack_pad n) mod 8 = 0.
Proof. unfold k_eptmap_pack_pad. lia. Qed.

(* EptMapResult: between two towers pack emits exactly the padding unpack skips (NDR64: the next
   conformant structure starts 8-aligned); after the last tower it aligns the status to 4. *)
Lemma eptres_pad_inner n idx cnt : 0 <= idx -> idx + 1 < cnt ->
  k_eptres_pack_pad n idx cnt = k_eptres_unpack_pad n.
Proof. unfold k_eptres_pack_pad, k_eptres_unpack_pad. intros. destruct (idx + 1 <? cnt) eqn:E; lia. Qed.
Lemma eptres_pad_last n idx cnt : idx + 1 = cnt ->
  0 <= k_eptres_pack_pad n idx cnt < 4 /\ (12 + n + k_eptres_pack_pad n idx cnt) mod 4 = 0.
Proof. unfold k_eptres_pack_pad. intros. destruct (idx + 1 <? cnt) eqn:E; lia. Qed.
Lemma eptres_unpack_pad_range n : 0 <= k_eptres_unpack_pad n < 8 /\ (12 + n + k_eptres_unpack_pad n) mod 8 = 0.
Proof. unfold k_eptres_unpack_pad. lia. Qed.
Lemma referent_skip_spec n : k_referent_skip n = 8 * n.
Proof. unfold k_referent_skip. lia. Qed.
Lemma count_guard_spec off n : k_eptres_count_guard off n = false <-> 48 + off <= n.
Proof. unfold k_eptres_count_guard. lia. Qed.
Lemma vt_guard_spec n : k_vt_guard n = false <-> 4 <= n.
Proof. unfold k_vt_guard. lia. Qed.
Lemma floor_offset_spec n : k_floor_offset n = n + 2.
Proof. unfold k_floor_offset. lia. Qed.
Lemma ept_status_bad_spec s : k_ept_status_bad s = negb (s =? 0).
Proof. unfold k_ept_status_bad. reflexivity. Qed.
Lemma pdu_has_trailer_spec n : k_pdu_has_trailer n = negb (n =? 0).
Proof. unfold k_pdu_has_trailer. reflexivity. Qed.

(* registries are exactly the keys the model dispatches on *)
Lemma pdu_registry_spec : c_PDU_registry = [c_PT_REQUEST; c_PT_RESPONSE; c_PT_FAULT; c_PT_BIND; c_PT_BIND_ACK; c_PT_BIND_NAK;
                                            c_PT_ALTER_CONTEXT; c_PT_ALTER_CONTEXT_RESP].
Proof. reflexivity. Qed.
Lemma cmd_registry_spec : c_CMD_registry = [c_CMD_BITMASK_1; c_CMD_PCONTEXT; c_CMD_HEADER2].
Proof. reflexivity. Qed.
Lemma floor_registry_spec : c_FLOOR_registry = [c_FLOOR_TCP; c_FLOOR_IP; c_FLOOR_RPC_CO; c_FLOOR_UUID].
Proof. reflexivity. Qed.
