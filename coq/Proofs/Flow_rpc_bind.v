(* Tie theorems for _rpc/_bind.py (SyntaxId, ContextElement, ContextResult, Bind, BindAck, BindNak, AlterContext,
   AlterContextResponse, bind_time_feature_negotiation) against Model/Bind.v; conventions as in Proofs/Flow_rpc_pdu.v.
   unpack functions with a `for _ in range(count)` loop: the model runs Model/RpcLoop.for_range on explicit fuel and
   also returns the iteration count; the tie holds whenever the model does not run out of fuel (C12_total_*: fuel >
   length suffices) and forgets the count (lift_fst).  Bind._unpack calls ContextElement.unpack := the model function
   at the world's fuel, so its tie is stated for the same fuel. *)
From V Require Import Prelude.Base Prelude.PyInt Prelude.PySlice Prelude.PyStr Prelude.PyAst Prelude.PyWorld gen.F_rpc.
From V Require Import Model.Pdu Model.Request Model.RpcLoop Model.Bind Model.Verification Model.Epm Flow.World_rpc Proofs.Flow_rpc_lib Proofs.Flow_rpc_pdu.
From V Require Import Proofs.RpcTotalLib Proofs.RpcTotalPdu.
Local Open Scope string_scope.
Local Open Scope list_scope.
Local Open Scope Z_scope.

Lemma flow_syntaxid_pack mf fuel s :
  run (W mf) fuel k_flow_syntaxid_pack [VO (OSyntaxId s)] = chk (syntax_id_ranges s) (syntax_id_pack s).
Proof. unfold syntax_id_pack, syntax_id_ranges, chk. destruct s; tie. Qed.

Lemma flow_syntaxid_unpack mf fuel data :
  run (W mf) fuel k_flow_syntaxid_unpack [VO (OCls CSyntaxId); VB data] = (let* s := syntax_id_unpack data in Ok (VO (OSyntaxId s))).
Proof. unfold syntax_id_unpack. tie. Qed.

Lemma flow_contextresult_pack mf fuel r :
  run (W mf) fuel k_flow_contextresult_pack [VO (OContextResult r)] = chk (context_result_ranges r) (context_result_pack r).
Proof. unfold context_result_pack, context_result_ranges, chk. destruct r; tie. Qed.

Lemma flow_contextresult_unpack mf fuel data :
  run (W mf) fuel k_flow_contextresult_unpack [VO (OCls CContextResult); VB data] =
  (let* r := context_result_unpack data in Ok (VO (OContextResult r))).
Proof. unfold context_result_unpack. tie. Qed.

Lemma flow_contextelement_pack mf fuel c :
  run (W mf) fuel k_flow_contextelement_pack [VO (OContextElement c)] = chk (context_element_ranges c) (context_element_pack c).
Proof.
  unfold context_element_pack, context_element_ranges, chk, k_flow_contextelement_pack. destruct c as [ci a ts].
  hide_comps. tie. all: comp_step OSyntaxId syntax_id_ranges syntax_id_pack; tie.
Qed.


Lemma syntaxes_of_inj l : syntaxes_of (map (fun s => VO (OSyntaxId s)) l) = Some l.
Proof. induction l as [|a r IH]; [reflexivity|]. cbn. rewrite IH. reflexivity. Qed.

Lemma flow_contextelement_unpack mf mfuel fuel data :
  context_element_unpack mfuel data <> Raise OutOfFuel ->
  run (W mf) fuel k_flow_contextelement_unpack [VO (OCls CContextElement); VB data] =
  lift_fst OContextElement (context_element_unpack mfuel data).
Proof.
  unfold context_element_unpack, lift_fst, k_flow_contextelement_unpack. intros Hne.
  match goal with |- context [SFor ?a ?b ?c] => remember (SFor a b c) as loop end.
  tie. subst loop. rewrite exec_for. cbn.
  match goal with |- context [for_each _ _ _ ?body (zrange (Z.to_nat ?n) 0) ?env] =>
    match goal with |- context [for_range mfuel n ?mbody ?s0 0] =>
      pose proof (for_range_tie (W mf) fuel "_" body mbody
        (fun s e => lookup "view" e = Some (VB (fst s)) /\ lookup "transfer_syntaxes" e = Some (vsyntaxes (snd s))
                    /\ lookup "cls" e = Some (VO (OCls CContextElement))
                    /\ lookup "context_id" e = Some (VI (le_val (slice None (Some 2) data)))
                    /\ lookup "abstract_syntax" e = Some (VO (OSyntaxId a)))) as HL;
      specialize (fun Hb => HL Hb mfuel n s0 env 0 0)
    end
  end.
  match type of HL with ?A -> _ => assert (Hb : A) end.
  { intros [view acc] env v (Hv & Ht & Hc & Hi & Ha). cbn [fst snd] in *.
    tie.
    - eexists; split; [reflexivity|]. cbn. unfold vsyntaxes. rewrite map_app. cbn. auto.
  }
  specialize (HL Hb). cbn [fst snd] in HL. clear Hb.
  match type of HL with ?A -> _ => assert (HR : A) by (cbn; auto) end.
  specialize (HL HR). clear HR. cbn [bind] in Hne.
  destruct (for_range _ _ _ _ _) as [[[view' acc'] t]|e] eqn:EF.
  - destruct HL as [env' [He (Hv & Ht & Hc & Hi & Ha)]]; [congruence|]. cbn [fst snd] in *.
    rewrite He. unfold vsyntaxes in *. tie. rewrite syntaxes_of_inj. reflexivity.
  - rewrite HL by (cbn in Hne; congruence). reflexivity.
Qed.

Lemma contexts_of_inj l : contexts_of (map (fun s => VO (OContextElement s)) l) = Some l.
Proof. induction l as [|a r IH]; [reflexivity|]. cbn. rewrite IH. reflexivity. Qed.
Lemma results_of_inj l : results_of (map (fun s => VO (OContextResult s)) l) = Some l.
Proof. induction l as [|a r IH]; [reflexivity|]. cbn. rewrite IH. reflexivity. Qed.
Lemma versions_of_inj l : versions_of (map (fun v => VT [VI (fst v); VI (snd v)]) l) = Some l.
Proof. induction l as [|[a b] r IH]; [reflexivity|]. cbn. rewrite IH. reflexivity. Qed.

Lemma flow_bind_unpack_as c mf fuel data h st : (c = CBind \/ c = CAlterContext) ->
  bind_unpack mf data h st <> Raise OutOfFuel ->
  run (W mf) fuel k_flow_bind_unpack [VO (OCls c); VB data; VO (OHeader h); vst st] =
  lift_fst OBind (bind_unpack mf data h st).
Proof.
  unfold bind_unpack, lift_fst, k_flow_bind_unpack. intros Hc Hne.
  match goal with |- context [SFor ?a ?b ?c] => remember (SFor a b c) as loop end.
  tie. subst loop. rewrite exec_for. cbn.
  loop_setup (fun (s : bytes * list context_element) (e : @penv V) =>
     lookup "view" e = Some (VB (fst s)) /\ lookup "contexts" e = Some (vcontexts (snd s))
     /\ lookup "cls" e = Some (VO (OCls c)) /\ lookup "header" e = Some (VO (OHeader h)) /\ lookup "sec_trailer" e = Some (vst st)
     /\ lookup "max_xmit_frag" e = Some (VI (le_val (slice None (Some 2) data)))
     /\ lookup "max_recv_frag" e = Some (VI (le_val (slice (Some 2) (Some 4) data)))
     /\ lookup "assoc_group" e = Some (VI (le_val (slice (Some 4) (Some 8) data)))).
  match type of HL with ?A -> _ => assert (Hb : A) end.
  { intros [view acc] env v (Hv & Ht & H1 & H2 & H3 & H4 & H5 & H6). cbn [fst snd] in *.
    unfold lift_fst. tie.
    eexists; split; [reflexivity|]. cbn. unfold vcontexts. rewrite map_app. cbn. repeat split; auto. }
  specialize (HL Hb). cbn [fst snd] in HL. clear Hb.
  match type of HL with ?A -> _ => assert (HR : A) by (cbn; repeat split; auto) end.
  specialize (HL HR). clear HR. cbn [bind] in Hne.
  destruct (for_range _ _ _ _ _) as [[[view' acc'] t]|e] eqn:EF.
  - destruct HL as [env' [He (Hv & Ht & H1 & H2 & H3 & H4 & H5 & H6)]]; [congruence|]. cbn [fst snd] in *.
    rewrite He. unfold vcontexts in *. tie.
    destruct Hc; subst c; destruct st; cbn; rewrite contexts_of_inj; reflexivity.
  - rewrite HL by (cbn in Hne; congruence). reflexivity.
Qed.

Lemma flow_bindack_unpack_as c mf mfuel fuel data h st : (c = CBindAck \/ c = CAlterContextResponse) ->
  bind_ack_unpack mfuel data h st <> Raise OutOfFuel ->
  run (W mf) fuel k_flow_bindack_unpack [VO (OCls c); VB data; VO (OHeader h); vst st] =
  lift_fst OBindAck (bind_ack_unpack mfuel data h st).
Proof.
  unfold bind_ack_unpack, lift_fst, k_flow_bindack_unpack, k_bindack_unpack_pad. intros Hc Hne.
  match goal with |- context [SFor ?a ?b ?c] => remember (SFor a b c) as loop end.
  tie. subst loop. rewrite exec_for. cbn.
  match goal with H : utf8_decode _ = Ok ?l |- _ => rename l into sa end.
  loop_setup (fun (s : bytes * list context_result) (e : @penv V) =>
     lookup "view" e = Some (VB (fst s)) /\ lookup "results" e = Some (vresults (snd s))
     /\ lookup "cls" e = Some (VO (OCls c)) /\ lookup "header" e = Some (VO (OHeader h)) /\ lookup "sec_trailer" e = Some (vst st)
     /\ lookup "max_xmit_frag" e = Some (VI (le_val (slice None (Some 2) data)))
     /\ lookup "max_recv_frag" e = Some (VI (le_val (slice (Some 2) (Some 4) data)))
     /\ lookup "assoc_group" e = Some (VI (le_val (slice (Some 4) (Some 8) data)))
     /\ lookup "sec_addr" e = Some (VS sa)).
  match type of HL with ?A -> _ => assert (Hb : A) end.
  { intros [view acc] env v (Hv & Ht & H1 & H2 & H3 & H4 & H5 & H6 & H7). cbn [fst snd] in *.
    tie.
    eexists; split; [reflexivity|]. cbn. unfold vresults. rewrite map_app. cbn. repeat split; auto. }
  specialize (HL Hb). cbn [fst snd] in HL. clear Hb.
  match type of HL with ?A -> _ => assert (HR : A) by (cbn; repeat split; auto) end.
  specialize (HL HR). clear HR. cbn [bind] in Hne.
  destruct (for_range _ _ _ _ _) as [[[view' acc'] t]|e] eqn:EF.
  - destruct HL as [env' [He (Hv & Ht & H1 & H2 & H3 & H4 & H5 & H6 & H7)]]; [congruence|]. cbn [fst snd] in *.
    rewrite He. unfold vresults in *. tie.
    destruct Hc; subst c; destruct st; cbn; rewrite results_of_inj; reflexivity.
  - rewrite HL by (cbn in Hne; congruence). reflexivity.
Qed.

(* BindNak._unpack passes sec_trailer=None whatever it was given *)
Lemma flow_bindnak_unpack mf mfuel fuel data h st :
  bind_nak_unpack mfuel data h st <> Raise OutOfFuel ->
  run (W mf) fuel k_flow_bindnak_unpack [VO (OCls CBindNak); VB data; VO (OHeader h); vst st] =
  lift_fst OBindNak (bind_nak_unpack mfuel data h st).
Proof.
  unfold bind_nak_unpack, lift_fst, k_flow_bindnak_unpack. intros Hne.
  match goal with |- context [SFor ?a ?b ?c] => remember (SFor a b c) as loop end.
  tie. subst loop. rewrite exec_for. cbn.
  loop_setup (fun (s : bytes * list (Z * Z)) (e : @penv V) =>
     lookup "view" e = Some (VB (fst s)) /\ lookup "versions" e = Some (vversions (snd s))
     /\ lookup "cls" e = Some (VO (OCls CBindNak)) /\ lookup "header" e = Some (VO (OHeader h))
     /\ lookup "reject_reason" e = Some (VI (le_val (slice None (Some 2) data)))).
  match type of HL with ?A -> _ => assert (Hb : A) end.
  { intros [view acc] env v (Hv & Ht & H1 & H2 & H3). cbn [fst snd] in *.
    tie.
    eexists; split; [reflexivity|]. cbn. unfold vversions. rewrite map_app. cbn. repeat split; auto. }
  specialize (HL Hb). cbn [fst snd] in HL. clear Hb.
  match type of HL with ?A -> _ => assert (HR : A) by (cbn; repeat split; auto) end.
  specialize (HL HR). clear HR. cbn [bind] in Hne.
  destruct (for_range _ _ _ _ _) as [[[view' acc'] t]|e] eqn:EF.
  - destruct HL as [env' [He (Hv & Ht & H1 & H2 & H3)]]; [congruence|]. cbn [fst snd] in *.
    rewrite He. unfold vversions in *. tie. rewrite versions_of_inj. reflexivity.
  - rewrite HL by (cbn in Hne; congruence). reflexivity.
Qed.

Lemma flow_bind_unpack mf fuel data h st : bind_unpack mf data h st <> Raise OutOfFuel ->
  run (W mf) fuel k_flow_bind_unpack [VO (OCls CBind); VB data; VO (OHeader h); vst st] = lift_fst OBind (bind_unpack mf data h st).
Proof. apply flow_bind_unpack_as. auto. Qed.
Lemma flow_bindack_unpack mf mfuel fuel data h st : bind_ack_unpack mfuel data h st <> Raise OutOfFuel ->
  run (W mf) fuel k_flow_bindack_unpack [VO (OCls CBindAck); VB data; VO (OHeader h); vst st] = lift_fst OBindAck (bind_ack_unpack mfuel data h st).
Proof. apply flow_bindack_unpack_as. auto. Qed.

(* AlterContext._unpack = Bind._unpack.__func__(cls, ..), AlterContextResponse._unpack = BindAck._unpack.__func__(cls, ..):
   the callee is the model function (tied to Bind._unpack / BindAck._unpack run with cls = the subclass just below) *)
Lemma flow_altercontext_unpack mf fuel data h st :
  run (W mf) fuel k_flow_altercontext_unpack [VO (OCls CAlterContext); VB data; VO (OHeader h); vst st] =
  lift_fst OBind (bind_unpack mf data h st).
Proof. unfold lift_fst. destruct st; tie. Qed.
Lemma flow_altercontext_unpack_body mf fuel data h st : bind_unpack mf data h st <> Raise OutOfFuel ->
  run (W mf) fuel k_flow_bind_unpack [VO (OCls CAlterContext); VB data; VO (OHeader h); vst st] = lift_fst OBind (bind_unpack mf data h st).
Proof. apply flow_bind_unpack_as. auto. Qed.
Lemma flow_altercontextresponse_unpack mf fuel data h st :
  run (W mf) fuel k_flow_altercontextresponse_unpack [VO (OCls CAlterContextResponse); VB data; VO (OHeader h); vst st] =
  lift_fst OBindAck (bind_ack_unpack mf data h st).
Proof. unfold lift_fst. destruct st; tie. Qed.
Lemma flow_altercontextresponse_unpack_body mf mfuel fuel data h st : bind_ack_unpack mfuel data h st <> Raise OutOfFuel ->
  run (W mf) fuel k_flow_bindack_unpack [VO (OCls CAlterContextResponse); VB data; VO (OHeader h); vst st] = lift_fst OBindAck (bind_ack_unpack mfuel data h st).
Proof. apply flow_bindack_unpack_as. auto. Qed.

Lemma flow_bind_pack mf fuel m :
  run (W mf) fuel k_flow_bind_pack [VO (OBind m)] = chk (bind_ranges m) (bind_pack m).
Proof.
  unfold bind_pack, bind_body, opt_sec_trailer_pack, bind_ranges, chk, k_flow_bind_pack. destruct m as [h [st|] mx mr ag cs].
  all: hide_comps; tie. all: comp_step OContextElement context_element_ranges context_element_pack; tie.
Qed.


Lemma flow_bindack_pack mf fuel m :
  run (W mf) fuel k_flow_bindack_pack [VO (OBindAck m)] =
  (let* bsa := sec_addr_bytes (ba_sec_addr m) in
   chk (bind_ack_ranges m bsa)
       (pdu_header_pack (ba_header m) ++ bind_ack_body_of m bsa ++ opt_sec_trailer_pack (ba_sec_trailer m))).
Proof.
  unfold sec_addr_bytes, bind_ack_body_of, opt_sec_trailer_pack, bind_ack_ranges, chk, k_flow_bindack_pack, k_bindack_pack_pad.
  destruct m as [h st mx mr ag sa rs].
  match goal with |- context [SAssign ["b_result"] ?e] => remember e as jc eqn:Hjc end.
  destruct sa as [|ch sa].
  - destruct st as [st|]; tie. all: comp_step OContextResult context_result_ranges context_result_pack; tie.
  - assert (Hl : (len (ch :: sa) =? 0) = false) by (rewrite len_cons; pose proof (len_nonneg sa); lia).
    destruct st as [st|]; tie1; rewrite Hl; tie. all: comp_step OContextResult context_result_ranges context_result_pack; tie.
Qed.


Definition nak_protocol (v : Z * Z) : bytes := le 1 (fst v) ++ le 1 (snd v).
Lemma comp_nak_protocols mf : forall l env,
  comp_each (W mf)
    (PBin "+" (PMeth "to_bytes/byteorder" (PSub (PName "v") (PInt 0)) [PInt 1; PStr [108; 105; 116; 116; 108; 101]])
              (PMeth "to_bytes/byteorder" (PSub (PName "v") (PInt 1)) [PInt 1; PStr [108; 105; 116; 116; 108; 101]]))
    ["v"] [] (map (fun v => VT [VI (fst v); VI (snd v)]) l) env
  = if forallb (fun v => in_range 1 (fst v) && in_range 1 (snd v)) l then Ok (map VB (map nak_protocol l)) else Raise OverflowError.
Proof.
  induction l as [|[a b] r IH]; intros env; [reflexivity|].
  cbn [map forallb fst snd]. rewrite comp_each_cons. tie. all: rewrite ?IH; tie. destruct (forallb _ r); reflexivity.
Qed.

Lemma flow_bindnak_pack mf fuel m :
  run (W mf) fuel k_flow_bindnak_pack [VO (OBindNak m)] = chk (bind_nak_ranges m) (bind_nak_pack m).
Proof.
  unfold bind_nak_pack, bind_nak_body, bind_nak_ranges, chk, k_flow_bindnak_pack, k_bindnak_pad. destruct m as [h st rr vs].
  match goal with |- context [SAssign ["protocols"] ?e] => remember e as pc eqn:Hpc end.
  tie1. rewrite Hpc, eval_comp. cbn. unfold vversions. cbn. rewrite comp_nak_protocols.
  destruct (forallb _ vs); [|reflexivity].
  tie.
  all: rewrite ?repeat_list_0, ?len_map; try reflexivity.
Qed.

(* bind_time_feature_negotiation(flags): flags is a BindTimeFeatureNegotiation IntFlag; uuid.UUID(fields=..) wants an octet *)
Lemma flow_btfn mf fuel flags :
  run (W mf) fuel k_flow_btfn [VI flags] =
  if in_range 1 flags then Ok (VO (OSyntaxId (bind_time_feature_negotiation flags))) else Raise ValueError.
Proof.
  unfold bind_time_feature_negotiation. cbn. unfold uuid_of_fields.
  replace (in_range 4 1823939628) with true by reflexivity.
  replace (in_range 2 38930) with true by reflexivity.
  replace (in_range 2 17728) with true by reflexivity.
  replace (in_range 1 0) with true by reflexivity.
  replace (in_range 6 0) with true by reflexivity.
  cbn [andb]. rewrite andb_true_r. destruct (in_range 1 flags); reflexivity.
Qed.

(* ---- with the fuel of C12_total_*: fuel > length of the input suffices, for every input ---- *)
Lemma flow_contextelement_unpack_total mf mfuel fuel data : len data < Z.of_nat mfuel ->
  run (W mf) fuel k_flow_contextelement_unpack [VO (OCls CContextElement); VB data] =
  lift_fst OContextElement (context_element_unpack mfuel data).
Proof. intros H. apply flow_contextelement_unpack. apply noof_spec. exact (proj1 (context_element_unpack_total mfuel data H)). Qed.
Lemma flow_bind_unpack_total mf fuel data h st : len data < Z.of_nat mf ->
  run (W mf) fuel k_flow_bind_unpack [VO (OCls CBind); VB data; VO (OHeader h); vst st] = lift_fst OBind (bind_unpack mf data h st).
Proof. intros H. apply flow_bind_unpack. exact (proj1 (total_le_spec _ _ (bind_unpack_total mf data h st H))). Qed.
Lemma flow_bindack_unpack_total mf mfuel fuel data h st : len data < Z.of_nat mfuel ->
  run (W mf) fuel k_flow_bindack_unpack [VO (OCls CBindAck); VB data; VO (OHeader h); vst st] = lift_fst OBindAck (bind_ack_unpack mfuel data h st).
Proof. intros H. apply flow_bindack_unpack. exact (proj1 (total_le_spec _ _ (bind_ack_unpack_total mfuel data h st H))). Qed.
Lemma flow_bindnak_unpack_total mf mfuel fuel data h st : len data < Z.of_nat mfuel ->
  run (W mf) fuel k_flow_bindnak_unpack [VO (OCls CBindNak); VB data; VO (OHeader h); vst st] = lift_fst OBindNak (bind_nak_unpack mfuel data h st).
Proof. intros H. apply flow_bindnak_unpack. exact (proj1 (total_le_spec _ _ (bind_nak_unpack_total mfuel data h st H))). Qed.

(* ---- well-formed values are in range ---- *)
Lemma forallb_impl {A} (f g : A -> bool) l : (forall x, f x = true -> g x = true) -> forallb f l = true -> forallb g l = true.
Proof. intros Hfg. rewrite !forallb_forall. intros H x Hx. apply Hfg, H, Hx. Qed.
Lemma in_range_1_4 x : in_range 1 x = true -> in_range 4 x = true.
Proof. unfold in_range. rewrite P_1, P_4. lia. Qed.

Lemma wf_syntax_id_ranges s : wf_syntax_id s = true -> syntax_id_ranges s = true.
Proof. unfold wf_syntax_id, syntax_id_ranges. intros H. split_wf H. use_true. Qed.
Lemma wf_context_element_ranges c : wf_context_element c = true -> context_element_ranges c = true.
Proof.
  unfold wf_context_element, context_element_ranges. intros H. split_wf H.
  pose proof (wf_syntax_id_ranges _ H2). pose proof (forallb_impl _ _ _ wf_syntax_id_ranges H1). use_true.
Qed.
Lemma wf_context_result_ranges r : wf_context_result r = true -> context_result_ranges r = true.
Proof.
  unfold wf_context_result, context_result_ranges. intros H. split_wf H.
  pose proof (mem_in_range 2 _ c_ContextResultCode_values eq_refl H). use_true.
Qed.
Lemma wf_bind_ranges pt m : wf_bind_as pt m = true -> bind_ranges m = true.
Proof.
  unfold wf_bind_as, bind_ranges. intros H. split_wf H.
  match goal with H : in_range 1 _ = true |- _ => pose proof (in_range_1_4 _ H) end.
  match goal with H : forallb wf_context_element _ = true |- _ => pose proof (forallb_impl _ _ _ wf_context_element_ranges H) end.
  wf_msg.
Qed.
Lemma wf_bind_ack_ranges pt m packed bsa : wf_bind_ack_as pt m packed bsa = true -> bind_ack_ranges m bsa = true.
Proof.
  unfold wf_bind_ack_as, bind_ack_ranges. intros H. split_wf H.
  match goal with H : in_range 1 _ = true |- _ => pose proof (in_range_1_4 _ H) end.
  match goal with H : forallb wf_context_result _ = true |- _ => pose proof (forallb_impl _ _ _ wf_context_result_ranges H) end.
  wf_msg.
Qed.

(* Bind / AlterContext (pt = c_PT_BIND / c_PT_ALTER_CONTEXT) and BindAck / AlterContextResponse on well-formed messages *)
Lemma flow_bind_pack_wf mf fuel pt m : wf_bind_as pt m = true ->
  run (W mf) fuel k_flow_bind_pack [VO (OBind m)] = Ok (VB (bind_pack m)).
Proof. intros H. rewrite flow_bind_pack, (wf_bind_ranges pt m H). reflexivity. Qed.
Lemma flow_bindack_pack_wf mf fuel pt m packed bsa :
  sec_addr_bytes (ba_sec_addr m) = Ok bsa -> wf_bind_ack_as pt m packed bsa = true ->
  run (W mf) fuel k_flow_bindack_pack [VO (OBindAck m)] = (let* p := bind_ack_pack m in Ok (VB p)).
Proof.
  intros Hs H. rewrite flow_bindack_pack. unfold bind_ack_pack. rewrite Hs. cbn [bind].
  rewrite (wf_bind_ack_ranges pt m packed bsa H). reflexivity.
Qed.
