(* Tie theorems, CMS decoders (_pkcs7.py X.unpack, _blob.py ProtectionDescriptor.unpack / DPAPINGBlob.unpack): the regenerated
   syntax (gen/F_asn1.v), run by Prelude/PyAstMut.v in the world Flow/World_cms.v, returns exactly what the hand-written model
   functions of Model/Pkcs7.v / Model/Blob.v (the ones the C06 / C05 theorems are about) return.
   `value_of (run_mut ..)` is the returned value.  For the unpack(reader) functions the reader afterwards is NOT part of the
   statement: the body rebinds the local name (`reader = reader.read_sequence()`), so the caller's advanced reader is shadowed in
   the final environment (single-owner values, no aliasing); the world gives callers the model's `view afterwards`. *)
From V Require Import Prelude.PyAst.
From V Require Import Prelude.Base Prelude.PyInt Prelude.PySlice Prelude.PyStr Prelude.PyWorld Prelude.PyAstMut gen.K_asn1 gen.C_asn1 gen.F_asn1.
From V Require Import Model.Types Model.KeyId Model.Asn1 Model.Pkcs7 Model.Blob Flow.World_cms.
Local Open Scope string_scope.
Local Open Scope list_scope.
Local Open Scope Z_scope.

Arguments len : simpl never.
Arguments read_sequence : simpl never.
Arguments read_set : simpl never.
Arguments read_octet_string : simpl never.
Arguments read_integer : simpl never.
Arguments read_object_identifier : simpl never.
Arguments read_utf8_string : simpl never.
Arguments read_generalized_time : simpl never.
Arguments peek_header : simpl never.
Arguments reader_bool : simpl never.

Lemma flow_AlgorithmIdentifier_unpack fuel cls view :
  value_of (run_mut MW fuel k_flow_AlgorithmIdentifier_unpack [cls; VO (OReader view)])
  = let* (a, _) := AlgorithmIdentifier_unpack view in Ok (VO (OAlg a)).
Proof.
  unfold AlgorithmIdentifier_unpack, value_of. cbn.
  destruct (read_sequence view None None) as [[r view']|e]; cbn; [|reflexivity].
  destruct (read_object_identifier r None None) as [[alg r']|e]; cbn; [|reflexivity].
  destruct (reader_bool r'); cbn; reflexivity.
Qed.

Lemma opt_of_hdr h : opt_of as_hdr (vopt_hdr h) = Some h.
Proof. destruct h; reflexivity. Qed.

Lemma flow_OtherKeyAttribute_unpack fuel cls view h :
  value_of (run_mut MW fuel k_flow_OtherKeyAttribute_unpack [cls; VO (OReader view); vopt_hdr h])
  = let* (a, _) := OtherKeyAttribute_unpack view h in Ok (VO (OOka a)).
Proof.
  unfold OtherKeyAttribute_unpack, value_of. cbn. rewrite opt_of_hdr. cbn.
  destruct (read_sequence view None h) as [[r view']|e]; cbn; [|reflexivity].
  destruct (read_object_identifier r None None) as [[alg r']|e]; cbn; [|reflexivity].
  destruct (reader_bool r'); cbn; reflexivity.
Qed.

Lemma flow_ContentInfo_unpack fuel cls data h :
  value_of (run_mut MW fuel k_flow_ContentInfo_unpack [cls; VB data; vopt_hdr h])
  = let* c := ContentInfo_unpack data h in Ok (VO (OCi c)).
Proof.
  unfold ContentInfo_unpack, value_of. cbn. rewrite opt_of_hdr. cbn.
  destruct (read_sequence data None h) as [[r view']|e]; cbn; [|reflexivity].
  destruct (read_object_identifier r None None) as [[ct r']|e]; cbn; [|reflexivity].
  destruct (read_octet_string r' _ None) as [[c r'']|e]; cbn; reflexivity.
Qed.

Ltac step := unfold test, rd, wr, unpack_mut, pack_mut; cbn.

Lemma flow_KEKIdentifier_unpack fuel cls view :
  value_of (run_mut MW fuel k_flow_KEKIdentifier_unpack [cls; VO (OReader view)])
  = let* (k, _) := KEKIdentifier_unpack view in Ok (VO (OKekId k)).
Proof.
  unfold KEKIdentifier_unpack, value_of. cbn.
  destruct (read_sequence view None None) as [[r view']|e]; cbn; [|reflexivity].
  destruct (read_octet_string r None None) as [[kid r1]|e]; cbn; [|reflexivity].
  destruct (peek_header r1) as [h|e]; cbn; [|reflexivity].
  step.
  destruct (t_class (h_tag h) =? c_class_universal) eqn:E1; cbn.
  - destruct (t_num (h_tag h) =? c_tag_gentime) eqn:E2; step.
    + destruct (read_generalized_time r1 None (Some h)) as [[d r2]|e]; cbn; [|reflexivity].
      destruct (peek_header r2) as [h2|e]; cbn; [|reflexivity].
      step.
      destruct (t_class (h_tag h2) =? c_class_universal) eqn:E3; cbn; [|reflexivity].
      destruct (t_num (h_tag h2) =? c_tag_sequence) eqn:E4; step; [|reflexivity].
      destruct (OtherKeyAttribute_unpack r2 (Some h2)) as [[o r3]|e]; cbn; reflexivity.
    + rewrite E1. cbn.
      destruct (t_num (h_tag h) =? c_tag_sequence) eqn:E4; step; [|reflexivity].
      destruct (OtherKeyAttribute_unpack r1 (Some h)) as [[o r3]|e]; cbn; reflexivity.
  - rewrite E1. cbn. reflexivity.
Qed.

(* RecipientInfo.unpack does not rebind `reader`: the full statement, value AND the reader afterwards *)
Lemma flow_RecipientInfo_unpack fuel cls view :
  run_mut MW fuel k_flow_RecipientInfo_unpack [cls; VO (OReader view)]
  = let* (k, rest) := RecipientInfo_unpack view in Ok (VO (OKri k), [cls; VO (OReader rest)]).
Proof.
  unfold RecipientInfo_unpack. cbn.
  destruct (peek_header view) as [h|e]; cbn; [|reflexivity].
  step.
  destruct (t_class (h_tag h) =? c_class_context) eqn:E1; cbn; [|reflexivity].
  destruct (t_num (h_tag h) =? c_kekri_choice) eqn:E2; step; [|reflexivity].
  destruct (KEKRecipientInfo_unpack view (Some h)) as [[o r3]|e]; cbn; reflexivity.
Qed.

Lemma flow_EncryptedContentInfo_unpack fuel cls view :
  value_of (run_mut MW fuel k_flow_EncryptedContentInfo_unpack [cls; VO (OReader view)])
  = let* (k, _) := EncryptedContentInfo_unpack view in Ok (VO (OEci k)).
Proof.
  unfold EncryptedContentInfo_unpack, value_of. cbn.
  destruct (read_sequence view None None) as [[r view']|e]; cbn; [|reflexivity].
  destruct (read_object_identifier r None None) as [[ct r1]|e]; cbn; [|reflexivity].
  step.
  destruct (AlgorithmIdentifier_unpack r1) as [[a r2]|e]; cbn; [|reflexivity].
  step.
  destruct (reader_bool r2); step; [|reflexivity].
  destruct (read_octet_string r2 _ None) as [[c r3]|e]; cbn; reflexivity.
Qed.

Lemma flow_KEKRecipientInfo_unpack fuel cls view h :
  value_of (run_mut MW fuel k_flow_KEKRecipientInfo_unpack [cls; VO (OReader view); vopt_hdr h])
  = let* (k, _) := KEKRecipientInfo_unpack view h in Ok (VO (OKri k)).
Proof.
  unfold KEKRecipientInfo_unpack, value_of. cbn. rewrite opt_of_hdr. cbn.
  destruct (read_sequence view None h) as [[r view']|e]; cbn; [|reflexivity].
  destruct (read_integer r None None) as [[v r1]|e]; cbn; [|reflexivity].
  step.
  destruct (KEKIdentifier_unpack r1) as [[k r2]|e]; cbn; [|reflexivity].
  step.
  destruct (AlgorithmIdentifier_unpack r2) as [[a r3]|e]; cbn; [|reflexivity].
  destruct (read_octet_string r3 None None) as [[c r4]|e]; cbn; reflexivity.
Qed.

(* ---- EnvelopedData.unpack: the `while recipient_infos_reader:` loop ---- *)
Definition wloop (c : pexp) (bodyf : penv -> res outcome) : nat -> penv -> res outcome :=
  fix loop (n : nat) (env : penv) : res outcome :=
    match n with
    | O => Raise OutOfFuel
    | S n' => let* (t, env1) := test MW env c in
              if t then let* o := bodyf env1 in
                        match o with
                        | Next env' | Cont env' => loop n' env'
                        | Brk env' => Ok (Next env')
                        | Ret v envr => Ok (Ret v envr)
                        end
              else Ok (Next env1)
    end.

Definition ris_cond : pexp := PName "recipient_infos_reader".
Definition ris_body : list pstmt :=
  [ SAssign ["info"] (PCall "RecipientInfo.unpack" [(PName "recipient_infos_reader")]);
    SExpr (PMeth "append" (PName "recipient_infos") [(PName "info")]) ].

Lemma while_eq fuel env :
  exec MW fuel env (SWhile ris_cond ris_body) = wloop ris_cond (exec_block MW fuel ris_body) fuel env.
Proof. reflexivity. Qed.

Lemma vkris_snoc acc i : vkris (acc ++ [i]) = VL (map (fun r => VO (OKri r)) acc ++ [VO (OKri i)]).
Proof. unfold vkris. rewrite map_app. reflexivity. Qed.

Definition ris_next (env : penv) (i : kek_recipient_info) (v' : bytes) (acc : list kek_recipient_info) : penv :=
  update "recipient_infos" (vkris (acc ++ [i]))
    (update "info" (VO (OKri i)) (update "recipient_infos_reader" (VO (OReader v')) env)).

Lemma ris_body_step fuel0 env v acc :
  lookup "recipient_infos_reader" env = Some (VO (OReader v)) ->
  lookup "recipient_infos" env = Some (vkris acc) ->
  exec_block MW fuel0 ris_body env
  = let* (i, v') := RecipientInfo_unpack v in Ok (Next (ris_next env i v' acc)).
Proof.
  intros Hr Ha. unfold ris_body, ris_next. cbn. rewrite Hr. cbn. unfold unpack_mut.
  destruct (RecipientInfo_unpack v) as [[i v']|e]; cbn; [|reflexivity].
  repeat (progress (rewrite ?Hr, ?Ha); cbn). rewrite vkris_snoc. reflexivity.
Qed.

Lemma wloop_S c bf n env :
  wloop c bf (S n) env
  = let* (t, env1) := test MW env c in
    if t then let* o := bf env1 in
              match o with
              | Next env' | Cont env' => wloop c bf n env'
              | Brk env' => Ok (Next env')
              | Ret v envr => Ok (Ret v envr)
              end
    else Ok (Next env1).
Proof. reflexivity. Qed.

Lemma ris_test env v : lookup "recipient_infos_reader" env = Some (VO (OReader v)) ->
  test MW env ris_cond = Ok (reader_bool v, env).
Proof. intros Hr. unfold test, ris_cond. cbn. rewrite Hr. reflexivity. Qed.

Lemma ris_loop (bf : penv -> res outcome)
  (Hstep : forall env v acc, lookup "recipient_infos_reader" env = Some (VO (OReader v)) ->
             lookup "recipient_infos" env = Some (vkris acc) ->
             bf env = let* (i, v') := RecipientInfo_unpack v in Ok (Next (ris_next env i v' acc))) :
  forall n m v env acc,
  (n < m)%nat ->
  RecipientInfos_unpack n v <> Raise OutOfFuel ->
  lookup "recipient_infos_reader" env = Some (VO (OReader v)) ->
  lookup "recipient_infos" env = Some (vkris acc) ->
  match RecipientInfos_unpack n v with
  | Ok l => exists env', wloop ris_cond bf m env = Ok (Next env')
                         /\ lookup "recipient_infos" env' = Some (vkris (acc ++ l))
                         /\ (forall x, String.eqb x "recipient_infos_reader" = false -> String.eqb x "recipient_infos" = false ->
                                       String.eqb x "info" = false -> lookup x env' = lookup x env)
  | Raise e => wloop ris_cond bf m env = Raise e
  end.
Proof.
  induction n as [|n IH]; intros m v env acc Hm Hoof Hr Ha; (destruct m as [|m]; [lia|]);
    rewrite wloop_S, (ris_test env v Hr); cbn [bind]; cbn [RecipientInfos_unpack] in *.
  - destruct (reader_bool v); [congruence|].
    exists env. rewrite app_nil_r. auto.
  - destruct (reader_bool v).
    2:{ exists env. rewrite app_nil_r. auto. }
    rewrite (Hstep env v acc Hr Ha).
    destruct (RecipientInfo_unpack v) as [[i v']|e]; cbn [bind]; [|reflexivity].
    specialize (IH m v' (ris_next env i v' acc) (acc ++ [i])).
    assert (Hm' : (n < m)%nat) by lia.
    assert (L1 : lookup "recipient_infos_reader" (ris_next env i v' acc) = Some (VO (OReader v'))) by reflexivity.
    assert (L2 : lookup "recipient_infos" (ris_next env i v' acc) = Some (vkris (acc ++ [i]))) by reflexivity.
    cbn [bind] in Hoof.
    destruct (RecipientInfos_unpack n v') as [l|e]; cbn [bind] in *.
    + assert (Hn : @Ok (list kek_recipient_info) l <> Raise OutOfFuel) by congruence.
      destruct (IH Hm' Hn L1 L2) as (env' & E1 & E2 & E3).
      exists env'. split; [exact E1|]. split.
      * rewrite E2, <- app_assoc. reflexivity.
      * intros x X1 X2 X3. rewrite (E3 x X1 X2 X3). unfold ris_next. cbn. rewrite X2, X3, X1. reflexivity.
    + apply (IH Hm'); [|exact L1|exact L2].
      congruence.
Qed.

(* lengths: a read never yields more octets than the reader held *)
Lemma length_slice_le {A} lo hi (l : list A) : (length (slice lo hi l) <= length l)%nat.
Proof.
  unfold slice. rewrite firstn_length, skipn_length. lia.
Qed.
Lemma read_raw_lengths ty view t h c rest : read_raw ty view t h = Ok (c, rest) ->
  (length c <= length view)%nat /\ (length rest <= length view)%nat.
Proof.
  unfold read_raw, validate_tag. intros H.
  destruct (match h with Some h0 => Ok h0 | None => read_asn1_header view end) as [hd|e]; cbn [bind] in H; [|discriminate].
  destruct (negb (tag_eqb _ _)); [discriminate|].
  destruct (k_vt_short _ _); [discriminate|].
  cbn [bind] in H. apply Ok_inj in H. injection H as <- <-. unfold advance. split.
  - eapply Nat.le_trans; apply length_slice_le.
  - apply length_slice_le.
Qed.
Lemma read_integer_rest view t h z rest : read_integer view t h = Ok (z, rest) -> (length rest <= length view)%nat.
Proof.
  unfold read_integer, validate_tag. intros H.
  destruct (match h with Some h0 => Ok h0 | None => read_asn1_header view end) as [hd|e]; cbn [bind] in H; [|discriminate].
  destruct (negb (tag_eqb _ _)); [discriminate|].
  destruct (k_vt_short _ _); [discriminate|].
  cbn [bind] in H. destruct (read_int_content _); cbn [bind] in H; [|discriminate].
  apply Ok_inj in H. injection H as <- <-. apply length_slice_le.
Qed.

Definition ed_pre : list pstmt := firstn 5 (pf_body k_flow_EnvelopedData_unpack).
Definition ed_post : list pstmt := skipn 6 (pf_body k_flow_EnvelopedData_unpack).
Lemma ed_body_split : pf_body k_flow_EnvelopedData_unpack = ed_pre ++ SWhile ris_cond ris_body :: ed_post.
Proof. reflexivity. Qed.

Lemma exec_block_app fuel a b env :
  exec_block MW fuel (a ++ b) env
  = let* o := exec_block MW fuel a env in
    match o with Next env' => exec_block MW fuel b env' | other => Ok other end.
Proof.
  revert env. induction a as [|s a IH]; intros env; cbn [app exec_block bind]; [reflexivity|].
  destruct (exec MW fuel env s) as [o|e]; cbn [bind]; [|reflexivity].
  destruct o; try reflexivity. apply IH.
Qed.
Lemma exec_block_cons fuel s r env :
  exec_block MW fuel (s :: r) env
  = let* o := exec MW fuel env s in
    match o with Next env' => exec_block MW fuel r env' | other => Ok other end.
Proof. reflexivity. Qed.

Definition ed_pre_model (data : bytes) : res (Z * bytes * bytes) :=
  let* (r, _) := read_sequence data None None in
  let* (version, r) := read_integer r None None in
  if k_ed_version_bad version then Raise NotImplementedError else
  let* (ris_view, r) := read_set r None None in
  Ok (version, ris_view, r).

Lemma ed_model_split data :
  EnvelopedData_unpack data
  = let* (version, ris_view, r) := ed_pre_model data in
    let* recipient_infos := RecipientInfos_unpack (length ris_view) ris_view in
    let* (enc_content, _) := EncryptedContentInfo_unpack r in
    Ok {| ed_version := version; ed_recipient_infos := recipient_infos; ed_eci := enc_content |}.
Proof.
  unfold EnvelopedData_unpack, ed_pre_model.
  destruct (read_sequence data None None) as [[r v']|e]; cbn [bind]; [|reflexivity].
  destruct (read_integer r None None) as [[version r1]|e]; cbn [bind]; [|reflexivity].
  destruct (k_ed_version_bad version); [reflexivity|].
  destruct (read_set r1 None None) as [[ris r2]|e]; cbn [bind]; reflexivity.
Qed.

Lemma ed_pre_lengths data version ris_view r : ed_pre_model data = Ok (version, ris_view, r) ->
  (length ris_view <= length data)%nat.
Proof.
  unfold ed_pre_model. intros H.
  destruct (read_sequence data None None) as [[r0 v']|e] eqn:E1; cbn [bind] in H; [|discriminate].
  destruct (read_integer r0 None None) as [[ver r1]|e] eqn:E2; cbn [bind] in H; [|discriminate].
  destruct (k_ed_version_bad ver); [discriminate|].
  destruct (read_set r1 None None) as [[ris r2]|e] eqn:E3; cbn [bind] in H; [|discriminate].
  apply Ok_inj in H. injection H as <- <- <-.
  apply read_raw_lengths in E1. apply read_integer_rest in E2. apply read_raw_lengths in E3. lia.
Qed.

Lemma ed_pre_exec fuel cls data :
  match ed_pre_model data with
  | Ok (version, ris_view, r) =>
    exists env, exec_block MW fuel ed_pre [("cls", cls); ("data", VB data)] = Ok (Next env)
                /\ lookup "reader" env = Some (VO (OReader r)) /\ lookup "version" env = Some (VI version)
                /\ lookup "recipient_infos" env = Some (vkris []) /\ lookup "recipient_infos_reader" env = Some (VO (OReader ris_view))
  | Raise e => exec_block MW fuel ed_pre [("cls", cls); ("data", VB data)] = Raise e
  end.
Proof.
  unfold ed_pre_model, ed_pre. cbn.
  destruct (read_sequence data None None) as [[r v']|e]; cbn; [|reflexivity].
  destruct (read_integer r None None) as [[version r1]|e]; cbn; [|reflexivity].
  unfold k_ed_version_bad, test. cbn.
  destruct (version =? 2); cbn; [|reflexivity].
  destruct (read_set r1 None None) as [[ris r2]|e]; cbn; [|reflexivity].
  eexists. split; [reflexivity|]. cbn. auto.
Qed.

Lemma all_of_kris ris : all_of as_kri (map (fun r => VO (OKri r)) ris) = Some ris.
Proof. induction ris as [|x r IH]; cbn; [reflexivity|]. rewrite IH. reflexivity. Qed.

Lemma ed_post_exec fuel env r version ris :
  lookup "reader" env = Some (VO (OReader r)) -> lookup "version" env = Some (VI version) ->
  lookup "recipient_infos" env = Some (vkris ris) ->
  exec_block MW fuel ed_post env
  = let* (enc_content, r') := EncryptedContentInfo_unpack r in
    Ok (Ret (VO (OEd {| ed_version := version; ed_recipient_infos := ris; ed_eci := enc_content |}))
            (update "enc_content" (VO (OEci enc_content)) (update "reader" (VO (OReader r')) env))).
Proof.
  intros H1 H2 H3. unfold ed_post. cbn. rewrite H1. cbn. unfold unpack_mut.
  destruct (EncryptedContentInfo_unpack r) as [[ec r']|e]; cbn; [|reflexivity].
  rewrite H1. cbn. rewrite H2. cbn. rewrite H3. cbn. rewrite all_of_kris. reflexivity.
Qed.

(* hypotheses: the interpreter's fuel exceeds the number of octets (every RecipientInfo read consumes at least one), and the model
   itself does not run out of its own fuel (it never does on Python bytes: Proofs/C05Asn1.EnvelopedData_unpack_safe) *)
Lemma flow_EnvelopedData_unpack fuel cls data :
  (length data < fuel)%nat -> EnvelopedData_unpack data <> Raise OutOfFuel ->
  value_of (run_mut MW fuel k_flow_EnvelopedData_unpack [cls; VB data])
  = let* e := EnvelopedData_unpack data in Ok (VO (OEd e)).
Proof.
  intros Hf Hoof. rewrite ed_model_split in *.
  unfold run_mut, value_of. cbn [pf_params k_flow_EnvelopedData_unpack bind_params].
  change (pf_body _) with (pf_body k_flow_EnvelopedData_unpack). rewrite ed_body_split, exec_block_app.
  pose proof (ed_pre_exec fuel cls data) as Hpre. pose proof (ed_pre_lengths data) as Hlen.
  destruct (ed_pre_model data) as [[[version ris_view] r]|e]; cbn [bind] in *.
  2:{ rewrite Hpre. reflexivity. }
  destruct Hpre as (env & E0 & L1 & L2 & L3 & L4). rewrite E0. cbn [bind].
  specialize (Hlen _ _ _ eq_refl).
  rewrite exec_block_cons, while_eq.
  pose proof (ris_loop (exec_block MW fuel ris_body) (ris_body_step fuel) (length ris_view) fuel ris_view env []) as HL.
  destruct (RecipientInfos_unpack (length ris_view) ris_view) as [ris|e]; cbn [bind] in *.
  - destruct HL as (env' & E1 & E2 & E3); [lia|congruence|exact L4|exact L3|].
    rewrite E1. cbn [bind app] in *.
    rewrite (ed_post_exec fuel env' r version ris);
      [|rewrite E3 by reflexivity; exact L1|rewrite E3 by reflexivity; exact L2|exact E2].
    destruct (EncryptedContentInfo_unpack r) as [[ec r']|e]; cbn [bind]; reflexivity.
  - rewrite HL; [reflexivity|lia|congruence|exact L4|exact L3].
Qed.

Lemma zs_eqb_str_eqb a b : zs_eqb a b = str_eqb a b.
Proof. reflexivity. Qed.

Lemma flow_ProtectionDescriptor_unpack fuel cls data :
  value_of (run_mut MW fuel k_flow_ProtectionDescriptor_unpack [cls; VB data])
  = let* s := ProtectionDescriptor_unpack data in Ok (VO (OSidDesc s)).
Proof.
  unfold ProtectionDescriptor_unpack, value_of. cbn.
  destruct (read_sequence data None None) as [[r v']|e]; cbn; [|reflexivity].
  destruct (read_object_identifier r None None) as [[ct r1]|e]; cbn; [|reflexivity].
  destruct (read_sequence r1 None None) as [[r2 v2]|e]; cbn; [|reflexivity].
  destruct (read_sequence r2 None None) as [[r3 v3]|e]; cbn; [|reflexivity].
  destruct (read_sequence r3 None None) as [[r4 v4]|e]; cbn; [|reflexivity].
  destruct (read_utf8_string r4 None None) as [[vt r5]|e]; cbn; [|reflexivity].
  destruct (read_utf8_string r5 None None) as [[val r6]|e]; cbn; [|reflexivity].
  unfold test. cbn.
  destruct (oid_eqb ct _); cbn; [|reflexivity].
  rewrite zs_eqb_str_eqb. change [83; 73; 68] with c_pd_sid_name.
  destruct (str_eqb vt c_pd_sid_name); cbn; reflexivity.
Qed.

Arguments ContentInfo_unpack : simpl never.
Arguments EnvelopedData_unpack : simpl never.
Arguments KeyIdentifier_unpack : simpl never.
Arguments ProtectionDescriptor_unpack : simpl never.
Arguments slice : simpl never.

Lemma len_cons_eqb0 {A} (x : A) b : (len (x :: b) =? 0) = false.
Proof. rewrite len_cons. pose proof (len_nonneg b). lia. Qed.
Lemma len_nil_eqb0 {A} : (len (@nil A) =? 0) = true.
Proof. reflexivity. Qed.
Ltac lens := repeat (progress (rewrite ?len_cons_eqb0, ?len_nil_eqb0); cbn).

Lemma opt_of_bytes p : opt_of as_bytes (vopt_bytes p) = Some p.
Proof. destruct p; reflexivity. Qed.

Lemma index_0 {A} (x : A) l : index (x :: l) 0 = Ok x.
Proof.
  unfold index. rewrite len_cons. cbn [Z.ltb Z.compare].
  replace ((0 <=? 0) && (0 <? 1 + len l)) with true by (pose proof (len_nonneg l); lia). reflexivity.
Qed.

Lemma flow_DPAPINGBlob_unpack fuel cls data :
  value_of (run_mut MW fuel k_flow_DPAPINGBlob_unpack [cls; VB data])
  = let* b := blob_unpack data in Ok (VO (OBlob b)).
Proof.
  unfold blob_unpack, value_of. cbn.
  destruct (peek_header data) as [h|e]; cbn; [|reflexivity].
  destruct (ContentInfo_unpack _ (Some h)) as [ci|e]; cbn; [|reflexivity].
  unfold test. cbn.
  destruct (oid_eqb (ci_content_type ci) _); cbn; [|reflexivity].
  destruct (EnvelopedData_unpack (ci_content ci)) as [[ver ris eci]|e]; cbn; [|reflexivity].
  destruct (ver =? 2) eqn:EV; cbn.
  2:{ destruct ris as [|k [|k2 rest]]; reflexivity. }
  destruct ris as [|k [|k2 rest]]; cbn [map].
  - change (len (@nil V)) with 0. cbn. reflexivity.
  - change (len [VO (OKri k)]) with 1. cbn.
    destruct k as [kv [kkid kdate kother] [a1 p1] kek]. destruct eci as [ect [a2 p2] ec]. 
    repeat (rewrite !index_0; cbn).
    destruct (kv =? 4) eqn:EK; cbn; [|reflexivity].
    repeat (rewrite !index_0; cbn).
    destruct (KeyIdentifier_unpack kkid) as [kid|e]; cbn; [|reflexivity].
    destruct kother as [[oid attr]|]; cbn; [|reflexivity].
    destruct (oid_eqb oid _); cbn; [|reflexivity].
    destruct attr as [[|x a]|]; cbn; lens.
    all: match goal with |- context [ProtectionDescriptor_unpack ?d] => destruct (ProtectionDescriptor_unpack d) as [sid|e]; cbn; [|reflexivity] end.
    all: destruct ec as [[|y c]|]; cbn; lens.
    all: rewrite !opt_of_bytes; cbn; reflexivity.
  - rewrite !len_cons. replace (1 + (1 + len (map (fun r => VO (OKri r)) rest)) =? 1) with false
      by (pose proof (len_nonneg (map (fun r => VO (OKri r)) rest)); lia).
    cbn. reflexivity.
Qed.

(* ---- what CALLERS of X.unpack(reader) get: the world's mw_call_mut entry is exactly the model's pair (value, reader afterwards);
   for the functions whose body rebinds `reader` (value-only ties above) this is where the reader the caller continues with comes
   from: it is the model's, by definition of the world ---- *)
Lemma call_mut_AlgorithmIdentifier_unpack view :
  cms_call_mut "AlgorithmIdentifier.unpack" [VO (OReader view)]
  = Some (let* (a, rest) := AlgorithmIdentifier_unpack view in Ok (VO (OAlg a), [VO (OReader rest)])).
Proof. reflexivity. Qed.
Lemma call_mut_OtherKeyAttribute_unpack view h :
  cms_call_mut "OtherKeyAttribute.unpack/header" [VO (OReader view); vopt_hdr h]
  = Some (let* (a, rest) := OtherKeyAttribute_unpack view h in Ok (VO (OOka a), [VO (OReader rest); vopt_hdr h])).
Proof. cbn. rewrite opt_of_hdr. reflexivity. Qed.
Lemma call_mut_KEKIdentifier_unpack view :
  cms_call_mut "KEKIdentifier.unpack" [VO (OReader view)]
  = Some (let* (k, rest) := KEKIdentifier_unpack view in Ok (VO (OKekId k), [VO (OReader rest)])).
Proof. reflexivity. Qed.
Lemma call_mut_KEKRecipientInfo_unpack view h :
  cms_call_mut "KEKRecipientInfo.unpack/header" [VO (OReader view); vopt_hdr h]
  = Some (let* (k, rest) := KEKRecipientInfo_unpack view h in Ok (VO (OKri k), [VO (OReader rest); vopt_hdr h])).
Proof. cbn. rewrite opt_of_hdr. reflexivity. Qed.
Lemma call_mut_RecipientInfo_unpack view :
  cms_call_mut "RecipientInfo.unpack" [VO (OReader view)]
  = Some (let* (k, rest) := RecipientInfo_unpack view in Ok (VO (OKri k), [VO (OReader rest)])).
Proof. reflexivity. Qed.
Lemma call_mut_EncryptedContentInfo_unpack view :
  cms_call_mut "EncryptedContentInfo.unpack" [VO (OReader view)]
  = Some (let* (e, rest) := EncryptedContentInfo_unpack view in Ok (VO (OEci e), [VO (OReader rest)])).
Proof. reflexivity. Qed.
