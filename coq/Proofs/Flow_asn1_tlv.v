(* Tie theorem: _pack_asn1 of _asn1.py (gen/F_asn1.v, run in Flow/World_asn1.v) = Model/Asn1.v pack_asn1. *)
From V Require Import Prelude.PyAst.
From V Require Import Prelude.Base Prelude.PyInt Prelude.PySlice Prelude.PyStr Prelude.PyWorld gen.K_asn1 gen.C_asn1 gen.F_asn1.
From V Require Import Model.Asn1 Flow.World_asn1 Proofs.Flow_asn1_lib Proofs.Asn1Lib Proofs.Asn1Hdr.
Local Open Scope string_scope.
Local Open Scope list_scope.
Local Open Scope Z_scope.
Arguments len : simpl never.
Arguments Z.land : simpl never.
Arguments Z.lor : simpl never.
Arguments Z.shiftr : simpl never.
Arguments Z.shiftl : simpl never.
Arguments bits_fuel : simpl never.
Arguments pack_octet_number : simpl never.

Definition lo_body : list pstmt := [
        SExpr (PMeth "append" (PName "length_octets") [(PBin "&" (PName "length") (PInt 255))]);
        SAssign ["length"] (PBin ">>" (PName "length") (PInt 8))
      ].

Lemma lo_loop fuel : forall k K env n acc ds,
  lookup "length" env = Some (VI n) -> lookup "length_octets" env = Some (VB acc) ->
  len_octets k n = Ok ds -> (k < K)%nat ->
  exists env', while_loop W fuel (PName "length") lo_body K env = Ok (Next env') /\
               lookup "length_octets" env' = Some (VB (acc ++ ds)) /\
               (forall x, x <> "length" -> x <> "length_octets" -> lookup x env' = lookup x env).
Proof.
  induction k as [|k IH]; intros K env n acc ds Hn Ha Hd HK; (destruct K as [|K]; [lia|]); rewrite while_loop_S;
    cbn [len_octets] in Hd; unfold k_der_len_more in Hd; revert Hd; pye; destruct (n =? 0) eqn:En; cbn; intro Hd.
  - apply Ok_inj in Hd. subst ds. rewrite app_nil_r. eauto.
  - discriminate Hd.
  - apply Ok_inj in Hd. subst ds. rewrite app_nil_r. eauto.
  - destruct (len_octets k (k_der_len_shift n)) as [r|] eqn:Er; [|discriminate]. cbn [bind] in Hd. apply Ok_inj in Hd.
    unfold lo_body. assert (Hl : 0 <= Z.land n 255 < 256) by (rewrite land_255; lia).
    pye. destruct ((Z.land n 255 <? 0) || (255 <? Z.land n 255)) eqn:Eb; [lia|]. pye. fold lo_body.
    match goal with |- context [while_loop _ _ _ _ K ?e] =>
      destruct (IH K e (Z.shiftr n 8) (acc ++ [Z.land n 255]) r) as (env' & Hw & Hr & Hfr);
        [reflexivity|reflexivity|exact Er|lia|] end.
    exists env'. split; [exact Hw|]. split; [rewrite Hr, <- Hd, <- app_assoc; reflexivity|].
    intros x H1 H2. rewrite Hfr by assumption. cbn.
    apply String.eqb_neq in H1, H2. rewrite H1, H2. reflexivity.
Qed.

Lemma gtb_ltb a b : (a >? b) = (b <? a). Proof. apply Z.gtb_ltb. Qed.

Lemma len_rev {A} (l : list A) : len (rev l) = len l. Proof. unfold len. rewrite rev_length. reflexivity. Qed.

Definition len_tail : list pstmt := [
    SAssign ["length"] (PCall "len" [(PName "data")]);
    SIf (PCmp "<" (PName "length") (PInt 128)) [
      SExpr (PMeth "append" (PName "b_asn1_data") [(PName "length")])
    ] [
      SAssign ["length_octets"] (PCall "bytearray" []);
      SWhile (PName "length") [
        SExpr (PMeth "append" (PName "length_octets") [(PBin "&" (PName "length") (PInt 255))]);
        SAssign ["length"] (PBin ">>" (PName "length") (PInt 8))
      ];
      SExpr (PMeth "reverse" (PName "length_octets") []);
      SExpr (PMeth "append" (PName "b_asn1_data") [(PBin "|" (PCall "len" [(PName "length_octets")]) (PInt 128))]);
      SExpr (PMeth "extend" (PName "b_asn1_data") [(PName "length_octets")])
    ];
    SReturn (PBin "+" (PCall "bytes" [(PName "b_asn1_data")]) (PCall "bytes" [(PName "data")]))
  ].

Lemma len_tail_ok fuel env data ident : (bits_fuel (len data) < fuel)%nat ->
  lookup "data" env = Some (VB data) -> lookup "b_asn1_data" env = Some (VB ident) ->
  exec_block W fuel len_tail env =
  match pack_length (len data) with Ok lenb => Ok (Ret (VB (ident ++ lenb ++ data))) | Raise e => Raise e end.
Proof.
  intros Hf Hd Hb. unfold len_tail, pack_length, k_der_short_len, k_der_len_first, byte_ok. pose proof (len_nonneg data) as Hnn.
  pye. destruct (len data <? 128) eqn:E1; pye.
  - destruct ((len data <? 0) || (255 <? len data)) eqn:E4; destruct ((0 <=? len data) && (len data <? 256)) eqn:E5; try lia.
    pye. rewrite <- app_assoc. reflexivity.
  - fold lo_body.
    destruct (len_octets_spec (bits_fuel (len data)) (len data)) as (ds & E & _); [split; [lia|apply bits_fuel_ok; lia]|].
    rewrite E. cbn [bind].
    match goal with |- context [while_loop _ _ _ _ fuel ?e] =>
      destruct (lo_loop fuel (bits_fuel (len data)) fuel e (len data) [] ds) as (env' & Hw & Hr & Hfr);
        [reflexivity|reflexivity|exact E|exact Hf|] end.
    rewrite Hw. cbn [bind app] in *.
    assert (Hd' : lookup "data" env' = Some (VB data)) by (rewrite Hfr by discriminate; cbn; exact Hd).
    assert (Hb' : lookup "b_asn1_data" env' = Some (VB ident)) by (rewrite Hfr by discriminate; cbn; exact Hb).
    pye. rewrite !len_rev.
    destruct ((Z.lor (len ds) 128 <? 0) || (255 <? Z.lor (len ds) 128)) eqn:E4;
      destruct ((0 <=? Z.lor (len ds) 128) && (Z.lor (len ds) 128 <? 256)) eqn:E5; try lia; pye; [reflexivity|].
    rewrite <- !app_assoc. reflexivity.
Qed.


Arguments len_tail : simpl never.
Arguments pack_length : simpl never.

Lemma flow_pack_asn1 fuel tc (cz : Z) tn data : (bits_fuel (len data) < fuel)%nat ->
  run W fuel k_flow_pack_asn1 [VI tc; VI cz; VI tn; VB data] = lift_b (pack_asn1 tc (negb (cz =? 0)) tn data).
Proof.
  intros Hf. start W k_flow_pack_asn1. fold len_tail.
  unfold pack_asn1, pack_ident, k_der_class_bad, k_der_ident_cons, k_der_ident_class, k_der_low_tag,
    k_der_ident_low, k_der_ident_high, byte_ok.
  rewrite gtb_ltb. py.
  destruct (tc <? 0) eqn:E1; py; [reflexivity|]. destruct (3 <? tc) eqn:E2; py; [reflexivity|].
  set (cb := negb (cz =? 0)). destruct cb; py.
  all: match goal with |- context [Z.lor (Z.shiftl ?t 6) (Z.shiftl ?b 5)] => set (io := Z.lor (Z.shiftl t 6) (Z.shiftl b 5)) end.
  all: match goal with |- context [?t <? 31] => destruct (t <? 31) eqn:E3 end; py.
  all: match goal with |- context [(?z <? 0) || (255 <? ?z)] =>
         destruct ((z <? 0) || (255 <? z)) eqn:E4; destruct ((0 <=? z) && (z <? 256)) eqn:E5; try lia end; py; try reflexivity.
  all: try (destruct (pack_octet_number tn) as [pn|e]; py; [|reflexivity]).
  all: (erewrite len_tail_ok; [|exact Hf|reflexivity|reflexivity]); destruct (pack_length (len data)); reflexivity.
Qed.
