(* PDU.unpack and EptMap.unpack on arbitrary octets: fuel = length + 1 suffices and the loop ticks
   (contexts + transfer syntaxes / results / protocol versions / floors) are at most the length. *)
From V Require Import Prelude.Base Prelude.PyInt Prelude.PySlice Prelude.PyStr.
From V Require Import Model.Pdu Model.Request Model.RpcLoop Model.Bind Model.RpcDispatch Model.Epm.
From V Require Import Proofs.RpcLib Proofs.RpcKernels Proofs.RpcTotal Proofs.RpcTotalLib.

(* a decoder result that is not OutOfFuel and whose ticks are within [0, L] *)
Definition total_le {X} (r : res (X * Z)) (L : Z) : Prop := noof r /\ forall x t, r = Ok (x, t) -> 0 <= t <= L.

Lemma total_le_mono {X} (r : res (X * Z)) L L' : total_le r L -> L <= L' -> total_le r L'.
Proof. intros [H1 H2] HL. split; [exact H1|]. intros x t H. specialize (H2 _ _ H). lia. Qed.
Lemma total_le_map {X Y} (r : res (X * Z)) (f : X -> Y) L : total_le r L ->
  total_le (let* (m, t) := r in Ok (f m, t)) L.
Proof.
  intros [H1 H2]. destruct r as [[m t]|e]; cbn [bind].
  - split; [exact I|]. intros y t' H. apply Ok_inj in H. assert (t' = t) by congruence. subst. exact (H2 _ _ eq_refl).
  - split; [destruct e; exact H1|discriminate].
Qed.
Lemma total_le_map0 {X Y} (r : res X) (f : X -> Y) L : noof r -> 0 <= L -> total_le (let* m := r in Ok (f m, 0)) L.
Proof.
  intros H1 HL. destruct r as [m|e]; cbn [bind].
  - split; [exact I|]. intros y t' H. apply Ok_inj in H. assert (t' = 0) by congruence. lia.
  - split; [destruct e; exact H1|discriminate].
Qed.
Lemma total_le_spec {X} (r : res (X * Z)) L : total_le r L ->
  r <> Raise OutOfFuel /\ forall x t, r = Ok (x, t) -> 0 <= t <= L.
Proof. intros [H1 H2]. split; [now apply noof_spec|exact H2]. Qed.

(* ---- loop-free decoders ---- *)
Lemma noof_pdu_split bs : noof (pdu_split bs).
Proof.
  unfold pdu_split. apply noof_bind; [apply noof_pdu_header_unpack|intros h _]. cbv zeta.
  apply noof_if; [|exact I]. apply noof_bind; [apply noof_sec_trailer_unpack|intros ? _]. exact I.
Qed.
Lemma pdu_split_len bs view h st : pdu_split bs = Ok (view, h, st) -> len view <= len bs.
Proof.
  unfold pdu_split. destruct (pdu_header_unpack bs) as [hd|] eqn:Eh; [|discriminate]. cbn [bind]. cbv zeta.
  pose proof (len_slice_le bs (Some 16) (Some (h_frag_len hd))) as H1.
  destruct (k_pdu_has_trailer (h_auth_len hd)).
  - destruct (sec_trailer_unpack _) as [s|]; [|discriminate]. cbn [bind]. intros H. apply Ok_inj in H.
    assert (Hv : view = slice None (Some (- (h_auth_len hd + 8))) (slice (Some 16) (Some (h_frag_len hd)) bs)) by congruence.
    rewrite Hv. pose proof (len_slice_le (slice (Some 16) (Some (h_frag_len hd)) bs) None (Some (- (h_auth_len hd + 8)))). lia.
  - intros H. apply Ok_inj in H. assert (Hv : view = slice (Some 16) (Some (h_frag_len hd)) bs) by congruence. rewrite Hv. exact H1.
Qed.
Lemma noof_registry_lookup pt : noof (registry_lookup pt).
Proof. unfold registry_lookup. destruct (mem _ _); exact I. Qed.
Lemma noof_request_unpack v h st : noof (request_unpack v h st).
Proof.
  unfold request_unpack. cbv zeta. apply noof_bind; [|intros [o w] _; exact I].
  apply noof_if; [|exact I]. apply noof_bind; [apply noof_uuid|intros ? _]. exact I.
Qed.
Lemma noof_response_unpack v h st : noof (response_unpack v h st).
Proof. unfold response_unpack. cbv zeta. apply noof_bind; [apply noof_index|intros ? _]. exact I. Qed.
Lemma noof_fault_unpack v h st : noof (fault_unpack v h st).
Proof. unfold fault_unpack. cbv zeta. apply noof_bind; [apply noof_index|intros ? _]. apply noof_bind; [apply noof_index|intros ? _]. exact I. Qed.

(* ---- ContextElement: the transfer-syntax loop consumes at least 16 octets per iteration ---- *)
Lemma context_element_unpack_total fuel (v : bytes) : len v < Z.of_nat fuel ->
  noof (context_element_unpack fuel v) /\
  forall c t, context_element_unpack fuel v = Ok (c, t) ->
    t = len (ce_transfer_syntaxes c) /\ 0 <= t /\ 20 <= len v /\ 16 * t <= Z.max 0 (len v - 24).
Proof.
  intros Hf. unfold context_element_unpack. cbv zeta.
  pose proof (noof_syntax_id_unpack (slice (Some 4) None v)) as Hna.
  destruct (syntax_id_unpack (slice (Some 4) None v)) as [a|e] eqn:Ea; cbn [bind].
  2:{ split; [destruct e; exact Hna|discriminate]. }
  apply syntax_id_ok_len in Ea. pose proof (len_slice_from v 4 ltac:(lia)) as Hl4.
  match goal with |- context [for_range fuel ?n ?body ?s 0] => set (b := body); set (L := for_range fuel n b s 0) end.
  assert (Hb : forall (w : bytes) (acc : list syntax_id), noof (b (w, acc)) /\
            forall s' t, b (w, acc) = Ok (s', t) -> t = 0 /\ 16 <= len w - len (fst s') /\ len (snd s') = len acc + 1).
  { intros w acc. unfold b. pose proof (noof_syntax_id_unpack w) as Hn.
    destruct (syntax_id_unpack w) as [s|e] eqn:Es; cbn [bind]; [|split; [destruct e; exact Hn|discriminate]].
    split; [exact I|]. intros s' t H. apply Ok_inj in H.
    assert (Hs : s' = (slice (Some 20) None w, acc ++ [s]) /\ t = 0) by (split; congruence). destruct Hs as [-> ->]. cbn [fst snd].
    apply syntax_id_ok_len in Es. rewrite len_slice_from by lia. rewrite len_app. match goal with |- context [len [?x]] => change (len [x]) with 1 end. lia. }
  assert (Hl0 : len (slice (Some 24) None v) = Z.max 0 (len v - 24)) by (apply len_slice_from; lia).
  destruct (simple_loop b 16 Hb fuel (le_val (slice (Some 2) (Some 4) v)) (slice (Some 24) None v) [] 0 ltac:(clear - Hf Hl0; pose proof (len_nonneg v); lia)) as [Hno Hok].
  change (noof L) in Hno. destruct L as [[st t]|e] eqn:El; cbn [bind]; cbv beta iota.
  - split; [exact I|]. intros c t' H. apply Ok_inj in H.
    assert (Hc : ce_transfer_syntaxes c = snd st /\ t' = t) by (split; [inversion H; reflexivity|congruence]). destruct Hc as [Hc ->].
    rewrite Hc. specialize (Hok _ _ El). change (len (@nil syntax_id)) with 0 in Hok.
    pose proof (len_nonneg (fst st)). unfold bytes in *. lia.
  - split; [destruct e; exact Hno|discriminate].
Qed.

(* ---- Bind / AlterContext ---- *)
Lemma bind_unpack_total fuel (v : bytes) h st : len v < Z.of_nat fuel -> total_le (bind_unpack fuel v h st) (len v).
Proof.
  intros Hf. unfold bind_unpack. cbv zeta.
  pose proof (noof_index v 8) as Hni. destruct (index v 8) as [nc|e] eqn:Ei; cbn [bind].
  2:{ split; [destruct e; exact Hni|discriminate]. }
  match goal with |- context [for_range fuel ?n ?body ?s 0] => set (b := body); set (L := for_range fuel n b s 0) end.
  assert (Hb : forall s : bytes * list context_element, len (fst s) <= len v -> noof (b s) /\
            forall s' t, b s = Ok (s', t) -> 0 <= t /\ 1 + t <= len (fst s) - len (fst s')).
  { intros [w acc] Hw. cbn [fst] in Hw. unfold b.
    destruct (context_element_unpack_total fuel w ltac:(lia)) as [Hn Hk].
    destruct (context_element_unpack fuel w) as [[c t]|e] eqn:Ec; cbn [bind]; [|split; [destruct e; exact Hn|discriminate]].
    split; [exact I|]. intros s' t' H. apply Ok_inj in H.
    assert (Hs : s' = (slice (Some (24 + len (ce_transfer_syntaxes c) * 20)) None w, acc ++ [c]) /\ t' = t) by (split; congruence).
    destruct Hs as [-> ->]. cbn [fst]. destruct (Hk _ _ eq_refl) as (Ht & H0 & H20 & H16). rewrite <- Ht.
    rewrite len_slice_from by lia. lia. }
  assert (Hl0 : len (slice (Some 12) None v) <= len v) by apply len_slice_le.
  destruct (pot_loop b (fun s => len (fst s)) (len v) (fun s => len_nonneg _) Hb fuel nc (slice (Some 12) None v, []) 0
              ltac:(cbn [fst]; clear - Hl0; lia) ltac:(cbn [fst]; clear - Hf Hl0; pose proof (len_nonneg v); lia)) as [Hno Hok].
  change (noof L) in Hno. destruct L as [[s t]|e] eqn:El; cbn [bind]; cbv beta iota.
  - split; [exact I|]. intros m t' H. apply Ok_inj in H. assert (t' = t) by congruence. subst t'.
    specialize (Hok _ _ El). cbn [fst] in Hok. pose proof (len_nonneg (fst s)). unfold bytes in *. lia.
  - split; [destruct e; exact Hno|discriminate].
Qed.

(* ---- BindAck / AlterContextResponse: 20 octets at least per result ---- *)
Lemma context_result_ok_len w r : context_result_unpack w = Ok r -> 20 <= len w.
Proof.
  unfold context_result_unpack. destruct (enum_lookup _ _); [|discriminate]. cbn [bind].
  destruct (uuid_of_bytes_le _) as [u|] eqn:E; [|discriminate]. intros _.
  apply uuid_ok_len in E. rewrite len_slice_range in E by lia. lia.
Qed.
Lemma bind_ack_unpack_total fuel (v : bytes) h st : len v < Z.of_nat fuel -> total_le (bind_ack_unpack fuel v h st) (len v).
Proof.
  intros Hf. unfold bind_ack_unpack. cbv zeta.
  match goal with |- context [utf8_decode ?x] => pose proof (noof_utf8_decode x) as Hnu; destruct (utf8_decode x) as [sa|e] eqn:Eu end; cbn [bind].
  2:{ split; [destruct e; exact Hnu|discriminate]. }
  match goal with |- context [index ?x 0] => set (v1 := x) end.
  pose proof (noof_index v1 0) as Hni. destruct (index v1 0) as [nr|e] eqn:Ei; cbn [bind].
  2:{ split; [destruct e; exact Hni|discriminate]. }
  match goal with |- context [for_range fuel ?n ?body ?s 0] => set (b := body); set (L := for_range fuel n b s 0) end.
  assert (Hb : forall (w : bytes) (acc : list context_result), noof (b (w, acc)) /\
            forall s' t, b (w, acc) = Ok (s', t) -> t = 0 /\ 20 <= len w - len (fst s') /\ len (snd s') = len acc + 1).
  { intros w acc. unfold b. pose proof (noof_context_result_unpack w) as Hn.
    destruct (context_result_unpack w) as [r|e] eqn:Es; cbn [bind]; [|split; [destruct e; exact Hn|discriminate]].
    split; [exact I|]. intros s' t H. apply Ok_inj in H.
    assert (Hs : s' = (slice (Some 24) None w, acc ++ [r]) /\ t = 0) by (split; congruence). destruct Hs as [-> ->]. cbn [fst snd].
    apply context_result_ok_len in Es. rewrite len_slice_from by lia. rewrite len_app. match goal with |- context [len [?x]] => change (len [x]) with 1 end. lia. }
  assert (Hl1 : len (slice (Some 4) None v1) <= len v).
  { pose proof (len_slice_le v1 (Some 4) None). unfold v1 in *.
    match goal with |- context [slice ?lo None v] => pose proof (len_slice_le v lo None) end. lia. }
  destruct (simple_loop b 20 Hb fuel nr (slice (Some 4) None v1) [] 0 ltac:(clear - Hf Hl1; pose proof (len_nonneg v); lia)) as [Hno Hok].
  change (noof L) in Hno. destruct L as [[s t]|e] eqn:El; cbn [bind]; cbv beta iota.
  - split; [exact I|]. intros m t' H. apply Ok_inj in H. assert (t' = t) by congruence. subst t'.
    specialize (Hok _ _ El). pose proof (len_nonneg (fst s)). unfold bytes in *. lia.
  - split; [destruct e; exact Hno|discriminate].
Qed.

(* ---- BindNak: 2 octets per protocol version ---- *)
Lemma bind_nak_unpack_total fuel (v : bytes) h st : len v < Z.of_nat fuel -> total_le (bind_nak_unpack fuel v h st) (len v).
Proof.
  intros Hf. unfold bind_nak_unpack. cbv zeta.
  pose proof (noof_index v 2) as Hni. destruct (index v 2) as [nv|e] eqn:Ei; cbn [bind].
  2:{ split; [destruct e; exact Hni|discriminate]. }
  match goal with |- context [for_range fuel ?n ?body ?s 0] => set (b := body); set (L := for_range fuel n b s 0) end.
  assert (Hb : forall (w : bytes) (acc : list (Z * Z)), noof (b (w, acc)) /\
            forall s' t, b (w, acc) = Ok (s', t) -> t = 0 /\ 2 <= len w - len (fst s') /\ len (snd s') = len acc + 1).
  { intros w acc. unfold b. pose proof (noof_index w 0) as Hn0. pose proof (noof_index w 1) as Hn1.
    destruct (index w 0) as [x|e] eqn:E0; cbn [bind]; [|split; [destruct e; exact Hn0|discriminate]].
    destruct (index w 1) as [y|e] eqn:E1; cbn [bind]; [|split; [destruct e; exact Hn1|discriminate]].
    split; [exact I|]. intros s' t H. apply Ok_inj in H.
    assert (Hs : s' = (slice (Some 2) None w, acc ++ [(x, y)]) /\ t = 0) by (split; congruence). destruct Hs as [-> ->]. cbn [fst snd].
    apply index_ok_len in E1; [|lia]. rewrite len_slice_from by lia. rewrite len_app. match goal with |- context [len [?x]] => change (len [x]) with 1 end. lia. }
  assert (Hl1 : len (slice (Some 3) None v) <= len v) by apply len_slice_le.
  destruct (simple_loop b 2 Hb fuel nv (slice (Some 3) None v) [] 0 ltac:(clear - Hf Hl1; pose proof (len_nonneg v); lia)) as [Hno Hok].
  change (noof L) in Hno. destruct L as [[s t]|e] eqn:El; cbn [bind]; cbv beta iota.
  - split; [exact I|]. intros m t' H. apply Ok_inj in H. assert (t' = t) by congruence. subst t'.
    specialize (Hok _ _ El). pose proof (len_nonneg (fst s)). unfold bytes in *. lia.
  - split; [destruct e; exact Hno|discriminate].
Qed.

(* ---- PDU.unpack ---- *)
Theorem pdu_unpack_total bs fuel : len bs < Z.of_nat fuel ->
  pdu_unpack fuel bs <> Raise OutOfFuel /\ forall p t, pdu_unpack fuel bs = Ok (p, t) -> 0 <= t <= len bs.
Proof.
  intros Hf. apply total_le_spec. unfold pdu_unpack.
  pose proof (noof_pdu_split bs) as Hns. destruct (pdu_split bs) as [[[view header] st]|e] eqn:Es; cbn [bind].
  2:{ split; [destruct e; exact Hns|discriminate]. }
  apply pdu_split_len in Es. pose proof (len_nonneg bs) as Hnn. pose proof (len_nonneg view).
  pose proof (noof_registry_lookup (h_packet_type header)) as Hnr.
  destruct (registry_lookup (h_packet_type header)) as [pt|e]; cbn [bind].
  2:{ split; [destruct e; exact Hnr|discriminate]. }
  destruct (pt =? c_PT_REQUEST). { apply total_le_map0; [apply noof_request_unpack|lia]. }
  destruct (pt =? c_PT_RESPONSE). { apply total_le_map0; [apply noof_response_unpack|lia]. }
  destruct (pt =? c_PT_FAULT). { apply total_le_map0; [apply noof_fault_unpack|lia]. }
  destruct (pt =? c_PT_BIND). { apply total_le_map. apply (total_le_mono _ (len view)); [apply bind_unpack_total; lia|lia]. }
  destruct (pt =? c_PT_BIND_ACK). { apply total_le_map. apply (total_le_mono _ (len view)); [apply bind_ack_unpack_total; lia|lia]. }
  destruct (pt =? c_PT_BIND_NAK). { apply total_le_map. apply (total_le_mono _ (len view)); [apply bind_nak_unpack_total; lia|lia]. }
  destruct (pt =? c_PT_ALTER_CONTEXT). { apply total_le_map. apply (total_le_mono _ (len view)); [apply bind_unpack_total; lia|lia]. }
  destruct (pt =? c_PT_ALTER_CONTEXT_RESP). { apply total_le_map. apply (total_le_mono _ (len view)); [apply bind_ack_unpack_total; lia|lia]. }
  split; [exact I|discriminate].
Qed.

(* ---- EptMap.unpack: every floor consumes at least 3 octets ---- *)
Lemma noof_floor_unpack v : noof (floor_unpack v).
Proof. apply noof_spec. apply floor_unpack_no_oof. Qed.
Lemma noof_entry_handle_unpack v : noof (entry_handle_unpack v).
Proof. unfold entry_handle_unpack. cbv zeta. apply noof_if; [exact I|]. apply noof_bind; [apply noof_uuid|intros ? _]. exact I. Qed.

Lemma floors_unpack_total3 fuel n (v : bytes) : len v < Z.of_nat fuel ->
  noof (floors_unpack fuel n v) /\
  forall s t, floors_unpack fuel n v = Ok (s, t) -> 0 <= t /\ 3 * t <= len v - len (fst s) /\ len (snd s) = t.
Proof.
  intros Hf. unfold floors_unpack. pose proof (len_nonneg v) as Hv0.
  match goal with |- context [for_range fuel n ?body ?s 0] => set (b := body) end.
  assert (Hb : forall (w : bytes) (acc : list floor), noof (b (w, acc)) /\
            forall s' t, b (w, acc) = Ok (s', t) -> t = 0 /\ 3 <= len w - len (fst s') /\ len (snd s') = len acc + 1).
  { intros w acc. unfold b. pose proof (noof_floor_unpack w) as Hn.
    destruct (floor_unpack w) as [f|e] eqn:Ef; cbn [bind]; [|split; [destruct e; exact Hn|discriminate]].
    split; [exact I|]. intros s' t H. apply Ok_inj in H.
    assert (Hs : s' = (slice (Some (len (fl_lhs f) + len (fl_rhs f) + 5)) None w, acc ++ [f]) /\ t = 0) by (split; congruence).
    destruct Hs as [-> ->]. cbn [fst snd].
    assert (Hw : 2 < len w).
    { unfold floor_unpack in Ef. destruct (index w 2) as [p|] eqn:Ei; [|discriminate]. apply index_ok_len in Ei; lia. }
    pose proof (len_nonneg (fl_lhs f)). pose proof (len_nonneg (fl_rhs f)).
    rewrite len_slice_from by lia. rewrite len_app. match goal with |- context [len [?x]] => change (len [x]) with 1 end. lia. }
  destruct (simple_loop b 3 Hb fuel n v [] 0 ltac:(clear - Hf Hv0; lia)) as [Hno Hok].
  split; [exact Hno|]. intros s t H. specialize (Hok _ _ H). change (len (@nil floor)) with 0 in Hok. lia.
Qed.

Theorem ept_map_unpack_total bs fuel : len bs < Z.of_nat fuel ->
  ept_map_unpack fuel bs <> Raise OutOfFuel /\
  forall m t, ept_map_unpack fuel bs = Ok (m, t) -> 0 <= t /\ 3 * t <= len bs /\ len (em_tower m) = t.
Proof.
  intros Hf. unfold ept_map_unpack. cbv zeta.
  match goal with |- context [bind ?X _] => assert (Hn1 : noof X); [|destruct X as [obj|e] eqn:Eo] end; cbn [bind].
  { apply noof_if; [exact I|]. apply noof_bind; [apply noof_uuid|intros ? _]. exact I. }
  2:{ split; [apply noof_spec; destruct e; exact Hn1|discriminate]. }
  set (v1 := slice (Some 14) None (slice (Some 32) None bs)).
  assert (Hl1 : len v1 <= len bs).
  { unfold v1. pose proof (len_slice_le (slice (Some 32) None bs) (Some 14) None). pose proof (len_slice_le bs (Some 32) None). lia. }
  match goal with |- context [floors_unpack fuel ?n v1] => destruct (floors_unpack_total3 fuel n v1 ltac:(clear - Hf Hl1; lia)) as [Hno Hok];
    destruct (floors_unpack fuel n v1) as [[s t]|e] eqn:El end; cbn [bind]; cbv beta iota.
  2:{ split; [apply noof_spec; destruct e; exact Hno|discriminate]. }
  match goal with |- context [entry_handle_unpack ?x] => pose proof (noof_entry_handle_unpack x) as Hne; destruct (entry_handle_unpack x) as [eh|e] eqn:Ee end; cbn [bind].
  2:{ split; [apply noof_spec; destruct e; exact Hne|discriminate]. }
  split; [discriminate|]. intros m t' H. apply Ok_inj in H.
  assert (Hm : em_tower m = snd s /\ t' = t) by (split; [inversion H; reflexivity|congruence]). destruct Hm as [Hm ->]. rewrite Hm.
  specialize (Hok _ _ eq_refl). pose proof (len_nonneg (fst s)). unfold bytes in *. lia.
Qed.
