(* Tie theorems for _rpc/_verification.py (Command and its registered subclasses, VerificationTrailer) against
   Model/Verification.v; conventions as in Proofs/Flow_rpc_pdu.v.  A command object is the model's `command` record:
   kind (typed fields of a known class), command, flags and the raw `value` cache; `self.command` of a known class is
   its class default (command_type).  VerificationTrailer.unpack's `while True:` loop consumes the interpreter's fuel
   exactly like the model's vt_loop: the tie holds for every fuel, OutOfFuel included. *)
From V Require Import Prelude.Base Prelude.PyInt Prelude.PySlice Prelude.PyStr Prelude.PyAst Prelude.PyWorld gen.F_rpc.
From V Require Import Model.Pdu Model.Request Model.RpcLoop Model.Bind Model.Verification Model.Epm Flow.World_rpc Proofs.Flow_rpc_lib Proofs.Flow_rpc_wf.
From V Require Import Proofs.RpcLib Proofs.RpcVerification.

(* in this file a command's ranges are computed through: the kind is known in every lemma *)
Local Arguments command_ranges c /.
Local Arguments command_generic_ranges command flags value /.
Local Open Scope string_scope.
Local Open Scope list_scope.
Local Open Scope Z_scope.

(* Command.pack, the base class method: packs the raw fields (command, flags, value) of any command object *)
Lemma flow_command_pack mf fuel c :
  run (W mf) fuel k_flow_command_pack [VO (OCommand c)] =
  chk (command_generic_ranges (command_type c) (cmd_flags c) (cmd_value c))
      (command_generic_pack (command_type c) (cmd_flags c) (cmd_value c)).
Proof. unfold command_generic_pack, command_generic_ranges, chk. destruct c as [k t f v]. tie. Qed.

(* on an instance of Command proper (kind CK_Generic) that is the model's command_pack *)
Lemma flow_command_pack_generic mf fuel c : cmd_kind_of c = CK_Generic ->
  run (W mf) fuel k_flow_command_pack [VO (OCommand c)] = chk (command_ranges c) (command_pack c).
Proof. intros Hk. rewrite flow_command_pack. unfold command_ranges, command_pack, command_type, command_value. rewrite Hk. reflexivity. Qed.

Lemma flow_command_unpack mf fuel data :
  run (W mf) fuel k_flow_command_unpack [VO (OCls CCommand); VB data] = (let* c := command_unpack data in Ok (VO (OCommand c))).
Proof.
  unfold command_unpack, k_cmd_type_mask, k_cmd_flags_mask. tie.
  all: match goal with H : (_ =? _) = true |- _ => apply Z.eqb_eq in H; rewrite H; reflexivity end.
Qed.

Lemma flow_cmdbitmask_pack mf fuel c bits : cmd_kind_of c = CK_Bitmask bits ->
  run (W mf) fuel k_flow_cmdbitmask_pack [VO (OCommand c)] = chk (command_ranges c) (command_pack c).
Proof.
  destruct c as [k t f v]. cbn [cmd_kind_of]. intros ->. unfold chk. tie.
Qed.

Lemma flow_cmdbitmask_unpack mf fuel flags value :
  run (W mf) fuel k_flow_cmdbitmask_unpack [VO (OCls CCommandBitmask); VI flags; VB value] =
  Ok (VO (OCommand (known_command (CK_Bitmask (le_val value)) flags))).
Proof. reflexivity. Qed.

Lemma flow_cmdpcontext_pack mf fuel c i t : cmd_kind_of c = CK_PContext i t ->
  run (W mf) fuel k_flow_cmdpcontext_pack [VO (OCommand c)] = chk (command_ranges c) (command_pack c).
Proof.
  destruct c as [k ty f v]. cbn [cmd_kind_of]. intros ->. unfold chk. tie.
Qed.

Lemma flow_cmdpcontext_unpack mf fuel flags value :
  run (W mf) fuel k_flow_cmdpcontext_unpack [VO (OCls CCommandPContext); VI flags; VB value] =
  (let* i := syntax_id_unpack value in let* t := syntax_id_unpack (slice (Some 20) None value) in
   Ok (VO (OCommand (known_command (CK_PContext i t) flags)))).
Proof. tie. Qed.

Lemma flow_cmdheader2_pack mf fuel c pt dr call ctx op : cmd_kind_of c = CK_Header2 pt dr call ctx op ->
  run (W mf) fuel k_flow_cmdheader2_pack [VO (OCommand c)] = chk (command_ranges c) (command_pack c).
Proof.
  destruct c as [k ty f v]. cbn [cmd_kind_of]. intros ->. unfold chk. tie.
Qed.

Lemma flow_cmdheader2_unpack mf fuel flags value :
  run (W mf) fuel k_flow_cmdheader2_unpack [VO (OCls CCommandHeader2); VI flags; VB value] =
  (let* b0 := index value 0 in
   let* packet_type := enum_lookup c_PacketType_values b0 in
   let* dr := data_rep_unpack (slice (Some 4) (Some 8) value) in
   Ok (VO (OCommand (known_command (CK_Header2 packet_type dr (le_val (slice (Some 8) (Some 12) value))
         (le_val (slice (Some 12) (Some 14) value)) (le_val (slice (Some 14) (Some 16) value))) flags)))).
Proof. tie. Qed.

Lemma flow_vt_pack mf fuel cs :
  run (W mf) fuel k_flow_vt_pack [VO (OVT cs)] = chk (forallb command_ranges cs) (verification_trailer_pack cs).
Proof.
  unfold verification_trailer_pack, chk, k_flow_vt_pack. hide_comps. tie. all: comp_step OCommand command_ranges command_pack; tie.
Qed.

Lemma commands_of_inj l : commands_of (map (fun c => VO (OCommand c)) l) = Some l.
Proof. induction l as [|a r IH]; [reflexivity|]. cbn. rewrite IH. reflexivity. Qed.


Definition vt_body : list pstmt :=
  [ SIf (PCmp "<" (PCall "len" [(PName "view")]) (PInt 4)) [ SRaise "ValueError" ] [];
    SAssign ["cmd"] (PCall "Command.unpack" [(PName "view")]);
    SExpr (PMeth "append" (PName "commands") [(PName "cmd")]);
    SAssign ["view"] (PSlice (PName "view") (PBin "+" (PInt 4) (PCall "len" [(PAttr (PName "cmd") "value")])) PNone);
    SIf (PBin "&" (PAttr (PName "cmd") "flags") (PName "CommandFlags.SEC_VT_COMMAND_END")) [ SBreak ] [] ].

(* the `while True:` loop of VerificationTrailer.unpack against vt_loop, fuel for fuel (both give OutOfFuel at 0) *)
Lemma vt_while mf fuel : forall n view acc ticks env,
  lookup "view" env = Some (VB view) -> lookup "commands" env = Some (vcommands acc) ->
  lookup "cls" env = Some (VO (OCls CVerificationTrailer)) -> lookup "CommandFlags.SEC_VT_COMMAND_END" env = None ->
  match vt_loop n view acc ticks with
  | Ok (cs, _) => exists env', while_loop (W mf) fuel (PBool true) vt_body n env = Ok (Next env')
                   /\ lookup "commands" env' = Some (vcommands cs) /\ lookup "cls" env' = Some (VO (OCls CVerificationTrailer))
  | Raise e => while_loop (W mf) fuel (PBool true) vt_body n env = Raise e
  end.
Proof.
  induction n as [|n IH]; intros view acc ticks env Hv Hc Hcls Hg; [reflexivity|].
  cbn [vt_loop]. rewrite while_loop_S. unfold vt_body at 1, k_vt_guard, k_vt_end_mask.
  tie.
  - eexists; split; [reflexivity|]. cbn. unfold vcommands. rewrite map_app. auto.
  - apply IH; cbn; auto. unfold vcommands. rewrite map_app. reflexivity.
Qed.

Lemma flow_vt_unpack mf fuel data :
  run (W mf) fuel k_flow_vt_unpack [VO (OCls CVerificationTrailer); VB data] =
  (let* (cs, _) := verification_trailer_unpack fuel data in Ok (VO (OVT cs))).
Proof.
  unfold verification_trailer_unpack, k_flow_vt_unpack.
  match goal with |- context [SWhile ?a ?b] => remember (SWhile a b) as loop end.
  tie1. destruct (negb (bytes_eqb _ _)) eqn:Hs; tie1.
  subst loop. rewrite exec_while. fold vt_body.
  match goal with |- context [while_loop _ _ _ _ _ ?env] =>
    pose proof (vt_while mf fuel fuel (slice (Some 8) None data) [] 0 env) as HL end.
  cbn in HL. specialize (HL eq_refl eq_refl eq_refl eq_refl).
  destruct (vt_loop fuel (slice (Some 8) None data) [] 0) as [[cs t]|e].
  - destruct HL as [env' [He [Hc Hcls]]]. rewrite He. unfold vcommands in *. cbn. lk. rewrite commands_of_inj. reflexivity.
  - rewrite HL. reflexivity.
Qed.

(* ---- well-formed commands are in range ---- *)
Lemma wf_command_ranges c : wf_command c = true -> command_ranges c = true.
Proof.
  unfold wf_command. intros H. split_wf H.
  assert (Hl : in_range 2 (Z.lor (command_type c) (cmd_flags c)) = true).
  { apply in_range_spec. rewrite P_2. apply (cmd_field_split (command_type c) (cmd_flags c)); [|assumption].
    unfold command_type. destruct (cmd_kind_of c); try (vm_compute; split; congruence).
    split_wf H0. lia. }
  cbn [command_ranges command_generic_ranges]. rewrite Hl, H2, andb_true_r.
  destruct (cmd_kind_of c) as [|bits|i t|pt dr call ctx op]; cbn [cmd_kind_ranges]; [reflexivity|exact H0| |].
  - split_wf H0. rewrite (wf_syntax_id_ranges _ H0), (wf_syntax_id_ranges _ H3). reflexivity.
  - split_wf H0. rewrite (mem_in_range 1 _ c_PacketType_values eq_refl H0), (wf_data_rep_ranges _ H6). use_true.
Qed.
Lemma wf_commands_ranges cs : wf_commands cs = true -> forallb command_ranges cs = true.
Proof.
  induction cs as [|c r IH]; [reflexivity|]. intros H. cbn [wf_commands] in H. cbn [forallb].
  destruct r as [|c' r'].
  - apply andb_prop in H. destruct H as [H _]. rewrite (wf_command_ranges c H). reflexivity.
  - apply andb_prop in H. destruct H as [H Hr]. apply andb_prop in H. destruct H as [H _].
    rewrite (wf_command_ranges c H), (IH Hr). reflexivity.
Qed.
Lemma flow_vt_pack_wf mf fuel cs : wf_commands cs = true ->
  run (W mf) fuel k_flow_vt_pack [VO (OVT cs)] = Ok (VB (verification_trailer_pack cs)).
Proof. intros H. rewrite flow_vt_pack, (wf_commands_ranges cs H). reflexivity. Qed.
