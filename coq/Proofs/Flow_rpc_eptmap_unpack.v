(* Part 1 of 2 (build_tcpip_tower, EptMap.unpack).  Tie theorems for the ept_map REQUEST side of _epm.py (build_tcpip_tower, EptMap.pack / unpack) against Model/Epm.v;
   conventions as in Proofs/Flow_rpc_pdu.v and Flow_rpc_bind.v (fuel of the floor loop). Listed under C12 only. *)
From V Require Import Prelude.Base Prelude.PyInt Prelude.PySlice Prelude.PyStr Prelude.PyAst Prelude.PyWorld gen.F_rpc.
From V Require Import Model.Pdu Model.Request Model.RpcLoop Model.Bind Model.Verification Model.Epm Flow.World_rpc Proofs.Flow_rpc_lib.
From V Require Import Proofs.RpcTotalPdu.
Local Open Scope string_scope.
Local Open Scope list_scope.
Local Open Scope Z_scope.

Lemma flow_build_tcpip_tower mf fuel service data_rep port addr :
  run (W mf) fuel k_flow_build_tcpip_tower [VO (OSyntaxId service); VO (OSyntaxId data_rep); VI port; VI addr] =
  Ok (vfloors (build_tcpip_tower service data_rep port addr)).
Proof. reflexivity. Qed.

Lemma floors_of_inj l : floors_of (map (fun f => VO (OFloor f)) l) = Some l.
Proof. induction l as [|a r IH]; [reflexivity|]. cbn. rewrite IH. reflexivity. Qed.

Ltac norm_in Hn :=
  cbn in Hn;
  repeat match goal with H : ?t = _ |- _ => match type of Hn with context [t] => rewrite H in Hn end end; cbn in Hn.

Lemma flow_eptmap_unpack mf mfuel fuel data :
  ept_map_unpack mfuel data <> Raise OutOfFuel ->
  run (W mf) fuel k_flow_eptmap_unpack [VO (OCls CEptMap); VB data] = lift_fst OEptMap (ept_map_unpack mfuel data).
Proof.
  unfold ept_map_unpack, floors_unpack, entry_handle_unpack, lift_fst, k_flow_eptmap_unpack, k_eptmap_unpack_pad. intros Hne.
  match goal with |- context [SFor ?a ?b ?c] => remember (SFor a b c) as loop end.
  tie.
  all: subst loop; rewrite exec_for; cbn.
  all: match goal with |- context [update "obj" ?ov _] =>
    loop_setup (fun (s : bytes * list floor) (e : @penv V) =>
     lookup "view" e = Some (VB (fst s)) /\ lookup "tower" e = Some (vfloors (snd s))
     /\ lookup "cls" e = Some (VO (OCls CEptMap)) /\ lookup "obj" e = Some ov
     /\ lookup "padding" e = Some (VI (- (le_val (slice None (Some 8) (slice (Some 32) None data)) + 4) mod 8))) end.
  all: match type of HL with ?A -> _ => assert (Hb : A);
    [ intros [view acc] env v (Hv & Ht & H1 & H2 & H3); cbn [fst snd] in *; tie;
      eexists; (split; [reflexivity|]); cbn; unfold vfloors; rewrite map_app; cbn; repeat split; auto | ] end.
  all: specialize (HL Hb); cbn [fst snd] in HL; clear Hb.
  all: match type of HL with ?A -> _ => assert (HR : A) by (cbn; repeat split; auto) end.
  all: specialize (HL HR); clear HR; cbn [bind] in Hne.
  all: destruct (for_range _ _ _ _ _) as [[[view' acc'] t]|err] eqn:EF;
    [ destruct HL as [env' [He (Hv & Ht & H1 & H2 & H3)]]; [norm_in Hne; congruence|]; cbn [fst snd] in *;
      rewrite He; unfold vfloors in *; tie; rewrite ?floors_of_inj; try reflexivity
    | rewrite HL by (norm_in Hne; congruence); tie ].
Qed.

Lemma flow_eptmap_unpack_total mf mfuel fuel data : len data < Z.of_nat mfuel ->
  run (W mf) fuel k_flow_eptmap_unpack [VO (OCls CEptMap); VB data] = lift_fst OEptMap (ept_map_unpack mfuel data).
Proof. intros H. apply flow_eptmap_unpack. exact (proj1 (ept_map_unpack_total data mfuel H)). Qed.
