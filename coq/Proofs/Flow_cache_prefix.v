(* The cache after a FAILING public call (concrete model).  Proofs/Flow_cache_public.v ties value and final cache of a call that
   returns; when the call raises, PyAstMut.run_mut yields `Raise e` without the environment, so nothing is said there about the
   cache object the caller still holds.  Here the bodies are run up to two cut points (PyAstMut.exec_block on a prefix of the
   regenerated statement list, then the local `cache`):
     * all statements but the final `return _decrypt_blob(..)` / `return _encrypt_blob(..)`  - the cache as the store left it,
       whether or not the decrypt / encrypt that follows raises (reachable: the DC's envelope is stored, then _decrypt_blob raises);
     * the statements up to and including the cache lookup (`rk = cache._get_key(..)`, resp. `rk = _get_protection_gke_from_cache(..)`)
       - the cache a call leaves behind when the network step after a miss raises.
   The statements before the lookup do not touch `cache`.  unprotect_online_cache_cases / protect_online_cache_cases say that these
   are exactly the three caches the model returns (stored / looked up / initial), by the point the pipeline reaches. *)
From V Require Import Prelude.Base Prelude.PyAst Prelude.PyAstMut Prelude.PyWorld gen.Kernels gen.K_cache gen.F_cache.
From V Require Import Model.Types Model.Crypto Model.KeyId Model.Gkdi Model.Kek Model.SecDesc Model.Blob Model.CryptoWrap Model.Client.
From V Require Import Flow.World_cache Proofs.Flow_cache_public.
Local Open Scope string_scope.
Local Open Scope list_scope.
Local Open Scope Z_scope.

Arguments len : simpl never.
Arguments blob_unpack : simpl never.
Arguments get_target_sd : simpl never.
Arguments cc_get_key : simpl never.
Arguments cc_store_key : simpl never.
Arguments protection_gke_from_cache : simpl never.
Arguments gke_is_public_key : simpl never.

Definition cache_local (r : res (PyAstMut.outcome (V := pv obj))) : res (option (pv obj)) :=
  let* o := r in match o with PyAstMut.Next env => Ok (PyAstMut.lookup "cache" env) | _ => Ok None end.
Definition lift_cache (r : res ccache) : res (option (pv obj)) := let* cc := r in Ok (Some (VO (OCache cc))).

Definition unprotect_env (data : bytes) (server : option pystr) (u p a : pv obj) (co : option ccache) : PyAstMut.penv (V := pv obj) :=
  [("data", VB data); ("server", vstr_opt server); ("username", u); ("password", p); ("auth_protocol", a); ("cache", vcache_opt co)].
Definition protect_env (data : bytes) (sid : pystr) (rkid : option bytes) (server : option pystr) (dom u p a : pv obj)
    (co : option ccache) : PyAstMut.penv (V := pv obj) :=
  [("data", VB data); ("protection_descriptor", VS sid); ("root_key_identifier", vbytes_opt rkid); ("server", vstr_opt server);
   ("domain_name", dom); ("username", u); ("password", p); ("auth_protocol", a); ("cache", vcache_opt co)].

Section Ties.
Context (c : Crypto) (rnd_cek rnd_iv rnd_kek : bytes) (time_ns : Z).
Context (dns : list (pv obj) -> res pystr) (getkey : list (pv obj) -> res envelope).
Notation MWc := (MW c rnd_cek rnd_iv rnd_kek time_ns dns getkey).

(* the model's pipelines up to the cache lookup / up to and including the store *)
Definition unprotect_looked_up (cache : ccache) (data : bytes) : res ccache :=
  let* b := blob_unpack data in
  let* target_sd := get_target_sd (b_sid b) in
  let kid := b_key_identifier b in
  let* (_, cache1) := cc_get_key c cache target_sd (kid_rkid kid) (kid_l0 kid) (kid_l1 kid) (kid_l2 kid) in
  Ok cache1.
Definition unprotect_stored (cache : ccache) (data : bytes) (server : option pystr) (u p a : pv obj) : res ccache :=
  let* b := blob_unpack data in
  let* target_sd := get_target_sd (b_sid b) in
  let kid := b_key_identifier b in
  let* (o, cache1) := cc_get_key c cache target_sd (kid_rkid kid) (kid_l0 kid) (kid_l1 kid) (kid_l2 kid) in
  let* rk := envelope_for dns getkey o server (VS (kid_domain kid))
               [VB target_sd; VB (kid_rkid kid); VI (kid_l0 kid); VI (kid_l1 kid); VI (kid_l2 kid); u; p; a] in
  Ok (if gke_is_public_key rk then cache1 else cc_store_key cache1 target_sd rk).

Definition protect_looked_up (cache : ccache) (sid : pystr) (rkid : option bytes) : res ccache :=
  let* sd := get_target_sd sid in
  let* (_, cache1) := protection_gke_from_cache c cache rkid sd time_ns in
  Ok cache1.
Definition protect_stored (cache : ccache) (sid : pystr) (rkid : option bytes) (server : option pystr) (dom u p a : pv obj) : res ccache :=
  let* sd := get_target_sd sid in
  let* (o, cache1) := protection_gke_from_cache c cache rkid sd time_ns in
  let* rk := envelope_for dns getkey o server dom [VB sd; vbytes_opt rkid; VI (-1); VI (-1); VI (-1); u; p; a] in
  Ok (if gke_is_public_key rk then cache1 else cc_store_key cache1 sd rk).

(* the cache the model returns is the stored one if the pipeline gets that far, else the looked-up one, else the initial one *)
Lemma unprotect_online_cache_cases cache data server u p a :
  snd (unprotect_online c dns getkey cache data server u p a)
  = match unprotect_stored cache data server u p a with
    | Ok cc2 => cc2
    | Raise _ => match unprotect_looked_up cache data with Ok cc1 => cc1 | Raise _ => cache end
    end.
Proof.
  unfold unprotect_online, unprotect_stored, unprotect_looked_up.
  destruct (blob_unpack data) as [b|e]; cbn [bind]; [|reflexivity].
  destruct (get_target_sd (b_sid b)) as [sd|e]; cbn [bind]; [|reflexivity].
  destruct (cc_get_key _ _ _ _ _ _ _) as [[o cache1]|e]; cbn [bind]; [|reflexivity].
  destruct (envelope_for _ _ _ _ _ _) as [rk|e]; cbn [bind]; reflexivity.
Qed.

Lemma protect_online_cache_cases cache data sid rkid server dom u p a :
  snd (protect_online c rnd_cek rnd_iv rnd_kek time_ns dns getkey cache data sid rkid server dom u p a)
  = match protect_stored cache sid rkid server dom u p a with
    | Ok cc2 => cc2
    | Raise _ => match protect_looked_up cache sid rkid with
                 | Ok cc1 => cc1
                 | Raise _ => match get_target_sd sid with Ok sd => protection_lookup_cache c cache rkid sd time_ns | Raise _ => cache end
                 end
    end.
Proof.
  unfold protect_online, protect_stored, protect_looked_up.
  destruct (get_target_sd sid) as [sd|e]; cbn [bind]; [|reflexivity].
  destruct (protection_gke_from_cache _ _ _ _ _) as [[o cache1]|e]; cbn [bind]; [|reflexivity].
  destruct (envelope_for _ _ _ _ _ _) as [rk|e]; cbn [bind]; reflexivity.
Qed.

Lemma truthy_vs_cons (x : Z) (r : pystr) : negb (len (x :: r) =? 0) = true.
Proof. rewrite len_cons. pose proof (len_nonneg r). lia. Qed.
Lemma bytes_opt_of_vbytes_opt o : bytes_opt_of (vbytes_opt o) = Some o.
Proof. destruct o; reflexivity. Qed.

Ltac fin_pub := idtac; match goal with rk : envelope |- _ => destruct (gke_is_public_key rk); cbn; reflexivity end.
Ltac miss_path server :=
  destruct server as [[|?x ?s]|]; cbn; try rewrite truthy_vs_cons; try change (len (@nil Z)) with 0; cbn;
  try (destruct (dns _) as [?t|?e]; cbn; [|reflexivity]);
  (destruct (getkey _) as [?rk|?e]; cbn; [fin_pub|reflexivity]).

Ltac unprotect_stored_script data co server :=
  unfold cache_local, lift_cache, unprotect_stored, unprotect_env, envelope_for, server_of, cache_or_new; cbn;
  destruct (blob_unpack data) as [?b|?e]; cbn; [|reflexivity];
  match goal with b : blob |- _ => destruct (get_target_sd (b_sid b)) as [?sd|?e]; cbn; [|reflexivity] end;
  destruct co as [?cc|]; cbn;
  (match goal with |- context [cc_get_key c ?cc0 ?s ?r ?x ?y ?z] => destruct (cc_get_key c cc0 s r x y z) as [[[?rk|] ?cache1]|?e] end; cbn;
   [ fin_pub | miss_path server | reflexivity ]).

Lemma flow_unprotect_cache_stored fuel data server u p a co :
  cache_local (PyAstMut.exec_block MWc fuel (removelast (pf_body k_flow_ncrypt_unprotect_secret)) (unprotect_env data server u p a co))
  = lift_cache (unprotect_stored (cache_or_new co) data server u p a).
Proof. unprotect_stored_script data co server. Qed.
Lemma flow_async_unprotect_cache_stored fuel data server u p a co :
  cache_local (PyAstMut.exec_block MWc fuel (removelast (pf_body k_flow_async_ncrypt_unprotect_secret)) (unprotect_env data server u p a co))
  = lift_cache (unprotect_stored (cache_or_new co) data server u p a).
Proof. unprotect_stored_script data co server. Qed.

Ltac unprotect_looked_script data co :=
  unfold cache_local, lift_cache, unprotect_looked_up, unprotect_env, cache_or_new; cbn;
  destruct (blob_unpack data) as [?b|?e]; cbn; [|reflexivity];
  match goal with b : blob |- _ => destruct (get_target_sd (b_sid b)) as [?sd|?e]; cbn; [|reflexivity] end;
  destruct co as [?cc|]; cbn;
  (match goal with |- context [cc_get_key c ?cc0 ?s ?r ?x ?y ?z] => destruct (cc_get_key c cc0 s r x y z) as [[[?rk|] ?cache1]|?e] end; cbn; reflexivity).

Lemma flow_unprotect_cache_looked_up fuel data server u p a co :
  cache_local (PyAstMut.exec_block MWc fuel (firstn 4 (pf_body k_flow_ncrypt_unprotect_secret)) (unprotect_env data server u p a co))
  = lift_cache (unprotect_looked_up (cache_or_new co) data).
Proof. unprotect_looked_script data co. Qed.
Lemma flow_async_unprotect_cache_looked_up fuel data server u p a co :
  cache_local (PyAstMut.exec_block MWc fuel (firstn 4 (pf_body k_flow_async_ncrypt_unprotect_secret)) (unprotect_env data server u p a co))
  = lift_cache (unprotect_looked_up (cache_or_new co) data).
Proof. unprotect_looked_script data co. Qed.

Ltac protect_stored_script sid co server :=
  unfold cache_local, lift_cache, protect_stored, protect_env, envelope_for, server_of, cache_or_new; cbn;
  destruct (get_target_sd sid) as [?sd|?e]; cbn; [|reflexivity];
  destruct co as [?cc|]; cbn; rewrite bytes_opt_of_vbytes_opt; cbn;
  (match goal with |- context [protection_gke_from_cache c ?cc0 ?r ?s ?t] =>
     destruct (protection_gke_from_cache c cc0 r s t) as [[[?rk|] ?cache1]|?e] end; cbn;
   [ fin_pub | miss_path server | reflexivity ]).

Lemma flow_protect_cache_stored fuel data sid rkid server dom u p a co :
  cache_local (PyAstMut.exec_block MWc fuel (removelast (pf_body k_flow_ncrypt_protect_secret)) (protect_env data sid rkid server dom u p a co))
  = lift_cache (protect_stored (cache_or_new co) sid rkid server dom u p a).
Proof. protect_stored_script sid co server. Qed.
Lemma flow_async_protect_cache_stored fuel data sid rkid server dom u p a co :
  cache_local (PyAstMut.exec_block MWc fuel (removelast (pf_body k_flow_async_ncrypt_protect_secret)) (protect_env data sid rkid server dom u p a co))
  = lift_cache (protect_stored (cache_or_new co) sid rkid server dom u p a).
Proof. protect_stored_script sid co server. Qed.

Ltac protect_looked_script sid co :=
  unfold cache_local, lift_cache, protect_looked_up, protect_env, cache_or_new; cbn;
  destruct (get_target_sd sid) as [?sd|?e]; cbn; [|reflexivity];
  destruct co as [?cc|]; cbn; rewrite bytes_opt_of_vbytes_opt; cbn;
  (match goal with |- context [protection_gke_from_cache c ?cc0 ?r ?s ?t] =>
     destruct (protection_gke_from_cache c cc0 r s t) as [[[?rk|] ?cache1]|?e] end; cbn; reflexivity).

Lemma flow_protect_cache_looked_up fuel data sid rkid server dom u p a co :
  cache_local (PyAstMut.exec_block MWc fuel (firstn 7 (pf_body k_flow_ncrypt_protect_secret)) (protect_env data sid rkid server dom u p a co))
  = lift_cache (protect_looked_up (cache_or_new co) sid rkid).
Proof. protect_looked_script sid co. Qed.
Lemma flow_async_protect_cache_looked_up fuel data sid rkid server dom u p a co :
  cache_local (PyAstMut.exec_block MWc fuel (firstn 7 (pf_body k_flow_async_ncrypt_protect_secret)) (protect_env data sid rkid server dom u p a co))
  = lift_cache (protect_looked_up (cache_or_new co) sid rkid).
Proof. protect_looked_script sid co. Qed.
End Ties.
