(* C08: injectivity, the Python entry points in terms of the structured functions, regenerated vectors. *)
From V Require Import Prelude.Base Prelude.PyInt Prelude.PySlice gen.K_sd gen.C_sd Model.Types Model.SecDesc Spec.Dtyp.
From V Require Import Proofs.SecDescK Proofs.SecDescStr Proofs.SecDescLayout.

Lemma dsid_of_inj s1 s2 : dsid_of s1 = dsid_of s2 -> s1 = s2.
Proof. destruct s1, s2. unfold dsid_of. cbn. intros E. injection E as -> -> ->. reflexivity. Qed.

Lemma sid_bytes_inj s1 s2 : wf_sid s1 = true -> wf_sid s2 = true -> sid_bytes s1 = sid_bytes s2 -> s1 = s2.
Proof.
  intros H1 H2 E. pose proof (parse_sid_app s1 [] H1) as P1. pose proof (parse_sid_app s2 [] H2) as P2.
  rewrite E, P2 in P1. apply dsid_of_inj. congruence.
Qed.

Lemma target_sd_inj s1 s2 : wf_sid s1 = true -> wf_sid s2 = true -> target_sd s1 = target_sd s2 -> s1 = s2.
Proof.
  intros H1 H2 E. pose proof (layout s1 H1) as P1. pose proof (layout s2 H2) as P2.
  rewrite E, P2 in P1. apply dsid_of_inj. unfold expected_target in P1. congruence.
Qed.

(* ---- the entry points ---------------------------------------------------------------------------------------- *)
Lemma to_bytes_le_ok w z : 0 <= z < P w -> to_bytes_le w z = Ok (le w z).
Proof. intros H. unfold to_bytes_le. destruct ((0 <=? z) && (z <? P w)) eqn:E; [reflexivity|lia]. Qed.

Lemma ace_to_bytes_ok str s m : sid_parse str = Ok s -> 0 <= m < 2 ^ 32 -> ace_to_bytes str m = Ok (ace_bytes s m).
Proof.
  intros Hp Hm. pose proof (sid_parse_wf str s Hp) as Hw. destruct (wf_sid_facts s Hw) as (_ & _ & Hn & _).
  unfold ace_to_bytes. rewrite Hp. cbn [bind]. pose proof (len_sid_bytes s) as Hl. unfold len in Hl at 2.
  rewrite to_bytes_le_ok by (rewrite P_2; lia). cbn [bind].
  change (Z.to_nat k_ace_mask_width) with 4%nat. rewrite to_bytes_le_ok by (rewrite P_4; lia). reflexivity.
Qed.
Lemma ace_to_bytes_raise str e m : sid_parse str = Raise e -> ace_to_bytes str m = Raise e.
Proof. intros Hp. unfold ace_to_bytes. now rewrite Hp. Qed.

Lemma get_target_sd_spec str : get_target_sd str = let* s := sid_parse str in Ok (target_sd s).
Proof.
  unfold get_target_sd. destruct (sid_parse str) as [s|e] eqn:Hp.
  - pose proof (sid_parse_wf str s Hp) as Hw. destruct (wf_sid_facts s Hw) as (_ & _ & Hn & _).
    change k_tsd_mask_target with 3. change k_tsd_mask_everyone with 2.
    rewrite (ace_to_bytes_ok str s 3 Hp) by lia. cbn [bind].
    rewrite (ace_to_bytes_ok k_tsd_everyone sid_everyone 2 parse_everyone) by lia. cbn [bind].
    unfold sd_to_bytes, acl_check, acl_to_bytes. cbn [bind concat length].
    rewrite !len_app, !len_ace_bytes, len_nil. cbn [sid_subs sid_everyone]. unfold len.
    rewrite to_bytes_le_ok by (rewrite P_2; cbn [length]; lia). cbn [bind].
    rewrite to_bytes_le_ok by (rewrite P_2; cbn [length]; lia). cbn [bind].
    rewrite parse_owner, parse_group. cbn [bind]. unfold target_sd.
    rewrite const_owner, const_group, const_everyone. reflexivity.
  - rewrite (ace_to_bytes_raise str e _ Hp). reflexivity.
Qed.

Lemma get_target_sd_raises str e : get_target_sd str = Raise e -> e = ValueError.
Proof.
  rewrite get_target_sd_spec. destruct (sid_parse str) eqn:E; cbn [bind]; [discriminate|].
  intros [= <-]. eapply sid_parse_raises; eassumption.
Qed.

(* ---- byte vectors computed by the implementation at regeneration time ------------------------------------------- *)
Definition str_sid5 : pystr :=   (* S-1-5-21-4151808797-3430561092-2843464588-1104 *)
  [83;45;49;45;53;45;50;49;45;52;49;53;49;56;48;56;55;57;55;45;51;52;51;48;53;54;49;48;57;50;45;50;56;52;51;52;54;52;53;56;56;45;49;49;48;52].
Definition str_target : pystr := [83;45;49;45;53;45;50;49;45;49;45;50;45;51;45;53;48;48].   (* S-1-5-21-1-2-3-500 *)
Definition str_admins : pystr := [83;45;49;45;53;45;51;50;45;53;52;52].   (* S-1-5-32-544 *)

Lemma vectors :
  sid_to_bytes str_sid5 = Ok c_sd_vec_sid /\
  ace_to_bytes k_tsd_everyone 2 = Ok c_sd_vec_ace /\
  (let* a1 := ace_to_bytes k_tsd_owner 1 in let* a2 := ace_to_bytes k_tsd_everyone 2 in acl_to_bytes [a1; a2]) = Ok c_sd_vec_acl /\
  (let* a1 := ace_to_bytes k_tsd_owner 1 in let* a2 := ace_to_bytes k_tsd_everyone 2 in sd_to_bytes k_tsd_owner str_admins [a1] [a2]) = Ok c_sd_vec_sd_sacl /\
  get_target_sd str_target = Ok c_sd_vec_target.
Proof. repeat split; vm_compute; reflexivity. Qed.
