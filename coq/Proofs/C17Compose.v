(* C17 composed with C01-C03: what the conversation with a conforming domain controller returns is what the round trip needs.
   Part 1 (no network): `protected_blob` -- the interface between the protecting and the unprotecting side: the blob parses (C06) to
     an AES256-wrap / AES256-GCM blob for the SID whose key identifier names (root key id, L0, L1, L2) and whose KEK is the one EVERY
     conforming covering seed-key envelope of the root key yields (C02 + C03).  Introduced by each producer of the model: protect_offline
     from the root key (C01), encrypt_blob on a conforming seed-key / DH / ECDH envelope a DC delivered.  Eliminated by: unprotect_offline
     on any cache_ok cache (C01 again) and by _decrypt_blob with any conforming covering envelope (the online path).
   Part 2: the public functions with the cache-miss branch filled in by the conversation of Model/Conversation.v (`unprotect_via_dc`,
     `protect_via_dc`), `dc_marshals` (the RESPONSE the peer script delivers is the NDR64 reply of the packed envelope e), and the two
     end-to-end corollaries.
   Part 3: instances under the guarded symbolic crypto `symg`. *)
From Coq Require Import String.
From V Require Import Prelude.Base Prelude.PyInt Prelude.PySlice Prelude.PyStr.
From V Require Import gen.C_rpc gen.K_online gen.C_online.
From V Require Import Model.Pdu Model.Request Model.Handshake Model.Framing Model.Seal Model.Conversation Spec.GkdiLayout.
From V Require Import Proofs.GkdiEnvelope Proofs.C17.
From V Require Import gen.Kernels gen.K_cache gen.K_gkdi gen.K_asn1 gen.C_asn1 gen.C_gkdi gen.Consts gen.K_e2e.
From V Require Import Model.Types Model.Crypto Model.Sym Model.Chain Model.KeyId Model.Gkdi Model.Kek Model.SecDesc.
From V Require Import Model.Asn1 Model.Pkcs7 Model.Blob Model.CryptoWrap Model.Interval Model.Client.
From V Require Import Spec.GkdiSpec Spec.KekSpec.
From V Require Import Proofs.BlobLib Proofs.BlobPkcs7 Proofs.GkdiLib Proofs.GkdiKeyId Proofs.BlobMain.
From V Require Import Proofs.C02 Proofs.C09 Proofs.C10 Proofs.KekLib Proofs.Kek Proofs.SecDescMain Proofs.C01Lib Proofs.C01.

(* ---- a conforming DC marshalling the envelope e: the RESPONSE PDU the peer script's GetKey stream delivers, once the security context
   has unwrapped it (C16), carries the NDR64 reply (Spec/GkdiLayout.v) of the packed e followed by the padding its security trailer
   declares.  These are the hypotheses of the last clause of C17_result, stated about the script. ---- *)
Definition dc_marshals (f : flavour) (unwrap : unwrap_fn) (dc : dc_script) (sign_header : bool) (e : envelope) : Prop :=
  forall pdu hdr rsp,
    recv_pdu f (ds_getkey_stream dc) (ds_sched dc) = Ok pdu -> pdu_header_unpack (firstn 16 pdu) = Ok hdr ->
    (let a := unwrap_slices hdr 24 sign_header pdu in
     exists dec, unwrap (ua_header a) (ua_body a) (ua_trailer a) (ua_signature a) sign_header = Ok dec /\
       exists body h st, pdu_split (assign_slice pdu 24 (h_frag_len hdr - (h_auth_len hdr + 8)) dec) = Ok (body, h, st) /\
         h_packet_type h = c_PT_RESPONSE /\ response_unpack body h st = Ok rsp) ->
    exists out reply padding st, wf_env e = true /\ GroupKeyEnvelope_pack e = Ok out /\ ndr64_getkey_reply out 0 = Some reply /\
      rs_stub_data rsp = reply ++ padding /\ rs_sec_trailer rsp = Some st /\ st_pad_length st = len padding.

(* C17_result, read as an equation: a successful conversation with such a script returns e *)
Lemma conversation_envelope (wrap : wrap_fn) (unwrap : unwrap_fn) pv f legs dc sd rk l0 l1 l2 env t e :
  get_key_conversation f wrap unwrap pv legs dc sd rk l0 l1 l2 = (Ok env, t) -> dc_marshals f unwrap dc (tr_sign t) e -> env = e.
Proof.
  intros H M. destruct (result wrap unwrap pv f legs dc sd rk l0 l1 l2 env t H) as (pdu & hdr & rsp & Hr & Hh & _ & Hu & _ & Hfin).
  destruct (M pdu hdr rsp Hr Hh Hu) as (out & reply & padding & st & We & Hp & Hrep & Hs & Hst & Hpl).
  exact (Hfin e out reply padding st We Hp Hrep Hs Hst Hpl).
Qed.

(* dc_marshals is decidable by running the client's own reply path on the script: the response it decodes *)
Definition script_response (f : flavour) (unwrap : unwrap_fn) (dc : dc_script) (sign_header : bool) : res response :=
  let* pdu := recv_pdu f (ds_getkey_stream dc) (ds_sched dc) in
  let* hdr := pdu_header_unpack (firstn 16 pdu) in
  let a := unwrap_slices hdr 24 sign_header pdu in
  let* dec := unwrap (ua_header a) (ua_body a) (ua_trailer a) (ua_signature a) sign_header in
  let* (body, h, st) := pdu_split (assign_slice pdu 24 (h_frag_len hdr - (h_auth_len hdr + 8)) dec) in
  response_unpack body h st.
Lemma dc_marshals_of_response f unwrap dc sg e rsp out reply padding st :
  script_response f unwrap dc sg = Ok rsp ->
  wf_env e = true -> GroupKeyEnvelope_pack e = Ok out -> ndr64_getkey_reply out 0 = Some reply ->
  rs_stub_data rsp = reply ++ padding -> rs_sec_trailer rsp = Some st -> st_pad_length st = len padding ->
  dc_marshals f unwrap dc sg e.
Proof.
  intros Hs We Hp Hr Hd Ht Hl pdu hdr rsp' Er Eh (dec & Eu & body & h & st' & Es & _ & Ersp).
  unfold script_response in Hs. rewrite Er in Hs. cbn [bind] in Hs. rewrite Eh in Hs. cbn [bind] in Hs. cbv zeta in Hs, Eu.
  rewrite Eu in Hs. cbn [bind] in Hs. rewrite Es in Hs. cbn [bind] in Hs. rewrite Ersp in Hs. apply Ok_inj in Hs. subst rsp'.
  exists out, reply, padding, st. auto 8.
Qed.

(* ================================================ Part 1 ================================================ *)
Section Compose.
Context (c : Crypto).

(* ncrypt_unprotect_secret / ncrypt_protect_secret (Model/Client.v unprotect_offline / protect_offline) with the cache-miss branch
   filled in: `getkey` stands for _sync_get_key / _async_get_key at the call site (for unprotect: (target_sd, key identifier of the
   blob); for protect: (sd, optional root key id), the indices being the closed kernels -1, -1, -1).  Same shape as
   Proofs/Flow_cache_public.v unprotect_online / protect_online (which C10 ties to the regenerated source), the oracle taking the
   model's values instead of interpreter values. *)
Definition unprotect_via_dc (getkey : bytes -> key_identifier -> res envelope) (cache : ccache) (data : bytes) : res bytes * ccache :=
  match blob_unpack data with
  | Raise e => (Raise e, cache)
  | Ok b =>
    match get_target_sd (b_sid b) with
    | Raise e => (Raise e, cache)
    | Ok target_sd =>
      let kid := b_key_identifier b in
      match cc_get_key c cache target_sd (kid_rkid kid) (kid_l0 kid) (kid_l1 kid) (kid_l2 kid) with
      | Raise e => (Raise e, cache)
      | Ok (o, cache1) =>
        match (match o with Some rk => Ok rk | None => getkey target_sd kid end) with
        | Raise e => (Raise e, cache1)
        | Ok rk =>
          let cache2 := if gke_is_public_key rk then cache1 else cc_store_key cache1 target_sd rk in
          (decrypt_blob c b rk, cache2)
        end
      end
    end
  end.

Definition protect_via_dc (getkey : bytes -> option bytes -> res envelope) (cache : ccache) (rnd_cek rnd_iv rnd_kek : bytes)
    (data : bytes) (sid : pystr) (rkid : option bytes) (time_ns : Z) : res bytes * ccache :=
  match get_target_sd sid with
  | Raise e => (Raise e, cache)
  | Ok sd =>
    match protection_gke_from_cache c cache rkid sd time_ns with
    | Raise e => (Raise e, protection_lookup_cache c cache rkid sd time_ns)
    | Ok (o, cache1) =>
      match (match o with Some rk => Ok rk | None => getkey sd rkid end) with
      | Raise e => (Raise e, cache1)
      | Ok rk =>
        let cache2 := if gke_is_public_key rk then cache1 else cc_store_key cache1 sd rk in
        (encrypt_blob c rnd_cek rnd_iv rnd_kek data rk sid, cache2)
      end
    end
  end.

(* with no reachable DC they are the offline functions of C01 / C10 / C19 *)
Lemma unprotect_via_no_dc cache data : unprotect_via_dc (fun _ _ => Raise NeedNetwork) cache data = unprotect_offline c cache data.
Proof.
  unfold unprotect_via_dc, unprotect_offline. destruct (blob_unpack data) as [b|e]; [|reflexivity].
  destruct (get_target_sd (b_sid b)) as [sd|e]; [|reflexivity].
  destruct (cc_get_key _ _ _ _ _ _ _) as [[[rk|] cache1]|e]; reflexivity.
Qed.
Lemma protect_via_no_dc cache r1 r2 r3 data sid rkid ns :
  protect_via_dc (fun _ _ => Raise NeedNetwork) cache r1 r2 r3 data sid rkid ns = protect_offline c cache r1 r2 r3 data sid rkid ns.
Proof.
  unfold protect_via_dc, protect_offline. destruct (get_target_sd sid) as [sd|e]; [|reflexivity].
  destruct (protection_gke_from_cache _ _ _ _ _) as [[[rk|] cache1]|e]; reflexivity.
Qed.

Section Fixed.
Context (h : hash) (rk : root_key) (rkid : bytes) (s : sid) (sid : pystr) (l0 l1 l2 : Z).
Notation sd := (target_sd s).
Notation env_ok := (env_ok c h rk rkid sd l0).
Notation cache_ok := (cache_ok c h rk rkid sd l0).

(* `blob` is a DPAPI-NG blob protecting `data` for `sid` at (l0, l1, l2) under the root key rk *)
Definition protected_blob (data blob : bytes) : Prop :=
  exists kid kek r1 r2 w ct p,
    blob_unpack blob = Ok (emitted_blob kid sid w ct p) /\ wf_blob (emitted_blob kid sid w ct p) = true /\
    kid_rkid kid = rkid /\ kid_l0 kid = l0 /\ kid_l1 kid = l1 /\ kid_l2 kid = l2 /\
    (forall e', env_ok e' -> covers (env_of e') l1 l2 -> get_kek c e' kid = Ok kek) /\
    kw_wrap c kek r1 = Ok w /\ gcm_enc c r1 r2 data = Ok ct /\ gcm_iv_of_parameters (Some p) = Ok r2.

(* a seed-key envelope for exactly (l0, l1, l2) as MS-GKDI 2.2.4 prescribes it for the root key: env_ok (flag bit 0 clear, L1 / L2 key
   fields = chain keys) and, where 2.2.4 makes the L2 key field optional (L2 = 31, on which `conforming` is silent), the field is
   either absent or the chain key too *)
Record seed_env_ok (e : envelope) : Prop := {
  se_ok : env_ok e;
  se_l1 : gke_l1 e = l1;
  se_l2 : gke_l2 e = l2;
  se_l2key : gke_l2 e = 31 -> gke_l2_key e = [] \/ Ok (gke_l2_key e) = derived_seed c h rk rkid sd l0 l1 l2 }.

Hypothesis Hhash : rk_hash rk = Ok h.
Hypothesis Halg : rk_kdf_alg rk = STR_KDF_ALG.
Hypothesis Hrk : len rkid = 16.
Hypothesis Hsid : sid_parse sid = Ok s.
Hypothesis Hsok : sid_okb sid = true.
Hypothesis Hl0 : 0 <= l0 <= 2147483647.
Hypothesis Hl1 : 0 <= l1 <= 31.
Hypothesis Hl2 : 0 <= l2 <= 31.

(* ---- elimination 1: offline, any cache in which the root key is loaded (this is C01's conclusion) ---- *)
Lemma protected_unprotect_offline (L : CryptoLaws c) data blob X :
  protected_blob data blob -> cache_ok X -> fst (unprotect_offline c X blob) = Ok data.
Proof.
  intros (kid & kek & r1 & r2 & w & ct & p & Eu & _ & Kr & K0 & K1 & K2 & Hk & Ew & Ect & Eiv) HX.
  exact (unprotect_general c h rk rkid s sid l0 l1 l2 Hhash Halg Hsid Hl0 Hl1 Hl2 L X blob kid kek r1 r2 data w ct p HX Kr K0 K1 K2 Hk Ew Ect Eiv Eu).
Qed.

(* ---- elimination 2: _decrypt_blob with a conforming covering envelope, and the cache in which it is then stored ---- *)
Lemma get_key_hit cache e : cc_find_seed (cc_seeds cache) (rkid, sd, l0) = Some e -> covers (env_of e) l1 l2 ->
  cc_get_key c cache sd rkid l0 l1 l2 = Ok (Some e, cache).
Proof.
  intros Ef Hcov. destruct kernels_meaning as (Hc & _ & _).
  unfold cc_get_key, k_cache_l0_guard. destruct (negb ((0 <=? l0) && (l0 <=? 2147483647))) eqn:G; [lia|]. cbv zeta. rewrite Ef.
  assert (E : k_cache_covers true (gke_l1 e) l1 (gke_l2 e) l2 = true) by (apply Hc; split; [reflexivity|exact Hcov]).
  rewrite E. reflexivity.
Qed.

(* the cache entry of the triple, if any, conforms (no root key needs to be loaded) *)
Definition seeds_ok (cache : ccache) : Prop := forall x, cc_find_seed (cc_seeds cache) (rkid, sd, l0) = Some x -> env_ok x.

(* after _store_key of a conforming envelope covering (l1, l2), the entry of the triple (the stored envelope, or a newer one that was
   there) is conforming and covers (l1, l2) *)
Lemma store_key_covers cache e : seeds_ok cache -> env_ok e -> covers (env_of e) l1 l2 ->
  exists x, cc_find_seed (cc_seeds (cc_store_key cache sd e)) (rkid, sd, l0) = Some x /\ env_ok x /\ covers (env_of x) l1 l2 /\
    (cc_find_seed (cc_seeds cache) (rkid, sd, l0) = None -> x = e /\ cc_store_key cache sd e = cc_set_seed cache (rkid, sd, l0) e).
Proof.
  intros Hs He Hcov. destruct kernels_meaning as (_ & Hst & _). pose proof He as [_ E0 Er _ _ _ _ _ _].
  unfold cc_store_key. cbv zeta. rewrite Er, E0.
  assert (Hset : cc_find_seed (cc_seeds (cc_set_seed cache (rkid, sd, l0) e)) (rkid, sd, l0) = Some e)
    by (unfold cc_set_seed; cbn [cc_seeds cc_find_seed]; rewrite ckey_eqb_refl; reflexivity).
  destruct (cc_find_seed (cc_seeds cache) (rkid, sd, l0)) as [x|] eqn:Ef.
  - destruct (k_cache_store true (gke_l1 e) (gke_l1 x) (gke_l2 e) (gke_l2 x)) eqn:E.
    + exists e. split; [exact Hset|]. split; [exact He|]. split; [exact Hcov|discriminate].
    + exists x. split; [exact Ef|]. split; [apply Hs; exact Ef|]. split; [|discriminate].
      assert (Hn : ~ (true = false \/ gke_l1 e > gke_l1 x \/ (gke_l1 e = gke_l1 x /\ gke_l2 e > gke_l2 x))) by (rewrite <- Hst, E; discriminate).
      unfold covers in *. cbn [env_of e_l1 e_l2] in *. lia.
  - assert (E : k_cache_store false (gke_l1 e) 0 (gke_l2 e) 0 = true) by (apply Hst; left; reflexivity).
    rewrite E. exists e. split; [exact Hset|]. split; [exact He|]. split; [exact Hcov|]. intros _. split; reflexivity.
Qed.

(* _get_key misses when the root key is not loaded and no covering envelope is cached *)
Lemma get_key_cases cache : seeds_ok cache ->
  (exists x, cc_find_seed (cc_seeds cache) (rkid, sd, l0) = Some x /\ env_ok x /\ covers (env_of x) l1 l2 /\
             cc_get_key c cache sd rkid l0 l1 l2 = Ok (Some x, cache)) \/
  ((forall x, cc_find_seed (cc_seeds cache) (rkid, sd, l0) = Some x -> ~ covers (env_of x) l1 l2) /\
   (cc_find_root (cc_roots cache) rkid = None -> cc_get_key c cache sd rkid l0 l1 l2 = Ok (None, cache))).
Proof.
  intros Hs. destruct kernels_meaning as (Hc & _ & _).
  unfold cc_get_key, k_cache_l0_guard. destruct (negb ((0 <=? l0) && (l0 <=? 2147483647))) eqn:G; [lia|]. cbv zeta.
  destruct (cc_find_seed (cc_seeds cache) (rkid, sd, l0)) as [x|] eqn:Ef.
  - destruct (k_cache_covers true (gke_l1 x) l1 (gke_l2 x) l2) eqn:E.
    + left. exists x. split; [reflexivity|]. split; [apply Hs; exact Ef|]. split; [apply Hc in E; exact (proj2 E)|reflexivity].
    + right. split.
      * intros y Ey Hcov. assert (y = x) by congruence. subst y.
        assert (k_cache_covers true (gke_l1 x) l1 (gke_l2 x) l2 = true) by (apply Hc; split; [reflexivity|exact Hcov]). congruence.
      * intros Hr. rewrite Hr. reflexivity.
  - right. split; [discriminate|]. intros Hr.
    destruct (k_cache_covers false 0 l1 0 l2) eqn:E; [apply Hc in E; destruct E; discriminate|]. rewrite Hr. reflexivity.
Qed.

Lemma protected_decrypt (L : CryptoLaws c) data blob :
  protected_blob data blob ->
  exists b, blob_unpack blob = Ok b /\ get_target_sd (b_sid b) = Ok sd /\
    kid_rkid (b_key_identifier b) = rkid /\ kid_l0 (b_key_identifier b) = l0 /\ kid_l1 (b_key_identifier b) = l1 /\
    kid_l2 (b_key_identifier b) = l2 /\
    forall e, env_ok e -> covers (env_of e) l1 l2 ->
      gke_is_public_key e = false /\ decrypt_blob c b e = Ok data /\
      forall cache, cc_find_seed (cc_seeds cache) (rkid, sd, l0) = Some e -> unprotect_offline c cache blob = (Ok data, cache).
Proof.
  intros (kid & kek & r1 & r2 & w & ct & p & Eu & _ & Kr & K0 & K1 & K2 & Hk & Ew & Ect & Eiv).
  exists (emitted_blob kid sid w ct p). split; [exact Eu|]. cbn [emitted_blob b_sid b_key_identifier].
  split; [exact (target_sd_ok s sid Hsid)|]. do 4 (split; [assumption|]). intros e He Hcov.
  assert (Hp : gke_is_public_key e = false) by (destruct He as [Hp _ _ _ _ _ _ _ _]; exact Hp). split; [exact Hp|].
  assert (Hd : decrypt_blob c (emitted_blob kid sid w ct p) e = Ok data).
  { unfold decrypt_blob.
    cbn [emitted_blob b_key_identifier b_enc_cek_algorithm b_enc_cek_parameters b_enc_cek b_enc_content_algorithm b_enc_content_parameters b_enc_content].
    rewrite (Hk e He Hcov). cbn [bind].
    unfold cek_decrypt. rewrite oid_eqb_refl. rewrite (kw_roundtrip c L _ _ _ Ew). cbn [bind].
    unfold content_decrypt. rewrite oid_eqb_refl, Eiv. cbn [bind]. apply (gcm_roundtrip c L _ _ _ _ Ect). }
  split; [exact Hd|].
  intros cache Ef. unfold unprotect_offline. rewrite Eu. cbn [emitted_blob b_sid b_key_identifier].
  rewrite (target_sd_ok s sid Hsid), Kr, K0, K1, K2, (get_key_hit cache e Ef Hcov), Hp.
  fold (emitted_blob kid sid w ct p). rewrite Hd.
  destruct He as [_ E0 Er _ _ _ _ _ _].
  rewrite (store_key_same cache sd e e); [reflexivity|rewrite Er, E0; exact Ef|lia|exact c].
Qed.

(* C01's conclusion, from protected_blob *)
Lemma protected_relayout data blob : protected_blob data blob ->
  exists blob2, (let* b := blob_unpack blob in blob_pack b false) = Ok blob2 /\ protected_blob data blob2.
Proof.
  intros (kid & kek & r1 & r2 & w & ct & p & Eu & Hwf & Rest).
  destruct (blob_roundtrip _ false Hwf) as (ci2 & Ep2 & Eu2 & _ & _).
  exists (ci2 ++ trailing (emitted_blob kid sid w ct p) false). rewrite Eu. cbn [bind]. split; [exact Ep2|].
  exists kid, kek, r1, r2, w, ct, p. split; [exact Eu2|]. split; [exact Hwf|exact Rest].
Qed.
Lemma protected_roundtrip (L : CryptoLaws c) data blob : protected_blob data blob ->
  (exists blob2, (let* b := blob_unpack blob in blob_pack b false) = Ok blob2) /\
  forall X, cache_ok X ->
    fst (unprotect_offline c X blob) = Ok data /\
    forall blob2, (let* b := blob_unpack blob in blob_pack b false) = Ok blob2 -> fst (unprotect_offline c X blob2) = Ok data.
Proof.
  intros Hp. destruct (protected_relayout data blob Hp) as (blob2 & E2 & Hp2). split; [exists blob2; exact E2|].
  intros X HX. split; [exact (protected_unprotect_offline L data blob X Hp HX)|].
  intros blob2' E2'. assert (blob2' = blob2) by congruence. subst blob2'. exact (protected_unprotect_offline L data blob2 X Hp2 HX).
Qed.

(* ---- introduction: any mode, from what is needed of the pair (kek, kid) new_kek produced for the envelope ep ---- *)
Lemma protected_any_mode ep kek kid r1 r2 r3 data blob :
  gke_l0 ep = l0 -> gke_l1 ep = l1 -> gke_l2 ep = l2 -> gke_rkid ep = rkid ->
  names_ok (gke_flags ep) (gke_domain ep) (gke_forest ep) = true ->
  new_kek_rnd c ep r3 = Ok (kek, kid) -> len (kid_key_info kid) < U32 ->
  (forall e', env_ok e' -> covers (env_of e') l1 l2 -> get_kek c e' kid = Ok kek) ->
  len r2 = 12 -> (forall w, kw_wrap c kek r1 = Ok w -> len w < U32) -> (forall ct, gcm_enc c r1 r2 data = Ok ct -> len ct < U32) ->
  encrypt_blob c r1 r2 r3 data ep sid = Ok blob -> protected_blob data blob.
Proof.
  intros E0 E1 E2 Er Hn En Hki Hk Hr2 Sw Sct He.
  destruct (gcm_params_roundtrip r2 ltac:(lia)) as (p & Ep & Hpn & Hlp & Eiv).
  pose proof (new_kek_kid _ _ _ _ _ En) as Ekid. rewrite E0, E1, E2, Er in Ekid.
  fold (emitted_kid (gke_flags ep) l0 l1 l2 rkid (kid_key_info kid) (gke_domain ep) (gke_forest ep)) in Ekid.
  unfold encrypt_blob in He.
  assert (Eow : oid_eqb oid_aes256_wrap oid_aes256_wrap = true) by apply oid_eqb_refl.
  assert (Eog : oid_eqb oid_aes256_gcm oid_aes256_gcm = true) by apply oid_eqb_refl.
  unfold cek_generate in He. rewrite Eow in He. cbn [bind] in He. rewrite Ep in He. cbn [bind] in He.
  unfold content_encrypt in He. rewrite Eog, Eiv in He. cbn [bind] in He.
  destruct (gcm_enc c r1 r2 data) as [ct|] eqn:Ect; [|discriminate He]. cbn [bind] in He.
  rewrite En in He. cbn [bind] in He. unfold cek_encrypt in He. rewrite Eow in He.
  destruct (kw_wrap c kek r1) as [w|] eqn:Ew; [|discriminate He]. cbn [bind] in He.
  unfold encrypt_blob_fields in He. rewrite Ep in He. cbn [bind] in He.
  fold (emitted_blob kid sid w ct p) in He. set (b := emitted_blob kid sid w ct p) in *.
  assert (Hwf : wf_blob b = true).
  { unfold b. rewrite Ekid. pose proof (Sw _ eq_refl). pose proof (Sct _ eq_refl). apply emitted_wf; auto; try lia; unfold U32; lia. }
  destruct (blob_roundtrip b true Hwf) as (ci & Ep1 & Eu1 & _ & _). unfold trailing in Ep1, Eu1. rewrite app_nil_r in Ep1, Eu1.
  assert (blob = ci) by congruence. subst blob.
  assert (Kr : kid_rkid kid = rkid /\ kid_l0 kid = l0 /\ kid_l1 kid = l1 /\ kid_l2 kid = l2) by (rewrite Ekid; auto).
  destruct Kr as (Kr & K0 & K1 & K2).
  exists kid, kek, r1, r2, w, ct, p. auto 12.
Qed.

(* ---- introduction: protect_offline from the loaded root key (C01, nonce mode) ---- *)
Lemma protected_offline time_ns cache r1 r2 r3 data blob cache1 :
  0 <= time_ns -> interval_of_time_ns time_ns = (l0, l1, l2) -> kdf_nonempty c ->
  cache_ok cache -> len r2 = 12 -> len r3 = 32 ->
  (forall kek w, derived_kek c h rk rkid sd l0 l1 l2 r3 = Ok kek -> kw_wrap c kek r1 = Ok w -> len w < U32) ->
  (forall ct, gcm_enc c r1 r2 data = Ok ct -> len ct < U32) ->
  protect_offline c cache r1 r2 r3 data sid (Some rkid) time_ns = (Ok blob, cache1) -> protected_blob data blob.
Proof.
  intros Hns Hint Hne Hc Hr2 Hr3 Sw Sct Hp.
  destruct (protect_inv c h rk rkid s sid time_ns l0 l1 l2 Hhash Halg Hrk Hsid Hsok Hns Hint Hne cache r1 r2 r3 data blob cache1 Hc Hr2 Hr3 Sw Sct Hp)
    as (e0 & seed & w & ct & p & _ & _ & He0 & _ & Es & Hn & Ew & Ect & _ & Eiv & Hwf & _ & Eu). cbv zeta in Hwf, Eu.
  exists (emitted_kid (gke_flags e0) l0 l1 l2 rkid r3 (gke_domain e0) (gke_forest e0)), (kek_nonce c h seed r3), r1, r2, w, ct, p.
  split; [exact Eu|]. split; [exact Hwf|]. do 4 (split; [reflexivity|]). split; [|auto].
  intros e' He' Hcov. exact (proj2 (kek_agreement c h rk rkid sd l0 l1 l2 Hhash Hl1 Hl2 e0 e' seed r3 He0 He' Hcov Es Hn)).
Qed.

(* ---- introduction: _encrypt_blob on a conforming SEED-KEY envelope a DC delivered for (l0, l1, l2) ---- *)
Lemma seed_env_new_kek e seed r3 : kdf_nonempty c -> seed_env_ok e -> derived_seed c h rk rkid sd l0 l1 l2 = Ok seed ->
  exists kid, new_kek_rnd c e r3 = Ok (kek_nonce c h seed r3, kid) /\ kid_key_info kid = r3 /\
    forall e', env_ok e' -> covers (env_of e') l1 l2 -> get_kek c e' kid = Ok (kek_nonce c h seed r3).
Proof.
  intros Hne [He E1 E2 Hk] Es.
  assert (Hn : seed <> []).
  { destruct (derived_seed_ok c h rk rkid sd l0 l1 l2 Hl0 Hl1 Hl2 Hne) as (seed' & Es' & Hn). rewrite Es in Es'. apply Ok_inj in Es'. now subst seed'. }
  pose proof (env_ok_hash c h rk rkid sd l0 Hhash e He) as Hh.
  destruct He as [Hp E0 Er Ea Epa Hc Hnm Esa Epr].
  assert (Hshape : (gke_l2_key e = seed /\ seed <> []) \/ (gke_l2_key e = [] /\ conforming (KDFof c h e) (root_top c h rk rkid sd l0) (env_of e))).
  { unfold KDFof. rewrite E0, Er.
    destruct (Z.eq_dec (gke_l2 e) 31) as [E31|N31].
    - destruct (Hk E31) as [K|K]; [right; split; [exact K|exact Hc]|left; split; [|exact Hn]].
      rewrite Es in K. apply Ok_inj in K. exact K.
    - left. split; [|exact Hn]. destruct Hc as (_ & _ & _ & Hc2). destruct (Hc2 N31) as [K _]. cbn [env_of e_l1 e_l2 e_l2key] in K.
      unfold derived_seed in Es. rewrite E1, E2, Es in K. apply Ok_inj in K. exact K. }
  (* one agreement per decrypting envelope; the encrypting side does not depend on it *)
  assert (A : forall e', env_ok e' -> covers (env_of e') l1 l2 ->
            exists kid, new_kek c (fun _ => r3) e = Ok (kek_nonce c h seed r3, kid) /\ kid_key_info kid = r3 /\
                        get_kek c e' kid = Ok (kek_nonce c h seed r3)).
  { intros e' He' Hcov. pose proof (env_ok_hash c h rk rkid sd l0 Hhash e' He') as Hh'.
    destruct He' as [Hp' E0' Er' _ _ Hc' _ _ _].
    pose proof (agree_nonce c h (root_top c h rk rkid sd l0) e e' (fun _ => r3) seed Hh Hh' Hp Hp') as A.
    rewrite E1, E2 in A. unfold KDFof in A. rewrite E0, Er in A.
    apply A; auto; try congruence. unfold KDFof in Hshape. rewrite E0, Er in Hshape. exact Hshape. }
  destruct (get_key_ok c h rk rkid sd l0 Hhash Halg Hl0 (cc_load cc_empty rkid rk) l1 l2) as (er & _ & _ & Her & Hcovr & _ & _); auto.
  { apply cache_ok_fresh; [cbn [cc_load cc_roots cc_find_root]; rewrite beqb_refl; reflexivity|reflexivity]. }
  destruct (A er Her Hcovr) as (kid & En & Ek & _). exists kid. split; [exact En|]. split; [exact Ek|].
  intros e' He' Hcov. destruct (A e' He' Hcov) as (kid' & En' & _ & Eg'). rewrite En in En'. apply Ok_inj in En'.
  assert (kid' = kid) by congruence. subst kid'. exact Eg'.
Qed.

Lemma protected_seed e seed r1 r2 r3 data blob :
  kdf_nonempty c -> seed_env_ok e -> derived_seed c h rk rkid sd l0 l1 l2 = Ok seed -> len r2 = 12 -> len r3 = 32 ->
  (forall w, kw_wrap c (kek_nonce c h seed r3) r1 = Ok w -> len w < U32) -> (forall ct, gcm_enc c r1 r2 data = Ok ct -> len ct < U32) ->
  encrypt_blob c r1 r2 r3 data e sid = Ok blob -> protected_blob data blob.
Proof.
  intros Hne Hse Es Hr2 Hr3 Sw Sct He.
  destruct (seed_env_new_kek e seed r3 Hne Hse Es) as (kid & En & Ek & Hg).
  destruct Hse as [[_ E0 Er _ _ _ Hnm _ _] E1 E2 _].
  apply (protected_any_mode e (kek_nonce c h seed r3) kid r1 r2 r3 data blob E0 E1 E2 Er Hnm En); auto.
  rewrite Ek. unfold U32. lia.
Qed.

(* ---- introduction: _encrypt_blob on a conforming DH public-key envelope (C01_roundtrip_pubkey's hypotheses) ---- *)
Lemma protected_dh (L : CryptoLaws c) ep seed kl p g r1 r2 r3 data blob :
  derived_seed c h rk rkid sd l0 l1 l2 = Ok seed -> dh_env_ok c h rk rkid l0 l1 l2 ep seed kl p g ->
  wfb r3 = true -> dh_pub_valid p (dh_public p g (OS2IP r3)) -> 8 + 3 * kl < U32 -> len r2 = 12 ->
  (forall kek kid w, new_kek_rnd c ep r3 = Ok (kek, kid) -> kw_wrap c kek r1 = Ok w -> len w < U32) ->
  (forall ct, gcm_enc c r1 r2 data = Ok ct -> len ct < U32) ->
  encrypt_blob c r1 r2 r3 data ep sid = Ok blob -> protected_blob data blob.
Proof.
  intros Es D Hw3 Vx Hkl Hr2 Sw Sct He.
  destruct D as [Dpub D0 D1 D2 Dr Da Dp Dsa Drsa Dpr Dprb Dpp Dkl Dfp Dfg Dy Dkey Dn Dsp Dgrp Vy].
  set (top := root_top c h rk rkid sd l0).
  assert (A : forall e', env_ok e' -> covers (env_of e') l1 l2 ->
            exists kid, new_kek c (fun _ => r3) ep =
              Ok (kek_dh c h p kl (dh_public p g (OS2IP (kdf c h seed KDS_SERVICE (lit16z "DH") (bytes_of_bits (gke_priv_len ep))))) (OS2IP r3), kid) /\
              kid_key_info kid = concat (GkdiStructs.ffk_field_list {| ffk_key_length := kl; ffk_field_order := p; ffk_generator := g;
                                           ffk_public_key := dh_public p g (OS2IP r3) |}) /\
              get_kek c e' kid = Ok (kek_dh c h p kl (dh_public p g (OS2IP (kdf c h seed KDS_SERVICE (lit16z "DH") (bytes_of_bits (gke_priv_len ep))))) (OS2IP r3))).
  { intros e' He' Hcov. pose proof (env_ok_hash c h rk rkid sd l0 Hhash e' He') as Hh'.
    destruct He' as [Hp' El' Er' _ _ Hc' _ Esa' Epr' Esp'].
    pose proof (agree_dh c h top e' ep (fun _ => r3) seed kl p g Hh' (fields_hash h rk Hhash ep Da Dp) Hp' Dpub) as A.
    rewrite D0, D1, D2, Dr in A. unfold KDFof in A. rewrite D0, Dr in A.
    specialize (A El' Er' ltac:(congruence) Dsa ltac:(congruence) Dprb Hl1 Hl2 Hc' Hcov Es Dpp Dkl Dfp Dfg).
    rewrite Esp', Dsp in A. specialize (A Dgrp Dgrp). cbv zeta in A.
    destruct (A Dy Hw3 Vy Vx Dkey) as (kid & En & Ek & Eg & Eq). exists kid. rewrite Eq in Eg. auto. }
  destruct (get_key_ok c h rk rkid sd l0 Hhash Halg Hl0 (cc_load cc_empty rkid rk) l1 l2) as (er & _ & _ & Her & Hcovr & _ & _); auto.
  { apply cache_ok_fresh; [cbn [cc_load cc_roots cc_find_root]; rewrite beqb_refl; reflexivity|reflexivity]. }
  destruct (A er Her Hcovr) as (kid & En & Ek & _).
  apply (protected_any_mode ep _ kid r1 r2 r3 data blob D0 D1 D2 Dr Dn En); auto.
  - rewrite Ek. set (k' := {| ffk_key_length := kl; ffk_field_order := p; ffk_generator := g; ffk_public_key := dh_public p g (OS2IP r3) |}).
    assert (W : GkdiStructs.wf_ffk k' = true).
    { unfold GkdiStructs.wf_ffk, k'. cbn [ffk_key_length ffk_field_order ffk_generator ffk_public_key]. rewrite Dkl, Dfp, Dfg. cbn [andb].
      unfold dh_public, GkdiStructs.fitsb in *. pose proof (Z.mod_pos_bound (g ^ OS2IP r3) p Dpp). lia. }
    rewrite (GkdiStructs.FFCDHKey_pack_length k' _ W (GkdiStructs.FFCDHKey_pack_ok k' W)). exact Hkl.
  - intros e' He' Hcov. destruct (A e' He' Hcov) as (kid' & En' & _ & Eg'). unfold new_kek_rnd in En. rewrite En in En'. apply Ok_inj in En'.
    assert (kid' = kid) by congruence. subst kid'. exact Eg'.
  - intros w. apply (Sw _ _ w En).
Qed.

(* ---- introduction: _encrypt_blob on a conforming ECDH public-key envelope (C01_roundtrip_pubkey_ecdh's hypotheses) ---- *)
Lemma protected_ecdh (L : CryptoLaws c) ep seed alg algz cv kl Ax Ay r1 r2 r3 data blob :
  derived_seed c h rk rkid sd l0 l1 l2 = Ok seed -> ecdh_env_ok c h rk rkid l0 l1 l2 ep seed alg algz cv kl Ax Ay -> len r2 = 12 ->
  (forall kek kid, new_kek_rnd c ep r3 = Ok (kek, kid) -> len (kid_key_info kid) < U32) ->
  (forall kek kid w, new_kek_rnd c ep r3 = Ok (kek, kid) -> kw_wrap c kek r1 = Ok w -> len w < U32) ->
  (forall ct, gcm_enc c r1 r2 data = Ok ct -> len ct < U32) ->
  encrypt_blob c r1 r2 r3 data ep sid = Ok blob -> protected_blob data blob.
Proof.
  intros Es D Hr2 Ski Sw Sct He.
  destruct D as [Dpub D0 D1 D2 Dr Da Dp Dsa Drsa Dnd Dec Dz Dpr Dprb Dpt Dwf Dkey Dn].
  destruct (encrypt_blob_new_kek c sid ep r1 r2 r3 data blob He) as (kek & kid & En).
  apply (protected_any_mode ep kek kid r1 r2 r3 data blob D0 D1 D2 Dr Dn En); auto.
  - apply (Ski _ _ En).
  - intros e' He' Hcov. pose proof (env_ok_hash c h rk rkid sd l0 Hhash e' He') as Hh'.
    destruct He' as [Hp' El' Er' _ _ Hc' _ Esa' Epr' _].
    pose proof (agree_ecdh c L h (root_top c h rk rkid sd l0) e' ep (fun _ => r3) seed alg algz cv kl Ax Ay kek kid Hh' (fields_hash h rk Hhash ep Da Dp) Hp' Dpub) as A.
    rewrite D0, D1, D2, Dr in A. unfold KDFof in A. rewrite D0, Dr in A.
    specialize (A El' Er' ltac:(congruence) Dsa Dnd Dec Dz ltac:(congruence) Dprb Hl1 Hl2 Hc' Hcov Es). cbv zeta in A.
    destruct (A Dpt Dwf Dkey En) as (Zs & Bx & By & _ & _ & _ & _ & Eg). exact Eg.
  - intros w. apply (Sw _ _ w En).
Qed.

(* ---- what a conforming DC may deliver for "the current key" (-1, -1, -1), with what the draws r1 / r3 then have to satisfy (the domain
   of the C06 theorems: fields shorter than 2^32 octets) ---- *)
Inductive protect_env_ok (e : envelope) (r1 r3 : bytes) : Prop :=
| PE_seed seed : kdf_nonempty c -> derived_seed c h rk rkid sd l0 l1 l2 = Ok seed -> seed_env_ok e -> len r3 = 32 ->
    (forall w, kw_wrap c (kek_nonce c h seed r3) r1 = Ok w -> len w < U32) -> protect_env_ok e r1 r3
| PE_dh seed kl p g : derived_seed c h rk rkid sd l0 l1 l2 = Ok seed -> dh_env_ok c h rk rkid l0 l1 l2 e seed kl p g ->
    wfb r3 = true -> dh_pub_valid p (dh_public p g (OS2IP r3)) ->    (* the ephemeral public value is a valid group element (D16) *)
    8 + 3 * kl < U32 ->
    (forall kek kid w, new_kek_rnd c e r3 = Ok (kek, kid) -> kw_wrap c kek r1 = Ok w -> len w < U32) -> protect_env_ok e r1 r3
| PE_ecdh seed alg algz cv kl Ax Ay : derived_seed c h rk rkid sd l0 l1 l2 = Ok seed ->
    ecdh_env_ok c h rk rkid l0 l1 l2 e seed alg algz cv kl Ax Ay ->
    (forall kek kid, new_kek_rnd c e r3 = Ok (kek, kid) -> len (kid_key_info kid) < U32) ->
    (forall kek kid w, new_kek_rnd c e r3 = Ok (kek, kid) -> kw_wrap c kek r1 = Ok w -> len w < U32) -> protect_env_ok e r1 r3.

Lemma protected_by_envelope (L : CryptoLaws c) e r1 r2 r3 data blob :
  protect_env_ok e r1 r3 -> len r2 = 12 -> (forall ct, gcm_enc c r1 r2 data = Ok ct -> len ct < U32) ->
  encrypt_blob c r1 r2 r3 data e sid = Ok blob -> protected_blob data blob.
Proof.
  intros [seed Hne Es Hse Hr3 Sw|seed kl p g Es D Hw3 Vx Hkl Sw|seed alg algz cv kl Ax Ay Es D Ski Sw] Hr2 Sct He.
  - exact (protected_seed e seed r1 r2 r3 data blob Hne Hse Es Hr2 Hr3 Sw Sct He).
  - exact (protected_dh L e seed kl p g r1 r2 r3 data blob Es D Hw3 Vx Hkl Hr2 Sw Sct He).
  - exact (protected_ecdh L e seed alg algz cv kl Ax Ay r1 r2 r3 data blob Es D Hr2 Ski Sw Sct He).
Qed.

(* a conforming seed-key envelope for (l0, l1, l2) covers (l1, l2); a public-key envelope is not stored *)
Lemma protect_env_public e r1 r3 : protect_env_ok e r1 r3 -> gke_is_public_key e = false -> seed_env_ok e.
Proof.
  intros [seed _ _ Hse _ _|seed kl p g _ D _ _ _|seed alg algz cv kl Ax Ay _ D _ _] Hp; [exact Hse| |].
  - destruct D as [Dpub _ _ _ _ _ _ _ _ _ _ _ _ _ _ _ _ _]. congruence.
  - destruct D as [Dpub _ _ _ _ _ _ _ _ _ _ _ _ _ _ _ _ _]. congruence.
Qed.
Lemma seed_env_covers e : seed_env_ok e -> covers (env_of e) l1 l2.
Proof. intros [_ E1 E2 _]. unfold covers. cbn [env_of e_l1 e_l2]. lia. Qed.

(* ================================================ Part 2 ================================================ *)
(* ---- unprotect: whatever cache the caller has (its entry of the triple, if any, conforming; the root key loaded or not), if the DC
   oracle answers the request for the blob's key identifier with a conforming envelope covering (l1, l2), the call returns the
   plaintext, and the cache it leaves serves the next call without any network ---- *)
Lemma online_unprotect (L : CryptoLaws c) (getkey : bytes -> key_identifier -> res envelope) cache data blob e :
  protected_blob data blob -> seeds_ok cache -> (forall rk', cc_find_root (cc_roots cache) rkid = Some rk' -> rk' = rk) ->
  (forall b, blob_unpack blob = Ok b -> getkey sd (b_key_identifier b) = Ok e) ->
  env_ok e -> covers (env_of e) l1 l2 ->
  exists cache', unprotect_via_dc getkey cache blob = (Ok data, cache') /\ unprotect_offline c cache' blob = (Ok data, cache') /\
    (cc_find_root (cc_roots cache) rkid = None -> cc_find_seed (cc_seeds cache) (rkid, sd, l0) = None ->
     cache' = cc_set_seed cache (rkid, sd, l0) e).
Proof.
  intros Hpb Hs Hroot Hget He Hcov.
  destruct (protected_decrypt L data blob Hpb) as (b & Eu & Etsd & Kr & K0 & K1 & K2 & Hdec).
  specialize (Hget b Eu). unfold unprotect_via_dc. rewrite Eu, Etsd. cbv zeta. rewrite Kr, K0, K1, K2.
  destruct (cc_find_root (cc_roots cache) rkid) as [rk'|] eqn:Er.
  - (* the root key is loaded: no network needed (C01) *)
    assert (rk' = rk) by (apply Hroot; reflexivity). subst rk'.
    destruct (get_key_ok c h rk rkid sd l0 Hhash Halg Hl0 cache l1 l2 (conj Er Hs) Hl1 Hl2) as (e0 & cache' & Eg & He0 & Hcov0 & Ef0 & _).
    destruct (Hdec e0 He0 Hcov0) as (Hp0 & Hd0 & Hoff0). rewrite Eg, Hp0, Hd0.
    destruct He0 as [_ E0 Er0 _ _ _ _ _ _].
    rewrite (store_key_same cache' sd e0 e0); [|rewrite Er0, E0; exact Ef0|lia|exact c].
    exists cache'. split; [reflexivity|]. split; [exact (Hoff0 cache' Ef0)|discriminate].
  - destruct (get_key_cases cache Hs) as [(x & Ef & Hx & Hcx & Eg)|[Hmiss Eg]].
    + destruct (Hdec x Hx Hcx) as (Hpx & Hdx & Hoffx). rewrite Eg, Hpx, Hdx.
      destruct Hx as [_ E0 Erx _ _ _ _ _ _].
      rewrite (store_key_same cache sd x x); [|rewrite Erx, E0; exact Ef|lia|exact c].
      exists cache. split; [reflexivity|]. split; [exact (Hoffx cache Ef)|]. intros _ En. congruence.
    + rewrite (Eg Er), Hget. destruct (Hdec e He Hcov) as (Hpe & Hde & _). rewrite Hpe, Hde.
      destruct (store_key_covers cache e Hs He Hcov) as (x & Efx & Hx & Hcx & Hnone).
      destruct (Hdec x Hx Hcx) as (_ & _ & Hoffx).
      exists (cc_store_key cache sd e). split; [reflexivity|]. split; [exact (Hoffx _ Efx)|].
      intros _ En. exact (proj2 (Hnone En)).
Qed.

(* ---- protect: on a cache miss, with the envelope the DC oracle returns for "the current key" ---- *)
Lemma online_protect (L : CryptoLaws c) (getkey : bytes -> option bytes -> res envelope) cache cache1 rko time_ns r1 r2 r3 data blob cache' e :
  protection_gke_from_cache c cache rko sd time_ns = Ok (None, cache1) ->
  getkey sd rko = Ok e -> protect_env_ok e r1 r3 -> len r2 = 12 -> (forall ct, gcm_enc c r1 r2 data = Ok ct -> len ct < U32) ->
  protect_via_dc getkey cache r1 r2 r3 data sid rko time_ns = (Ok blob, cache') ->
  protected_blob data blob /\ cache' = (if gke_is_public_key e then cache1 else cc_store_key cache1 sd e) /\
  (gke_is_public_key e = false -> seeds_ok cache1 -> unprotect_offline c cache' blob = (Ok data, cache')).
Proof.
  intros Hmiss Hget Hpe Hr2 Sct Hp. unfold protect_via_dc in Hp. rewrite (target_sd_ok s sid Hsid), Hmiss, Hget in Hp.
  assert (He : encrypt_blob c r1 r2 r3 data e sid = Ok blob) by congruence.
  assert (Hc' : cache' = (if gke_is_public_key e then cache1 else cc_store_key cache1 sd e)) by congruence.
  pose proof (protected_by_envelope L e r1 r2 r3 data blob Hpe Hr2 Sct He) as Hpb.
  split; [exact Hpb|]. split; [exact Hc'|]. intros Hpub Hs1. rewrite Hpub in Hc'. subst cache'.
  pose proof (protect_env_public e r1 r3 Hpe Hpub) as Hse.
  destruct (store_key_covers cache1 e Hs1 (se_ok e Hse) (seed_env_covers e Hse)) as (x & Efx & Hx & Hcx & _).
  destruct (protected_decrypt L data blob Hpb) as (b & _ & _ & _ & _ & _ & _ & Hdec).
  destruct (Hdec x Hx Hcx) as (_ & _ & Hoffx). exact (Hoffx _ Efx).
Qed.

End Fixed.
End Compose.

(* ================================ the statements Properties/C17.v exports, hypotheses spelled out ================================ *)
(* (1) UNPROTECT *)
Theorem compose_unprotect_envelope : forall (c : Crypto) h rk rkid s sid l0 l1 l2,
  rk_hash rk = Ok h -> rk_kdf_alg rk = STR_KDF_ALG -> len rkid = 16 -> sid_parse sid = Ok s -> sid_okb sid = true ->
  0 <= l0 <= 2147483647 -> 0 <= l1 <= 31 -> 0 <= l2 <= 31 -> CryptoLaws c ->
  forall data blob, protected_blob c h rk rkid s sid l0 l1 l2 data blob ->
  exists b, blob_unpack blob = Ok b /\ get_target_sd (b_sid b) = Ok (target_sd s) /\
    kid_rkid (b_key_identifier b) = rkid /\ kid_l0 (b_key_identifier b) = l0 /\ kid_l1 (b_key_identifier b) = l1 /\
    kid_l2 (b_key_identifier b) = l2 /\
    forall e, env_ok c h rk rkid (target_sd s) l0 e -> covers (env_of e) l1 l2 ->
      gke_is_public_key e = false /\ decrypt_blob c b e = Ok data /\
      unprotect_offline c (cc_store_key cc_empty (target_sd s) e) blob = (Ok data, cc_store_key cc_empty (target_sd s) e) /\
      forall cache, cc_find_seed (cc_seeds cache) (rkid, target_sd s, l0) = Some e -> unprotect_offline c cache blob = (Ok data, cache).
Proof.
  intros c h rk rkid s sid l0 l1 l2 Hh Ha Hr Hs Hso H0 H1 H2 L data blob Hp.
  destruct (protected_decrypt c h rk rkid s sid l0 l1 l2 Hs H0 L data blob Hp) as (b & Eu & Et & Kr & K0 & K1 & K2 & Hd).
  exists b. do 6 (split; [assumption|]). intros e He Hcov. destruct (Hd e He Hcov) as (Hp0 & Hd0 & Hoff).
  split; [exact Hp0|]. split; [exact Hd0|]. split; [|exact Hoff]. apply Hoff.
  destruct (store_key_covers c h rk rkid s sid l0 l1 l2 cc_empty e ltac:(intros x Hx; discriminate Hx) He Hcov) as (x & Ex & _ & _ & Hn).
  destruct (Hn eq_refl) as [-> _]. exact Ex.
Qed.

(* the producers of the model yield protected blobs: protect_offline from the loaded root key (C01_roundtrip_offline's hypotheses) ... *)
Theorem compose_protected_offline : forall (c : Crypto) h rk rkid s sid time_ns l0 l1 l2,
  rk_hash rk = Ok h -> rk_kdf_alg rk = STR_KDF_ALG -> len rkid = 16 -> sid_parse sid = Ok s -> sid_okb sid = true ->
  0 <= time_ns -> interval_of_time_ns time_ns = (l0, l1, l2) -> kdf_nonempty c ->
  forall cache r1 r2 r3 data blob cache1,
  cache_ok c h rk rkid (target_sd s) l0 cache -> len r2 = 12 -> len r3 = 32 ->
  (forall kek w, derived_kek c h rk rkid (target_sd s) l0 l1 l2 r3 = Ok kek -> kw_wrap c kek r1 = Ok w -> len w < U32) ->
  (forall ct, gcm_enc c r1 r2 data = Ok ct -> len ct < U32) ->
  protect_offline c cache r1 r2 r3 data sid (Some rkid) time_ns = (Ok blob, cache1) ->
  protected_blob c h rk rkid s sid l0 l1 l2 data blob.
Proof.
  intros c h rk rkid s sid time_ns l0 l1 l2 Hh Ha Hr Hs Hso Hns Hint Hne cache r1 r2 r3 data blob cache1 Hc Hr2 Hr3 Sw Sct Hp.
  destruct (interval_ranges _ _ _ _ Hns Hint) as (H0 & H1 & H2).
  exact (protected_offline c h rk rkid s sid l0 l1 l2 Hh Ha Hr Hs Hso H1 H2 time_ns cache r1 r2 r3 data blob cache1 Hns Hint Hne Hc Hr2 Hr3 Sw Sct Hp).
Qed.

(* ... and (2) PROTECT: _encrypt_blob on the seed-key / DH / ECDH envelope a conforming DC delivered; the blob decrypts offline with any
   cache in which the root key is loaded (C01's conclusion), and, being protected, online by (1) *)
Theorem compose_protect_envelope : forall (c : Crypto) h rk rkid s sid l0 l1 l2,
  rk_hash rk = Ok h -> rk_kdf_alg rk = STR_KDF_ALG -> len rkid = 16 -> sid_parse sid = Ok s -> sid_okb sid = true ->
  0 <= l0 <= 2147483647 -> 0 <= l1 <= 31 -> 0 <= l2 <= 31 -> CryptoLaws c ->
  forall e r1 r2 r3 data blob,
  protect_env_ok c h rk rkid s l0 l1 l2 e r1 r3 -> len r2 = 12 -> (forall ct, gcm_enc c r1 r2 data = Ok ct -> len ct < U32) ->
  encrypt_blob c r1 r2 r3 data e sid = Ok blob ->
  protected_blob c h rk rkid s sid l0 l1 l2 data blob /\
  (exists blob2, (let* b := blob_unpack blob in blob_pack b false) = Ok blob2 /\ protected_blob c h rk rkid s sid l0 l1 l2 data blob2) /\
  forall X, cache_ok c h rk rkid (target_sd s) l0 X ->
    fst (unprotect_offline c X blob) = Ok data /\
    forall blob2, (let* b := blob_unpack blob in blob_pack b false) = Ok blob2 -> fst (unprotect_offline c X blob2) = Ok data.
Proof.
  intros c h rk rkid s sid l0 l1 l2 Hh Ha Hr Hs Hso H0 H1 H2 L e r1 r2 r3 data blob Hpe Hr2 Sct He.
  pose proof (protected_by_envelope c h rk rkid s sid l0 l1 l2 Hh Ha Hr Hso H0 H1 H2 L e r1 r2 r3 data blob Hpe Hr2 Sct He) as Hp.
  split; [exact Hp|]. split; [exact (protected_relayout c h rk rkid s sid l0 l1 l2 data blob Hp)|].
  exact (proj2 (protected_roundtrip c h rk rkid s sid l0 l1 l2 Hh Ha Hs H0 H1 H2 L data blob Hp)).
Qed.

(* a protected blob decrypts offline with any cache in which the root key is loaded: protected_blob is not weaker than what C01 proves *)
Theorem compose_protected_offline_roundtrip : forall (c : Crypto) h rk rkid s sid l0 l1 l2,
  rk_hash rk = Ok h -> rk_kdf_alg rk = STR_KDF_ALG -> len rkid = 16 -> sid_parse sid = Ok s -> sid_okb sid = true ->
  0 <= l0 <= 2147483647 -> 0 <= l1 <= 31 -> 0 <= l2 <= 31 -> CryptoLaws c ->
  forall data blob, protected_blob c h rk rkid s sid l0 l1 l2 data blob ->
  (exists blob2, (let* b := blob_unpack blob in blob_pack b false) = Ok blob2) /\
  forall X, cache_ok c h rk rkid (target_sd s) l0 X ->
    fst (unprotect_offline c X blob) = Ok data /\
    forall blob2, (let* b := blob_unpack blob in blob_pack b false) = Ok blob2 -> fst (unprotect_offline c X blob2) = Ok data.
Proof.
  intros c h rk rkid s sid l0 l1 l2 Hh Ha Hr Hs Hso H0 H1 H2 L data blob Hp.
  exact (protected_roundtrip c h rk rkid s sid l0 l1 l2 Hh Ha Hs H0 H1 H2 L data blob Hp).
Qed.

(* (3) the tie to the conversation.  UNPROTECT end to end: ncrypt_unprotect_secret with the cache-miss branch filled in by the
   conversation of Model/Conversation.v.  Hypotheses of C17_result (the conversation for the blob's request succeeds against the script
   dc) + dc marshals e + e conforms to MS-GKDI for (rk, SD, l0) and covers (l1, l2). *)
Theorem compose_online_unprotect : forall (c : Crypto) h rk rkid s sid l0 l1 l2,
  rk_hash rk = Ok h -> rk_kdf_alg rk = STR_KDF_ALG -> len rkid = 16 -> sid_parse sid = Ok s -> sid_okb sid = true ->
  0 <= l0 <= 2147483647 -> 0 <= l1 <= 31 -> 0 <= l2 <= 31 -> CryptoLaws c ->
  forall (wrap : wrap_fn) (unwrap : unwrap_fn) pv f legs dc cache data blob env t e,
  protected_blob c h rk rkid s sid l0 l1 l2 data blob ->
  seeds_ok c h rk rkid s l0 cache -> (forall rk', cc_find_root (cc_roots cache) rkid = Some rk' -> rk' = rk) ->
  (forall b, blob_unpack blob = Ok b -> unprotect_get_key f wrap unwrap pv legs dc (target_sd s) (b_key_identifier b) = (Ok env, t)) ->
  dc_marshals f unwrap dc (tr_sign t) e ->
  env_ok c h rk rkid (target_sd s) l0 e -> covers (env_of e) l1 l2 ->
  env = e /\
  exists cache',
    unprotect_via_dc c (fun tsd kid => fst (unprotect_get_key f wrap unwrap pv legs dc tsd kid)) cache blob = (Ok data, cache') /\
    unprotect_offline c cache' blob = (Ok data, cache') /\
    (cc_find_root (cc_roots cache) rkid = None -> cc_find_seed (cc_seeds cache) (rkid, target_sd s, l0) = None ->
     cache' = cc_set_seed cache (rkid, target_sd s, l0) e).
Proof.
  intros c h rk rkid s sid l0 l1 l2 Hh Ha Hr Hs Hso H0 H1 H2 L wrap unwrap pv f legs dc cache data blob env t e Hp Hso' Hroot Hconv Hm He Hcov.
  destruct (protected_decrypt c h rk rkid s sid l0 l1 l2 Hs H0 L data blob Hp) as (b & Eu & _).
  assert (Ee : env = e).
  { pose proof (Hconv b Eu) as Hc. unfold unprotect_get_key in Hc. destruct f; exact (conversation_envelope _ _ _ _ _ _ _ _ _ _ _ _ _ _ Hc Hm). }
  split; [exact Ee|]. subst env.
  apply (online_unprotect c h rk rkid s sid l0 l1 l2 Hh Ha Hs H0 H1 H2 L _ cache data blob e Hp Hso' Hroot); [|exact He|exact Hcov].
  intros b' Eu'. rewrite (Hconv b' Eu'). reflexivity.
Qed.

(* PROTECT end to end: ncrypt_protect_secret on a cache miss, the conversation asking for "the current key"; (l0, l1, l2) and rkid are the
   position and root key the DC chose (protect_env_ok fixes gke_l0 e = l0 etc.) *)
Theorem compose_online_protect : forall (c : Crypto) h rk rkid s sid l0 l1 l2,
  rk_hash rk = Ok h -> rk_kdf_alg rk = STR_KDF_ALG -> len rkid = 16 -> sid_parse sid = Ok s -> sid_okb sid = true ->
  0 <= l0 <= 2147483647 -> 0 <= l1 <= 31 -> 0 <= l2 <= 31 -> CryptoLaws c ->
  forall (wrap : wrap_fn) (unwrap : unwrap_fn) pv f legs dc cache cache1 rko time_ns r1 r2 r3 data blob cache' env t e,
  protection_gke_from_cache c cache rko (target_sd s) time_ns = Ok (None, cache1) ->
  protect_get_key f wrap unwrap pv legs dc (target_sd s) rko = (Ok env, t) ->
  dc_marshals f unwrap dc (tr_sign t) e ->
  protect_env_ok c h rk rkid s l0 l1 l2 e r1 r3 -> len r2 = 12 -> (forall ct, gcm_enc c r1 r2 data = Ok ct -> len ct < U32) ->
  protect_via_dc c (fun sd rko => fst (protect_get_key f wrap unwrap pv legs dc sd rko)) cache r1 r2 r3 data sid rko time_ns = (Ok blob, cache') ->
  env = e /\ protected_blob c h rk rkid s sid l0 l1 l2 data blob /\
  cache' = (if gke_is_public_key e then cache1 else cc_store_key cache1 (target_sd s) e) /\
  (gke_is_public_key e = false -> seeds_ok c h rk rkid s l0 cache1 -> unprotect_offline c cache' blob = (Ok data, cache')) /\
  forall X, cache_ok c h rk rkid (target_sd s) l0 X ->
    fst (unprotect_offline c X blob) = Ok data /\
    forall blob2, (let* b := blob_unpack blob in blob_pack b false) = Ok blob2 -> fst (unprotect_offline c X blob2) = Ok data.
Proof.
  intros c h rk rkid s sid l0 l1 l2 Hh Ha Hr Hs Hso H0 H1 H2 L wrap unwrap pv f legs dc cache cache1 rko time_ns r1 r2 r3 data blob cache' env t e
    Hmiss Hconv Hm Hpe Hr2 Sct Hp.
  assert (Ee : env = e).
  { pose proof Hconv as Hc. unfold protect_get_key in Hc. destruct f, rko; exact (conversation_envelope _ _ _ _ _ _ _ _ _ _ _ _ _ _ Hc Hm). }
  split; [exact Ee|]. subst env.
  destruct (online_protect c h rk rkid s sid l0 l1 l2 Hh Ha Hr Hs Hso H0 H1 H2 L (fun sd rko => fst (protect_get_key f wrap unwrap pv legs dc sd rko)) cache cache1 rko time_ns r1 r2 r3 data blob cache' e Hmiss
              ltac:(cbv beta; rewrite Hconv; reflexivity) Hpe Hr2 Sct Hp) as (Hpb & Hc' & Hown).
  split; [exact Hpb|]. split; [exact Hc'|]. split; [exact Hown|].
  exact (proj2 (protected_roundtrip c h rk rkid s sid l0 l1 l2 Hh Ha Hs H0 H1 H2 L data blob Hpb)).
Qed.

(* protect without a root key id always misses *)
Lemma protect_miss_no_rkid c cache sd time_ns : protection_gke_from_cache c cache None sd time_ns = Ok (None, cache).
Proof. reflexivity. Qed.

(* ================================================ Part 3 ================================================
   Instances under the guarded symbolic crypto symg (Proofs/C01Lib.v), obtained by APPLYING the theorems above to values for which every
   hypothesis is checked.  Root key / SID / clock / draws: those of C01's examples (position (361, 31, 23)).  The DC: the peer script of
   C17_conversation_example (Proofs/C17Examples.v: both binds, the ept_map hop, two provider legs, header signing) whose GetKey stream is
   replaced by the RESPONSE PDU marshalling `exc_env`: the seed-key envelope MS-GKDI prescribes for this root key at exactly
   (361, 31, 23) -- L1 key = K1(30), L2 key = K2(31, 23) of the chain of Spec/GkdiSpec.v. *)
From V Require Import Proofs.C17Examples.
Definition unw (r : res bytes) : bytes := match r with Ok x => x | Raise _ => [] end.
Definition exc_k1_30 : bytes :=
  unw (K1 (kdfK symg SHA512 C01.ex_rkid 361) (root_top symg SHA512 C01.ex_rk C01.ex_rkid C01.ex_sd 361) 30).
Definition exc_env : envelope :=
  {| gke_version := 1; gke_flags := 2; gke_l0 := 361; gke_l1 := 31; gke_l2 := 23; gke_rkid := C01.ex_rkid;
     gke_kdf_alg := STR_KDF_ALG; gke_kdf_params := KekExamples.ex_kdf_params; gke_secret_alg := STR_DH;
     gke_secret_params := KekExamples.ex_sp 2;      (* the root key's secret agreement parameters (env_ok.eo_sparams) *)
     gke_priv_len := 512; gke_pub_len := 2048; gke_domain := [100]; gke_forest := [102; 46; 103];
     gke_l1_key := exc_k1_30; gke_l2_key := ex_pk_seed |}.
Definition exc_out : bytes := unw (GroupKeyEnvelope_pack exc_env).
Definition exc_reply : bytes := match ndr64_getkey_reply exc_out 0 with Some r => r | None => [] end.
Definition exc_pad : Z := (- len exc_reply) mod 16.
(* RESPONSE: 16-octet header (frag_len, auth_len = 16, call id 1), alloc_hint, context 0, the stub and its padding, the security trailer
   (provider 9, level 6, pad_length), a 16-octet signature *)
Definition exc_stream : bytes :=
  let body := exc_reply ++ repeat 0 (Z.to_nat exc_pad) in
  [5; 0; 2; 3; 16; 0; 0; 0] ++ le 2 (24 + len body + 8 + 16) ++ le 2 16 ++ le 4 1 ++ le 4 (len body) ++ [0; 0; 0; 0] ++ body
  ++ [9; 6; exc_pad; 0; 0; 0; 0; 0] ++ repeat 0 16.
Definition exc_dc : dc_script :=
  {| ds_epm_srv := ds_epm_srv ex_dc; ds_ept_stream := ds_ept_stream ex_dc; ds_isd_srv := ds_isd_srv ex_dc;
     ds_getkey_stream := exc_stream; ds_sched := [1; 2; 3; 50; 7] |}.

Lemma exc_env_ok : env_ok symg SHA512 C01.ex_rk C01.ex_rkid C01.ex_sd 361 exc_env.
Proof.
  constructor; try reflexivity.
  unfold conforming. cbn [env_of e_l1 e_l2 e_l1key e_l2key exc_env gke_l1 gke_l2 gke_l1_key gke_l2_key].
  split; [lia|]. split; [lia|]. split; [intros H; discriminate H|]. intros _.
  split; [vm_compute; reflexivity|intros _; vm_compute; reflexivity].
Qed.
Lemma exc_env_covers : covers (env_of exc_env) 31 23.
Proof. unfold covers. cbn. lia. Qed.
Lemma exc_seed_env_ok : seed_env_ok symg SHA512 C01.ex_rk C01.ex_rkid (parsed ex_sid) 361 31 23 exc_env.
Proof. constructor; [exact exc_env_ok|reflexivity|reflexivity|intros H; discriminate H]. Qed.

(* the script marshals exc_env, for either flavour's receive loop and header signing on *)
Lemma exc_dc_marshals f : dc_marshals f ex_unwrap exc_dc true exc_env.
Proof.
  eapply (dc_marshals_of_response f ex_unwrap exc_dc true exc_env _ exc_out exc_reply (repeat 0 (Z.to_nat exc_pad))
           {| st_type := 9; st_level := 6; st_pad_length := exc_pad; st_context_id := 0; st_auth_value := repeat 0 16 |}).
  - destruct f; vm_compute; reflexivity.
  - vm_compute. reflexivity.
  - vm_compute. reflexivity.
  - vm_compute. reflexivity.
  - vm_compute. reflexivity.
  - vm_compute. reflexivity.
  - vm_compute. reflexivity.
Qed.

Definition exc_blob : bytes := unw (fst (protect_offline symg C01.ex_cache ex_r1 ex_r2 ex_r3 [1; 2; 3] ex_sid (Some C01.ex_rkid) ex_time)).
Definition exc_kid : key_identifier :=
  match blob_unpack exc_blob with
  | Ok b => b_key_identifier b
  | Raise _ => {| kid_version := 0; kid_flags := 0; kid_l0 := 0; kid_l1 := 0; kid_l2 := 0; kid_rkid := []; kid_key_info := []; kid_domain := []; kid_forest := [] |}
  end.
Definition exc_oracle_u (f : flavour) : bytes -> key_identifier -> res envelope :=
  fun tsd kid => fst (unprotect_get_key f ex_wrap ex_unwrap ex_pv ex_legs exc_dc tsd kid).
Definition exc_oracle_p (f : flavour) : bytes -> option bytes -> res envelope :=
  fun sd rko => fst (protect_get_key f ex_wrap ex_unwrap ex_pv ex_legs exc_dc sd rko).

Lemma exc_ctx : rk_hash C01.ex_rk = Ok SHA512 /\ sid_parse ex_sid = Ok (parsed ex_sid) /\ sid_okb ex_sid = true.
Proof. repeat split; vm_compute; reflexivity. Qed.

(* UNPROTECT, end to end: a blob protected offline from the root key; the caller has an EMPTY cache (no root key); the conversation with
   the script returns exc_env, the call returns the plaintext, the envelope is cached and the next call needs no network *)
Example example_online_unprotect :
  exists blob cache1 t,
    protect_offline symg C01.ex_cache ex_r1 ex_r2 ex_r3 [1; 2; 3] ex_sid (Some C01.ex_rkid) ex_time = (Ok blob, cache1) /\
    protected_blob symg SHA512 C01.ex_rk C01.ex_rkid (parsed ex_sid) ex_sid 361 31 23 [1; 2; 3] blob /\
    (forall b, blob_unpack blob = Ok b ->
       unprotect_get_key Async ex_wrap ex_unwrap ex_pv ex_legs exc_dc C01.ex_sd (b_key_identifier b) = (Ok exc_env, t)) /\
    dc_marshals Async ex_unwrap exc_dc (tr_sign t) exc_env /\
    unprotect_via_dc symg (exc_oracle_u Async) cc_empty blob = (Ok [1; 2; 3], cc_set_seed cc_empty (C01.ex_rkid, C01.ex_sd, 361) exc_env) /\
    unprotect_offline symg (cc_set_seed cc_empty (C01.ex_rkid, C01.ex_sd, 361) exc_env) blob
      = (Ok [1; 2; 3], cc_set_seed cc_empty (C01.ex_rkid, C01.ex_sd, 361) exc_env).
Proof.
  destruct exc_ctx as (Hh & Hs & Hso).
  set (cache1 := snd (protect_offline symg C01.ex_cache ex_r1 ex_r2 ex_r3 [1; 2; 3] ex_sid (Some C01.ex_rkid) ex_time)).
  set (t := snd (unprotect_get_key Async ex_wrap ex_unwrap ex_pv ex_legs exc_dc C01.ex_sd exc_kid)).
  exists exc_blob, cache1, t.
  assert (Ep : protect_offline symg C01.ex_cache ex_r1 ex_r2 ex_r3 [1; 2; 3] ex_sid (Some C01.ex_rkid) ex_time = (Ok exc_blob, cache1))
    by (vm_compute; reflexivity).
  assert (Hc : cache_ok symg SHA512 C01.ex_rk C01.ex_rkid (target_sd (parsed ex_sid)) 361 C01.ex_cache) by (apply cache_ok_fresh; reflexivity).
  assert (Sw : forall kek w, derived_kek symg SHA512 C01.ex_rk C01.ex_rkid (target_sd (parsed ex_sid)) 361 31 23 ex_r3 = Ok kek ->
                 kw_wrap symg kek ex_r1 = Ok w -> len w < U32) by ex_wrap_size.
  assert (Sct : forall ct, gcm_enc symg ex_r1 ex_r2 [1; 2; 3] = Ok ct -> len ct < U32) by ex_gcm_size.
  assert (Hns : 0 <= ex_time) by (unfold ex_time; lia).
  pose proof (compose_protected_offline symg SHA512 C01.ex_rk C01.ex_rkid (parsed ex_sid) ex_sid ex_time 361 31 23 Hh eq_refl eq_refl Hs Hso Hns
                (proj1 ex_intervals) symg_kdf_nonempty C01.ex_cache ex_r1 ex_r2 ex_r3 [1; 2; 3] exc_blob cache1 Hc eq_refl eq_refl Sw Sct Ep) as Hpb.
  assert (Hconv : forall b, blob_unpack exc_blob = Ok b ->
            unprotect_get_key Async ex_wrap ex_unwrap ex_pv ex_legs exc_dc C01.ex_sd (b_key_identifier b) = (Ok exc_env, t)).
  { intros b Hb. assert (Ek : b_key_identifier b = exc_kid) by (unfold exc_kid; rewrite Hb; reflexivity). rewrite Ek.
    unfold t. vm_compute. reflexivity. }
  assert (Hsg : tr_sign t = true) by (vm_compute; reflexivity).
  assert (Hm : dc_marshals Async ex_unwrap exc_dc (tr_sign t) exc_env) by (rewrite Hsg; apply exc_dc_marshals).
  split; [exact Ep|]. split; [exact Hpb|]. split; [exact Hconv|]. split; [exact Hm|].
  destruct (compose_online_unprotect symg SHA512 C01.ex_rk C01.ex_rkid (parsed ex_sid) ex_sid 361 31 23 Hh eq_refl eq_refl Hs Hso
              ltac:(lia) ltac:(lia) ltac:(lia) symg_laws ex_wrap ex_unwrap ex_pv Async ex_legs exc_dc cc_empty [1; 2; 3] exc_blob exc_env t exc_env
              Hpb ltac:(intros x Hx; discriminate Hx) ltac:(intros rk' Hr; discriminate Hr) Hconv Hm exc_env_ok exc_env_covers)
    as (_ & cache' & Hu & Hoff & Hc').
  specialize (Hc' eq_refl eq_refl). subst cache'. split; [exact Hu|exact Hoff].
Qed.

(* PROTECT, end to end: no root key id, empty cache; the conversation (for "the current key") returns exc_env; the blob decrypts with the
   cache the call leaves (the stored envelope, no network) and with a cache in which only the root key is loaded *)
Example example_online_protect :
  exists blob cache' t,
    protect_get_key Sync ex_wrap ex_unwrap ex_pv ex_legs exc_dc C01.ex_sd None = (Ok exc_env, t) /\
    dc_marshals Sync ex_unwrap exc_dc (tr_sign t) exc_env /\
    protect_env_ok symg SHA512 C01.ex_rk C01.ex_rkid (parsed ex_sid) 361 31 23 exc_env ex_r1 ex_r3 /\
    protect_via_dc symg (exc_oracle_p Sync) cc_empty ex_r1 ex_r2 ex_r3 [1; 2; 3] ex_sid None ex_time = (Ok blob, cache') /\
    cache' = cc_store_key cc_empty C01.ex_sd exc_env /\
    protected_blob symg SHA512 C01.ex_rk C01.ex_rkid (parsed ex_sid) ex_sid 361 31 23 [1; 2; 3] blob /\
    unprotect_offline symg cache' blob = (Ok [1; 2; 3], cache') /\
    fst (unprotect_offline symg C01.ex_cache blob) = Ok [1; 2; 3].
Proof.
  destruct exc_ctx as (Hh & Hs & Hso).
  set (t := snd (protect_get_key Sync ex_wrap ex_unwrap ex_pv ex_legs exc_dc C01.ex_sd None)).
  set (r := protect_via_dc symg (exc_oracle_p Sync) cc_empty ex_r1 ex_r2 ex_r3 [1; 2; 3] ex_sid None ex_time).
  exists (unw (fst r)), (snd r), t.
  assert (Hconv : protect_get_key Sync ex_wrap ex_unwrap ex_pv ex_legs exc_dc C01.ex_sd None = (Ok exc_env, t)) by (unfold t; vm_compute; reflexivity).
  assert (Hsg : tr_sign t = true) by (vm_compute; reflexivity).
  assert (Hm : dc_marshals Sync ex_unwrap exc_dc (tr_sign t) exc_env) by (rewrite Hsg; apply exc_dc_marshals).
  assert (Hseed : derived_seed symg SHA512 C01.ex_rk C01.ex_rkid (target_sd (parsed ex_sid)) 361 31 23 = Ok ex_pk_seed) by (vm_compute; reflexivity).
  assert (Hpe : protect_env_ok symg SHA512 C01.ex_rk C01.ex_rkid (parsed ex_sid) 361 31 23 exc_env ex_r1 ex_r3).
  { apply (PE_seed symg SHA512 C01.ex_rk C01.ex_rkid (parsed ex_sid) 361 31 23 exc_env ex_r1 ex_r3 ex_pk_seed symg_kdf_nonempty Hseed exc_seed_env_ok eq_refl).
    intros w Ew. vm_lhs_in Ew. apply Ok_inj in Ew. subst w. vm_compute. reflexivity. }
  assert (Sct : forall ct, gcm_enc symg ex_r1 ex_r2 [1; 2; 3] = Ok ct -> len ct < U32) by ex_gcm_size.
  assert (Er : r = (Ok (unw (fst r)), snd r)) by (vm_compute; reflexivity).
  destruct (compose_online_protect symg SHA512 C01.ex_rk C01.ex_rkid (parsed ex_sid) ex_sid 361 31 23 Hh eq_refl eq_refl Hs Hso
              ltac:(lia) ltac:(lia) ltac:(lia) symg_laws ex_wrap ex_unwrap ex_pv Sync ex_legs exc_dc cc_empty cc_empty None ex_time
              ex_r1 ex_r2 ex_r3 [1; 2; 3] (unw (fst r)) (snd r) exc_env t exc_env eq_refl Hconv Hm Hpe eq_refl Sct Er)
    as (_ & Hpb & Hc' & Hown & HX).
  assert (Hc : cache_ok symg SHA512 C01.ex_rk C01.ex_rkid (target_sd (parsed ex_sid)) 361 C01.ex_cache) by (apply cache_ok_fresh; reflexivity).
  split; [exact Hconv|]. split; [exact Hm|]. split; [exact Hpe|]. split; [exact Er|]. split; [exact Hc'|]. split; [exact Hpb|].
  split; [apply Hown; [reflexivity|intros x Hx; discriminate Hx]|exact (proj1 (HX C01.ex_cache Hc))].
Qed.

(* the public-key cases of protect_env_ok are inhabited too: C01's DH and ECDH envelopes *)
Example example_protect_env_dh : protect_env_ok symg SHA512 C01.ex_rk C01.ex_rkid (parsed ex_sid) 361 31 23 ex_ep_dh ex_r1 ex_r3.
Proof.
  apply (PE_dh symg SHA512 C01.ex_rk C01.ex_rkid (parsed ex_sid) 361 31 23 ex_ep_dh ex_r1 ex_r3 ex_pk_seed 2 65521 17).
  - vm_compute. reflexivity.
  - exact ex_dh_env_ok.
  - vm_compute. reflexivity.
  - exact ex_r3_pub_valid.
  - unfold U32. lia.
  - intros kek kid w En Ew. vm_lhs_in En. apply Ok_inj in En. apply (f_equal fst) in En. cbn [fst] in En. subst kek.
    vm_lhs_in Ew. apply Ok_inj in Ew. subst w. vm_compute. reflexivity.
Qed.
Example example_protect_env_ecdh : protect_env_ok symg SHA512 ex_rkE C01.ex_rkid (parsed ex_sid) 361 31 23 ex_ep_ecdh ex_r1 ex_r3.
Proof.
  apply (PE_ecdh symg SHA512 ex_rkE C01.ex_rkid (parsed ex_sid) 361 31 23 ex_ep_ecdh ex_r1 ex_r3 ex_pk_seedE KekExamples.ex_algE KekExamples.ex_algzE P256 8 (fst ex_AE) (snd ex_AE)).
  - vm_compute. reflexivity.
  - exact ex_ecdh_env_ok.
  - intros kek kid En. vm_lhs_in En. apply Ok_inj in En. apply (f_equal snd) in En. cbn [snd] in En. subst kid. vm_compute. reflexivity.
  - intros kek kid w En Ew. vm_lhs_in En. apply Ok_inj in En. apply (f_equal fst) in En. cbn [fst] in En. subst kek.
    vm_lhs_in Ew. apply Ok_inj in Ew. subst w. vm_compute. reflexivity.
Qed.
