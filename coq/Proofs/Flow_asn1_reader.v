(* Tie theorems: the methods of ASN1Reader (_asn1.py, regenerated in gen/F_asn1.v) run by PyAstMut.run_mut in Flow/World_asn1.v:
   the result AND the reader afterwards (first parameter) are the model's reader functions of Model/Asn1.v
   (a reader is its remaining octets). *)
From V Require Import Prelude.PyAst.
From V Require Import Prelude.Base Prelude.PyInt Prelude.PySlice Prelude.PyStr Prelude.PyWorld Prelude.PyAstMut gen.K_asn1 gen.C_asn1 gen.F_asn1.
From V Require Import Model.Asn1 Flow.World_asn1.
Local Open Scope string_scope.
Local Open Scope list_scope.
Local Open Scope Z_scope.
Arguments len : simpl never.
Arguments slice : simpl never.
Arguments read_asn1_header : simpl never.
Arguments validate_tag : simpl never.
Arguments utf8_decode : simpl never.
Arguments read_int_content : simpl never.
Arguments read_oid_content : simpl never.
Arguments with_opts : simpl never.

Lemma tag_of_vopt t : tag_of (vopt_tag t) = Some t. Proof. destruct t; reflexivity. Qed.
Lemma header_of_vopt h : header_of (vopt_header h) = Some h. Proof. destruct h as [[? ? ?]|]; reflexivity. Qed.
Lemma hint_of_vopt s : hint_of (vopt_str s) = Some tt. Proof. destruct s; reflexivity. Qed.
Lemma with_opts_vopt {A} t h hint (k : option tag -> option header -> res A) inj :
  with_opts (vopt_tag t) (vopt_header h) (vopt_str hint) k inj = Some (let* r := k t h in Ok (inj r)).
Proof. unfold with_opts. rewrite tag_of_vopt, header_of_vopt, hint_of_vopt. reflexivity. Qed.

Lemma flow_reader_init fuel data :
  run_mut MW fuel k_flow_reader_init [VO ONewReader; VB data] = Ok (VN, [VO (OReader data); VB data]).
Proof. reflexivity. Qed.

Lemma flow_reader_bool fuel view :
  run_mut MW fuel k_flow_reader_bool [VO (OReader view)] = Ok (vb (reader_bool view), [VO (OReader view)]).
Proof.
  cbn. unfold reader_bool, len. destruct view; reflexivity.
Qed.

Lemma flow_reader_peek_header fuel view :
  run_mut MW fuel k_flow_reader_peek_header [VO (OReader view)] =
  (let* h := peek_header view in Ok (inj_header h, [VO (OReader view)])).
Proof. cbn. unfold peek_header. destruct (read_asn1_header view); reflexivity. Qed.

Lemma flow_reader_skip_value fuel view h :
  run_mut MW fuel k_flow_reader_skip_value [VO (OReader view); inj_header h] =
  Ok (VN, [VO (OReader (skip_value view h)); inj_header h]).
Proof. reflexivity. Qed.

Lemma flow_reader_get_remaining_data fuel view :
  run_mut MW fuel k_flow_reader_get_remaining_data [VO (OReader view)] =
  Ok (VB (fst (get_remaining_data view)), [VO (OReader (snd (get_remaining_data view)))]).
Proof. reflexivity. Qed.

Lemma flow_reader_read_boolean fuel view t h hint :
  run_mut MW fuel k_flow_reader_read_boolean [VO (OReader view); vopt_tag t; vopt_header h; vopt_str hint] =
  (let* (v, rest) := read_boolean view t h in Ok (vb v, [VO (OReader rest); vopt_tag t; vopt_header h; vopt_str hint])).
Proof.
  cbn. rewrite with_opts_vopt. cbn. unfold read_boolean, read_raw, m_read_boolean, advance.
  destruct (validate_tag _ _ _ _) as [[raw consumed]|e]; reflexivity.
Qed.

Lemma flow_reader_read_integer fuel view t h hint :
  run_mut MW fuel k_flow_reader_read_integer [VO (OReader view); vopt_tag t; vopt_header h; vopt_str hint] =
  (let* (v, rest) := read_integer view t h in Ok (VI v, [VO (OReader rest); vopt_tag t; vopt_header h; vopt_str hint])).
Proof.
  cbn. rewrite with_opts_vopt. cbn. unfold read_integer, m_read_integer, advance.
  destruct (validate_tag _ _ _ _) as [[raw consumed]|e]; cbn; [|reflexivity].
  destruct (read_int_content raw); reflexivity.
Qed.

(* enum_type: an IntEnum class given by its member values; a non-member raises ValueError (the reader has advanced) *)
Lemma flow_reader_read_enumerated fuel view ms t h hint :
  run_mut MW fuel k_flow_reader_read_enumerated [VO (OReader view); VO (OEnum ms); vopt_tag t; vopt_header h; vopt_str hint] =
  (let* (v, rest) := read_enumerated view t h in
   if existsb (Z.eqb v) ms then Ok (VI v, [VO (OReader rest); VO (OEnum ms); vopt_tag t; vopt_header h; vopt_str hint])
   else Raise ValueError).
Proof.
  cbn. rewrite with_opts_vopt. cbn. unfold read_enumerated, m_read_enumerated, read_integer, m_read_integer, advance.
  destruct (validate_tag _ _ _ _) as [[raw consumed]|e]; cbn; [|reflexivity].
  destruct (read_int_content raw) as [v|e]; cbn; [|reflexivity].
  destruct (existsb (Z.eqb v) ms); reflexivity.
Qed.

Lemma flow_reader_read_object_identifier fuel view t h hint :
  run_mut MW fuel k_flow_reader_read_object_identifier [VO (OReader view); vopt_tag t; vopt_header h; vopt_str hint] =
  (let* (v, rest) := read_object_identifier view t h in
   Ok (VO (OOid v), [VO (OReader rest); vopt_tag t; vopt_header h; vopt_str hint])).
Proof.
  cbn. rewrite with_opts_vopt. cbn. unfold read_object_identifier, m_read_object_identifier, advance.
  destruct (validate_tag _ _ _ _) as [[raw consumed]|e]; cbn; [|reflexivity].
  destruct (read_oid_content raw); reflexivity.
Qed.

Lemma flow_reader_read_utf8_string fuel view t h hint :
  run_mut MW fuel k_flow_reader_read_utf8_string [VO (OReader view); vopt_tag t; vopt_header h; vopt_str hint] =
  (let* (v, rest) := read_utf8_string view t h in Ok (VS v, [VO (OReader rest); vopt_tag t; vopt_header h; vopt_str hint])).
Proof.
  cbn. rewrite with_opts_vopt. cbn. unfold read_utf8_string, m_read_str, advance.
  destruct (validate_tag _ _ _ _) as [[raw consumed]|e]; cbn; [|reflexivity].
  destruct (utf8_decode raw); reflexivity.
Qed.

Lemma flow_reader_read_generalized_time fuel view t h hint :
  run_mut MW fuel k_flow_reader_read_generalized_time [VO (OReader view); vopt_tag t; vopt_header h; vopt_str hint] =
  (let* (v, rest) := read_generalized_time view t h in Ok (VS v, [VO (OReader rest); vopt_tag t; vopt_header h; vopt_str hint])).
Proof.
  cbn. rewrite with_opts_vopt. cbn. unfold read_generalized_time, m_read_str, advance.
  destruct (validate_tag _ _ _ _) as [[raw consumed]|e]; cbn; [|reflexivity].
  destruct (utf8_decode raw); reflexivity.
Qed.

Lemma flow_reader_read_octet_string fuel view t h hint :
  run_mut MW fuel k_flow_reader_read_octet_string [VO (OReader view); vopt_tag t; vopt_header h; vopt_str hint] =
  (let* (v, rest) := read_octet_string view t h in Ok (VB v, [VO (OReader rest); vopt_tag t; vopt_header h; vopt_str hint])).
Proof.
  cbn. rewrite with_opts_vopt. cbn. unfold read_octet_string, read_raw, advance.
  destruct (validate_tag _ _ _ _) as [[raw consumed]|e]; reflexivity.
Qed.

Lemma flow_reader_read_sequence fuel view t h hint :
  run_mut MW fuel k_flow_reader_read_sequence [VO (OReader view); vopt_tag t; vopt_header h; vopt_str hint] =
  (let* (v, rest) := read_sequence view t h in
   Ok (VO (OReader v), [VO (OReader rest); vopt_tag t; vopt_header h; vopt_str hint])).
Proof.
  cbn. rewrite with_opts_vopt. cbn. unfold read_sequence, read_raw, advance.
  destruct (validate_tag _ _ _ _) as [[raw consumed]|e]; reflexivity.
Qed.

Lemma flow_reader_read_set fuel view t h hint :
  run_mut MW fuel k_flow_reader_read_set [VO (OReader view); vopt_tag t; vopt_header h; vopt_str hint] =
  (let* (v, rest) := read_set view t h in
   Ok (VO (OReader v), [VO (OReader rest); vopt_tag t; vopt_header h; vopt_str hint])).
Proof.
  cbn. rewrite with_opts_vopt. cbn. unfold read_set, read_raw, advance.
  destruct (validate_tag _ _ _ _) as [[raw consumed]|e]; reflexivity.
Qed.

(* the module-level readers of Flow/World_asn1.v (m_read_*: value and octets consumed, what `_read_asn1_X` returns) are the
   model's reader functions up to `advance`: nothing new is introduced by them *)
Lemma flow_model_read_boolean view t h :
  read_boolean view t h = (let* (v, c) := m_read_boolean view t h in Ok (v, advance view c)).
Proof. unfold read_boolean, read_raw, m_read_boolean. destruct (validate_tag _ _ _ _) as [[raw c]|e]; reflexivity. Qed.
Lemma flow_model_read_integer view t h :
  read_integer view t h = (let* (v, c) := m_read_integer view t h in Ok (v, advance view c)).
Proof.
  unfold read_integer, m_read_integer. destruct (validate_tag _ _ _ _) as [[raw c]|e]; cbn [bind]; [|reflexivity].
  destruct (read_int_content raw); reflexivity.
Qed.
Lemma flow_model_read_enumerated view t h :
  read_enumerated view t h = (let* (v, c) := m_read_enumerated view t h in Ok (v, advance view c)).
Proof. unfold read_enumerated, m_read_enumerated. apply flow_model_read_integer. Qed.
Lemma flow_model_read_object_identifier view t h :
  read_object_identifier view t h = (let* (v, c) := m_read_object_identifier view t h in Ok (v, advance view c)).
Proof.
  unfold read_object_identifier, m_read_object_identifier. destruct (validate_tag _ _ _ _) as [[raw c]|e]; cbn [bind]; [|reflexivity].
  destruct (read_oid_content raw); reflexivity.
Qed.
Lemma flow_model_read_utf8_string view t h :
  read_utf8_string view t h = (let* (v, c) := m_read_str c_tag_utf8 view t h in Ok (v, advance view c)).
Proof.
  unfold read_utf8_string, m_read_str. destruct (validate_tag _ _ _ _) as [[raw c]|e]; cbn [bind]; [|reflexivity].
  destruct (utf8_decode raw); reflexivity.
Qed.
Lemma flow_model_read_generalized_time view t h :
  read_generalized_time view t h = (let* (v, c) := m_read_str c_tag_gentime view t h in Ok (v, advance view c)).
Proof.
  unfold read_generalized_time, m_read_str. destruct (validate_tag _ _ _ _) as [[raw c]|e]; cbn [bind]; [|reflexivity].
  destruct (utf8_decode raw); reflexivity.
Qed.
