(* C07: identifier and length octets. The writer (_pack_asn1) produces the DER identifier / length of
   Spec/DerSpec.v, and the header reader (_read_asn1_header) accepts every DER header. *)
From V Require Import Prelude.Base Prelude.PyInt Prelude.PySlice gen.K_asn1 gen.C_asn1 Model.Asn1 Spec.DerSpec Proofs.Asn1Lib.

Lemma pow2_8k k : 2 ^ (8 * Z.of_nat k) = P k.
Proof.
  induction k as [|k IH]; [rewrite P_0; reflexivity|].
  rewrite P_S, <- IH. replace (8 * Z.of_nat (S k)) with (8 + 8 * Z.of_nat k) by lia.
  rewrite Z.pow_add_r by lia. reflexivity.
Qed.
Lemma bits_fuel_ok n : 0 <= n -> n < 2 ^ Z.of_nat (bits_fuel n).
Proof.
  intros H. unfold bits_fuel. destruct (Z.eq_dec n 0) as [->|Hn]; [cbn; lia|].
  pose proof (Z.log2_spec n ltac:(lia)) as [_ Hs]. pose proof (Z.log2_nonneg n).
  rewrite Nat2Z.inj_succ, Z2Nat.id by lia. exact Hs.
Qed.

Lemma hd_rev {A} (l : list A) d : hd d (rev l) = last l d.
Proof.
  destruct l as [|x l] using rev_ind; [reflexivity|]. rewrite rev_app_distr, last_app_single. reflexivity.
Qed.
Lemma le_val_top ds : wfb ds = true -> ds <> [] -> last ds 0 <> 0 -> P (length ds - 1) <= le_val ds.
Proof.
  intros Hw Hne Hl. destruct (exists_last Hne) as (init & t & ->).
  rewrite last_app_single in Hl. rewrite le_val_app, app_length. cbn [length le_val].
  replace (length init + 1 - 1)%nat with (length init) by lia.
  rewrite wfb_app in Hw. apply andb_prop in Hw. destruct Hw as [Hi Ht]. apply wfb_cons in Ht.
  pose proof (le_val_range init Hi). pose proof (P_pos (length init)). nia.
Qed.

(* ---- length octets, writer *)
Lemma len_octets_spec fuel : forall n, 0 <= n < 2 ^ Z.of_nat fuel ->
  exists ds, len_octets fuel n = Ok ds /\ wfb ds = true /\ le_val ds = n /\ (0 < n -> ds <> [] /\ last ds 0 <> 0) /\ (n = 0 -> ds = []).
Proof.
  induction fuel as [|f IH]; intros n Hn.
  - cbn in Hn. assert (n = 0) by lia. subst. cbn. exists []. repeat split; try reflexivity; lia.
  - cbn [len_octets]. unfold k_der_len_more. destruct (n =? 0) eqn:E.
    + assert (n = 0) by lia. subst. exists []. repeat split; try reflexivity; lia.
    + cbn [negb]. unfold k_der_len_shift, k_der_len_octet. rewrite shiftr_8, land_255.
      rewrite Nat2Z.inj_succ, Z.pow_succ_r in Hn by lia.
      destruct (IH (n / 256)) as (ds & E1 & Hw & Hv & Hpos & Hz); [lia|].
      rewrite E1. cbn [bind]. exists (n mod 256 :: ds). split; [reflexivity|].
      split; [apply wfb_cons; split; [lia|exact Hw]|].
      split; [cbn [le_val]; rewrite Hv; lia|]. split; [|lia].
      intros _. split; [discriminate|].
      destruct (Z.eq_dec (n / 256) 0) as [Hq|Hq].
      * rewrite (Hz Hq). cbn. lia.
      * destruct (Hpos ltac:(lia)) as [Hne Hl]. destruct ds; [congruence|]. exact Hl.
Qed.

Theorem pack_length_der n : 0 <= n < P 126 -> exists bs, pack_length n = Ok bs /\ der_len n bs.
Proof.
  intros Hn. unfold pack_length, k_der_short_len. destruct (n <? 128) eqn:E.
  - unfold byte_ok. destruct ((0 <=? n) && (n <? 256)) eqn:E2; [|lia]. cbn [bind]. exists [n]. split; [reflexivity|].
    constructor. lia.
  - destruct (len_octets_spec (bits_fuel n) n) as (ds & E1 & Hw & Hv & Hpos & _); [split; [lia|apply bits_fuel_ok; lia]|].
    rewrite E1. cbn [bind]. destruct (Hpos ltac:(lia)) as [Hne Hl].
    assert (Hlen : (1 <= length ds <= 126)%nat).
    { split; [destruct ds; [congruence|cbn; lia]|].
      pose proof (le_val_top ds Hw Hne Hl) as Ht. destruct (le_lt_dec (length ds) 126) as [|Hgt]; [assumption|].
      pose proof (P_mono 126 (length ds - 1) ltac:(lia)). lia. }
    unfold k_der_len_first. rewrite lor_128_spec by (unfold len; lia).
    unfold byte_ok. destruct ((0 <=? len ds + 128) && (len ds + 128 <? 256)) eqn:E2; [|unfold len in *; lia]. cbn [bind].
    exists (len ds + 128 :: rev ds). split; [reflexivity|].
    replace (len ds + 128) with (128 + len (rev ds)) by (unfold len; rewrite rev_length; lia).
    constructor; [lia|now rewrite wfb_rev|now rewrite rev_length| |].
    + unfold be_val. now rewrite rev_involutive.
    + rewrite hd_rev. exact Hl.
Qed.

(* ---- length octets, reader *)
Lemma read_len_octets_spec : forall ds rest lo idx acc, wfb ds = true -> Z.of_nat (length ds) = lo - idx ->
  read_len_octets (length ds) (ds ++ rest) lo idx acc = Ok (acc + be_val ds).
Proof.
  induction ds as [|o ds IH]; intros rest lo idx acc Hw Hl.
  - cbn [length app read_len_octets]. f_equal. rewrite be_val_nil. lia.
  - cbn [length app read_len_octets]. apply wfb_cons in Hw. cbn [length] in Hl.
    rewrite IH by (try tauto; lia). f_equal. rewrite be_val_cons. unfold k_hdr_len_acc.
    replace (8 * (lo - 1 - idx)) with (8 * Z.of_nat (length ds)) by lia.
    rewrite Z.shiftl_mul_pow2 by lia. rewrite pow2_8k. lia.
Qed.

(* ---- base 128, reader *)
Lemma unpack_octet_number_shape bs : b128_shape bs -> forall rest i idx,
  unpack_octet_number_rest (bs ++ rest) i idx = Ok (b128_val i bs, idx + len bs, rest).
Proof.
  induction 1 as [d Hd|d r Hd Hr IH]; intros rest i idx; cbn [app unpack_octet_number_rest b128_val].
  - rewrite cont_bit_spec by lia. destruct (d <? 128) eqn:E; [|lia]. rewrite k_b128_acc_spec. reflexivity.
  - rewrite cont_bit_spec by lia. destruct (d <? 128) eqn:E; [lia|]. rewrite IH, k_b128_acc_spec, len_cons. do 3 f_equal. lia.
Qed.

(* ---- base 128, writer: digits least significant first *)
Fixpoint lsb128 (ds : list Z) : Z := match ds with [] => 0 | d :: r => d mod 128 + 128 * lsb128 r end.
Definition contd (d : Z) : Prop := 128 <= d < 256.
Lemma b128_digits_spec fuel : forall num first, 0 <= num < 2 ^ Z.of_nat fuel ->
  exists ds, b128_digits fuel num first = Ok ds /\ lsb128 ds = num /\
    (if first then match ds with [] => True | d :: r => 0 <= d < 128 /\ Forall contd r end else Forall contd ds) /\
    (0 < num -> ds <> [] /\ (last ds 0) mod 128 <> 0) /\ (num = 0 -> ds = []).
Proof.
  induction fuel as [|f IH]; intros num first Hn.
  - cbn in Hn. assert (num = 0) by lia. subst. cbn. exists []. repeat split; try reflexivity; try lia. destruct first; constructor.
  - cbn [b128_digits]. unfold k_b128_more. destruct (num =? 0) eqn:E.
    + assert (num = 0) by lia. subst. exists []. repeat split; try reflexivity; try lia. destruct first; constructor.
    + cbn [negb]. unfold k_b128_shift, k_b128_low, k_b128_cont. rewrite shiftr_7, land_127.
      rewrite Nat2Z.inj_succ, Z.pow_succ_r in Hn by lia.
      destruct (IH (num / 128) false) as (ds & E1 & Hv & Hc & Hpos & Hz); [lia|].
      rewrite E1. cbn [bind].
      set (d := if first then num mod 128 else Z.lor (num mod 128) 128).
      assert (Hd : d mod 128 = num mod 128 /\ (if first then 0 <= d < 128 else contd d)).
      { unfold d, contd. destruct first; [split; [apply Z.mod_small|]; lia|]. rewrite lor_128_spec by lia. split; lia. }
      exists (d :: ds). split; [reflexivity|]. split; [cbn [lsb128]; rewrite Hv; lia|].
      split; [destruct first; [tauto|constructor; tauto]|]. split; [|lia].
      intros _. split; [discriminate|].
      destruct (Z.eq_dec (num / 128) 0) as [Hq|Hq].
      * rewrite (Hz Hq). cbn [last]. lia.
      * destruct (Hpos ltac:(lia)) as [Hne Hl]. destruct ds; [congruence|]. exact Hl.
Qed.
Lemma b128_val_app l d acc : b128_val acc (l ++ [d]) = 128 * b128_val acc l + d mod 128.
Proof. revert acc; induction l as [|x l IH]; intros acc; cbn [app b128_val]; [reflexivity|apply IH]. Qed.
Lemma b128_val_rev ds : b128_val 0 (rev ds) = lsb128 ds.
Proof. induction ds as [|d r IH]; [reflexivity|]. cbn [rev lsb128]. rewrite b128_val_app, IH. lia. Qed.
Lemma b128_shape_app l d : Forall contd l -> 0 <= d < 128 -> b128_shape (l ++ [d]).
Proof. induction 1 as [|x l Hx Hl IH]; intros Hd; cbn [app]; [constructor; lia|]. apply b128_cont; [exact Hx|auto]. Qed.

Theorem pack_octet_number_der num : 0 < num -> exists ds, pack_octet_number num = Ok ds /\ der_b128 num ds.
Proof.
  intros Hn. unfold pack_octet_number.
  destruct (b128_digits_spec (bits_fuel num) num true) as (ds & E1 & Hv & Hc & Hpos & _); [split; [lia|apply bits_fuel_ok; lia]|].
  rewrite E1. cbn [bind]. exists (rev ds). split; [reflexivity|].
  destruct (Hpos Hn) as [Hne Hl]. destruct ds as [|d r]; [congruence|]. destruct Hc as [Hd Hr].
  split; [|split].
  - cbn [rev]. apply b128_shape_app; [|exact Hd]. apply Forall_rev. exact Hr.
  - rewrite hd_rev. intros H128. rewrite H128 in Hl. cbn in Hl. lia.
  - rewrite b128_val_rev. exact Hv.
Qed.

(* ---- identifier octets, writer *)
Definition tag_wf (t : tag) : Prop := 0 <= t_class t <= 3 /\ 0 <= t_num t.
Lemma ident_octet_eq c k n : ident_first c k n = ident_octet c k n. Proof. reflexivity. Qed.
Theorem pack_ident_der t : tag_wf t -> exists bs, pack_ident (t_class t) (t_cons t) (t_num t) = Ok bs /\ der_ident t bs.
Proof.
  intros [Hc Hn]. unfold pack_ident, k_der_class_bad.
  destruct ((t_class t <? 0) || (t_class t >? 3)) eqn:E; [lia|]. unfold k_der_low_tag.
  destruct (t_num t <? 31) eqn:E2.
  - destruct (ident_octet_spec (t_class t) (t_cons t) (t_num t)) as [H1 _]; [lia|lia|]. rewrite H1.
    assert (Hb : 0 <= ident_first (t_class t) (t_cons t) (t_num t) < 256) by (unfold ident_first; destruct (t_cons t); lia).
    unfold byte_ok. destruct ((0 <=? _) && (_ <? 256)) eqn:E3; [|lia]. cbn [bind].
    eexists. split; [reflexivity|]. apply der_ident_low; lia.
  - destruct (ident_octet_spec (t_class t) (t_cons t) 31) as [_ H2]; [lia|lia|]. rewrite (H2 eq_refl).
    assert (Hb : 0 <= ident_first (t_class t) (t_cons t) 31 < 256) by (unfold ident_first; destruct (t_cons t); lia).
    unfold byte_ok. destruct ((0 <=? _) && (_ <? 256)) eqn:E3; [|lia]. cbn [bind].
    destruct (pack_octet_number_der (t_num t)) as (ds & E4 & Hd); [lia|]. rewrite E4. cbn [bind].
    eexists. split; [reflexivity|]. apply der_ident_high; [lia|lia|exact Hd].
Qed.

(* ---- the header reader accepts every DER header *)
Definition tag_readable (t : tag) : Prop := t_class t = c_class_universal -> universal_ok (t_num t) = true.
Lemma der_len_nonempty n lb : der_len n lb -> lb <> []. Proof. destruct 1; discriminate. Qed.
Lemma der_len_wf n lb : der_len n lb -> 0 <= n /\ wfb lb = true.
Proof.
  destruct 1 as [n Hn|n ds Hn Hw Hl Hv Hh]; [split; [lia|apply wfb_single; lia]|].
  split; [lia|]. apply wfb_cons. split; [unfold len; lia|exact Hw].
Qed.

Theorem read_header_der t ib n lb rest : der_ident t ib -> der_len n lb -> tag_readable t ->
  read_asn1_header (ib ++ lb ++ rest) = Ok (mk_header t (len ib + len lb) n).
Proof.
  intros Hi Hl Hr.
  assert (Hlen : forall tag_octets,
     match lb ++ rest with
     | [] => Raise NotEnoughData
     | length :: r2 =>
       if k_hdr_indef length then Raise ValueError
       else if negb (k_hdr_long length =? 0) then
         let length_octets := k_hdr_len_octets 1 length in
         let* l := read_len_octets (Z.to_nat (length_octets - 1)) r2 length_octets 1 0 in
         Ok (mk_header t (tag_octets + length_octets) l)
       else Ok (mk_header t (tag_octets + 1) length)
     end = Ok (mk_header t (tag_octets + len lb) n)).
  { intros to. destruct Hl as [n Hn|n ds Hn Hw Hlen Hv Hh]; cbn [app].
    - unfold k_hdr_indef, k_hdr_long. destruct (n =? 128) eqn:E; [lia|]. rewrite cont_bit_spec by lia.
      destruct (n <? 128) eqn:E2; [|lia]. cbn [negb]. reflexivity.
    - unfold k_hdr_indef, k_hdr_long, k_hdr_len_octets. unfold len in *.
      destruct (128 + Z.of_nat (length ds) =? 128) eqn:E; [lia|]. rewrite cont_bit_spec by lia.
      destruct (128 + Z.of_nat (length ds) <? 128) eqn:E2; [lia|]. cbn [negb]. rewrite land_127. cbv zeta.
      replace ((128 + Z.of_nat (length ds)) mod 128) with (Z.of_nat (length ds)) by lia.
      replace (Z.to_nat (1 + Z.of_nat (length ds) - 1)) with (length ds) by lia.
      rewrite read_len_octets_spec by (try assumption; lia). cbn [bind]. rewrite Hv. do 2 f_equal.
      cbn [length]. lia. }
  destruct t as [c num k]. unfold tag_readable in Hr. cbn [t_class t_num] in Hr.
  inversion Hi as [t' Hc Hn Ht|t' ds Hc Hn Hd Ht]; subst t'; cbn [t_class t_num t_cons] in *; subst ib.
  - cbn [app read_asn1_header]. set (o := ident_octet c k num).
    assert (Ho : 0 <= o < 256) by (unfold o, ident_octet; destruct k; lia).
    destruct (hdr_octet_spec o Ho) as (H1 & H2 & H3). rewrite H1, H2, H3.
    assert (o / 64 = c) by (unfold o, ident_octet; destruct k; lia).
    assert (((o / 32) mod 2 =? 1) = k) by (unfold o, ident_octet; destruct k; lia).
    assert (o mod 32 = num) by (unfold o, ident_octet; destruct k; lia).
    rewrite H, H0, H4. unfold k_hdr_high. destruct (num =? 31) eqn:E; [lia|]. cbn [bind].
    destruct ((c =? c_class_universal) && negb (universal_ok num)) eqn:E5.
    { apply andb_prop in E5. destruct E5 as [E6 E7]. rewrite Hr in E7 by lia. discriminate. }
    rewrite Hlen. rewrite len_cons, len_nil. do 2 f_equal; try lia.
  - cbn [app read_asn1_header]. set (o := ident_octet c k 31).
    assert (Ho : 0 <= o < 256) by (unfold o, ident_octet; destruct k; lia).
    destruct (hdr_octet_spec o Ho) as (H1 & H2 & H3). rewrite H1, H2, H3.
    assert (o / 64 = c) by (unfold o, ident_octet; destruct k; lia).
    assert (((o / 32) mod 2 =? 1) = k) by (unfold o, ident_octet; destruct k; lia).
    assert (o mod 32 = 31) by (unfold o, ident_octet; destruct k; lia).
    rewrite H, H0, H4. unfold k_hdr_high. cbn [Z.eqb Pos.eqb]. destruct Hd as (Hs & Hh & Hv).
    rewrite (unpack_octet_number_shape ds Hs). cbn [bind]. rewrite Hv.
    destruct ((c =? c_class_universal) && negb (universal_ok num)) eqn:E5.
    { apply andb_prop in E5. destruct E5 as [E6 E7]. rewrite Hr in E7 by lia. discriminate. }
    rewrite Hlen. rewrite len_cons. do 2 f_equal; try lia.
Qed.
