(* Tie theorems, CMS encoders (_pkcs7.py X.pack, _blob.py ProtectionDescriptor.pack / parse, DPAPINGBlob.pack): the regenerated
   syntax (gen/F_asn1.v), run by Prelude/PyAstMut.v in the world Flow/World_cms.v, does exactly what the hand-written model
   functions of Model/Pkcs7.v / Model/Blob.v (the ones the C06 theorems are about) do: `x.pack(writer)` returns None and leaves
   the writer with the model's node `X_pack x` appended (`packed`); the bytes-returning functions return the model's bytes. *)
From V Require Import Prelude.PyAst.
From V Require Import Prelude.Base Prelude.PyInt Prelude.PySlice Prelude.PyStr Prelude.PyWorld Prelude.PyAstMut gen.K_asn1 gen.C_asn1 gen.F_asn1.
From V Require Import Model.Types Model.KeyId Model.Asn1 Model.Pkcs7 Model.Blob Flow.World_cms.
Local Open Scope string_scope.
Local Open Scope list_scope.
Local Open Scope Z_scope.

Arguments len : simpl never.
Arguments a_oid : simpl never.
Arguments a_int : simpl never.
Arguments a_utf8 : simpl never.
Arguments a_gentime : simpl never.
Arguments a_octets : simpl never.
Arguments encode : simpl never.
Arguments encode_list : simpl never.

Ltac step := unfold test, rd, wr, unpack_mut, pack_mut; cbn.
Lemma len_cons_eqb0 {A} (x : A) b : (len (x :: b) =? 0) = false.
Proof. rewrite len_cons. pose proof (len_nonneg b). lia. Qed.
Lemma len_nil_eqb0 {A} : (len (@nil A) =? 0) = true.
Proof. reflexivity. Qed.
Ltac lens := repeat (progress (rewrite ?len_cons_eqb0, ?len_nil_eqb0); cbn).

Lemma flow_AlgorithmIdentifier_pack fuel a t ws :
  run_mut MW fuel k_flow_AlgorithmIdentifier_pack [VO (OAlg a); VO (OWriter t ws)]
  = packed (VO (OAlg a)) t ws (AlgorithmIdentifier_pack a).
Proof.
  unfold AlgorithmIdentifier_pack, packed. destruct a as [o p]. cbn. step.
  destruct (a_oid o) as [n|e]; cbn; [|reflexivity].
  step. destruct p as [[|x b]|]; cbn; lens; reflexivity.
Qed.

Lemma flow_OtherKeyAttribute_pack fuel a t ws :
  run_mut MW fuel k_flow_OtherKeyAttribute_pack [VO (OOka a); VO (OWriter t ws)]
  = packed (VO (OOka a)) t ws (OtherKeyAttribute_pack a).
Proof.
  unfold OtherKeyAttribute_pack, packed. destruct a as [o p]. cbn. step.
  destruct (a_oid o) as [n|e]; cbn; [|reflexivity].
  step. destruct p as [[|x b]|]; cbn; lens; reflexivity.
Qed.

Lemma flow_ContentInfo_pack fuel c t ws :
  run_mut MW fuel k_flow_ContentInfo_pack [VO (OCi c); VO (OWriter t ws)]
  = packed (VO (OCi c)) t ws (ContentInfo_pack c).
Proof.
  unfold ContentInfo_pack, packed. destruct c as [o b]. cbn. step.
  destruct (a_oid o) as [n|e]; cbn; reflexivity.
Qed.

(* RecipientInfo.pack is abstract in the library (raise NotImplementedError); the model has no such function *)
Lemma flow_RecipientInfo_pack fuel self writer :
  run_mut MW fuel k_flow_RecipientInfo_pack [self; writer] = Raise NotImplementedError.
Proof. reflexivity. Qed.

Lemma flow_KEKIdentifier_pack fuel k t ws :
  run_mut MW fuel k_flow_KEKIdentifier_pack [VO (OKekId k); VO (OWriter t ws)]
  = packed (VO (OKekId k)) t ws (KEKIdentifier_pack k).
Proof.
  unfold KEKIdentifier_pack, packed. destruct k as [kid d o]. cbn. step.
  destruct d as [[|x s]|]; cbn; lens.
  3:{ destruct o as [oka|]; cbn; step; [|reflexivity].
      destruct (OtherKeyAttribute_pack oka) as [n|e]; cbn; reflexivity. }
  2:{ step. destruct (a_gentime (x :: s)) as [g|e]; cbn; [|reflexivity].
      destruct o as [oka|]; cbn; step; [|reflexivity].
      destruct (OtherKeyAttribute_pack oka) as [n|e]; cbn; reflexivity. }
  destruct o as [oka|]; cbn; step; [|reflexivity].
  destruct (OtherKeyAttribute_pack oka) as [n|e]; cbn; reflexivity.
Qed.

Lemma flow_KEKRecipientInfo_pack fuel r t ws :
  run_mut MW fuel k_flow_KEKRecipientInfo_pack [VO (OKri r); VO (OWriter t ws)]
  = packed (VO (OKri r)) t ws (KEKRecipientInfo_pack r).
Proof.
  unfold KEKRecipientInfo_pack, packed. destruct r as [v k a ek]. cbn. step.
  destruct (a_int v None) as [n|e]; cbn; [|reflexivity]. step.
  destruct (KEKIdentifier_pack k) as [nk|e]; cbn; [|reflexivity]. step.
  destruct (AlgorithmIdentifier_pack a) as [na|e]; cbn; reflexivity.
Qed.

Lemma flow_EncryptedContentInfo_pack fuel e t ws :
  run_mut MW fuel k_flow_EncryptedContentInfo_pack [VO (OEci e); VO (OWriter t ws)]
  = packed (VO (OEci e)) t ws (EncryptedContentInfo_pack e).
Proof.
  unfold EncryptedContentInfo_pack, packed. destruct e as [ct a c]. cbn. step.
  destruct (a_oid ct) as [n|e]; cbn; [|reflexivity]. step.
  destruct (AlgorithmIdentifier_pack a) as [na|e]; cbn; [|reflexivity]. step.
  destruct c as [[|x b]|]; cbn; lens; reflexivity.
Qed.

(* ---- EnvelopedData.pack: `for ri in self.recipient_infos: ri.pack(recipient_writer)` ---- *)
Definition floop (xs : list string) (bodyf : penv -> res outcome) : list V -> penv -> res outcome :=
  fix each (vs : list V) (env : penv) : res outcome :=
    match vs with
    | [] => Ok (Next env)
    | v :: r => let* envb := bind_targets MW xs v env in
                let* o := bodyf envb in
                match o with
                | Next env' | Cont env' => each r env'
                | Brk env' => Ok (Next env')
                | Ret w envr => Ok (Ret w envr)
                end
    end.

Definition ris_for_body : list pstmt := [ SExpr (PMeth "pack" (PName "ri") [(PName "recipient_writer")]) ].
Definition ris_for : pstmt := SFor ["ri"] (PAttr (PName "self") "recipient_infos") ris_for_body.

Lemma for_eq fuel env :
  exec MW fuel env ris_for
  = let* (iv, env1) := eval MW env (PAttr (PName "self") "recipient_infos") in
    let* items := w_iter (mw_base MW) iv in
    floop ["ri"] (exec_block MW fuel ris_for_body) items env1.
Proof. reflexivity. Qed.

Lemma ris_for_step fuel env k t acc :
  lookup "ri" env = Some (VO (OKri k)) -> lookup "recipient_writer" env = Some (VO (OWriter t acc)) ->
  exec_block MW fuel ris_for_body env
  = let* n := KEKRecipientInfo_pack k in
    Ok (Next (update "recipient_writer" (VO (OWriter t (acc ++ [n]))) (update "ri" (VO (OKri k)) env))).
Proof.
  intros H1 H2. unfold ris_for_body. cbn. rewrite H1. cbn. rewrite H2. cbn. unfold pack_mut.
  destruct (KEKRecipientInfo_pack k) as [n|e]; cbn; [|reflexivity].
  rewrite H1. cbn. rewrite H2. reflexivity.
Qed.

Lemma ris_floop (bf : penv -> res outcome)
  (Hstep : forall env k t acc, lookup "ri" env = Some (VO (OKri k)) ->
             lookup "recipient_writer" env = Some (VO (OWriter t acc)) ->
             bf env = let* n := KEKRecipientInfo_pack k in
                      Ok (Next (update "recipient_writer" (VO (OWriter t (acc ++ [n]))) (update "ri" (VO (OKri k)) env)))) :
  forall ris env t acc,
  lookup "recipient_writer" env = Some (VO (OWriter t acc)) ->
  match map_res KEKRecipientInfo_pack ris with
  | Ok ns => exists env', floop ["ri"] bf (map (fun r => VO (OKri r)) ris) env = Ok (Next env')
                          /\ lookup "recipient_writer" env' = Some (VO (OWriter t (acc ++ ns)))
                          /\ (forall x, String.eqb x "ri" = false -> String.eqb x "recipient_writer" = false ->
                                        lookup x env' = lookup x env)
  | Raise e => floop ["ri"] bf (map (fun r => VO (OKri r)) ris) env = Raise e
  end.
Proof.
  induction ris as [|k ris IH]; intros env t acc Hw; cbn [map map_res floop bind].
  - exists env. rewrite app_nil_r. auto.
  - cbn [bind_targets bind].
    rewrite (Hstep (update "ri" (VO (OKri k)) env) k t acc); [|reflexivity|cbn; exact Hw].
    destruct (KEKRecipientInfo_pack k) as [n|e]; cbn [bind]; [|reflexivity].
    specialize (IH (update "recipient_writer" (VO (OWriter t (acc ++ [n])))
                      (update "ri" (VO (OKri k)) (update "ri" (VO (OKri k)) env))) t (acc ++ [n]) eq_refl).
    destruct (map_res KEKRecipientInfo_pack ris) as [ns|e]; cbn [bind].
    + destruct IH as (env' & E1 & E2 & E3). exists env'. split; [exact E1|]. split.
      * rewrite E2, <- app_assoc. reflexivity.
      * intros x X1 X2. rewrite (E3 x X1 X2). cbn. rewrite X2, X1. reflexivity.
    + exact IH.
Qed.

Lemma for_exec fuel env e t acc :
  lookup "self" env = Some (VO (OEd e)) -> lookup "recipient_writer" env = Some (VO (OWriter t acc)) ->
  match map_res KEKRecipientInfo_pack (ed_recipient_infos e) with
  | Ok ns => exists env', exec MW fuel env ris_for = Ok (Next env')
                          /\ lookup "recipient_writer" env' = Some (VO (OWriter t (acc ++ ns)))
                          /\ (forall x, String.eqb x "ri" = false -> String.eqb x "recipient_writer" = false ->
                                        lookup x env' = lookup x env)
  | Raise e' => exec MW fuel env ris_for = Raise e'
  end.
Proof.
  intros H1 H2. rewrite for_eq. cbn [eval bind]. rewrite H1. cbn.
  apply (ris_floop (exec_block MW fuel ris_for_body) (ris_for_step fuel)). exact H2.
Qed.

Lemma flow_EnvelopedData_pack fuel e t ws :
  run_mut MW fuel k_flow_EnvelopedData_pack [VO (OEd e); VO (OWriter t ws)]
  = packed (VO (OEd e)) t ws (EnvelopedData_pack e).
Proof.
  unfold EnvelopedData_pack, packed, k_flow_EnvelopedData_pack.
  change (SFor ["ri"] _ _) with ris_for. remember ris_for as FOR eqn:HF.
  cbn. step.
  destruct (a_int (ed_version e) None) as [nv|er]; cbn; [|reflexivity]. step.
  match goal with |- context [exec MW fuel ?E FOR] =>
    pose proof (for_exec fuel E e (Some set_tag) [] eq_refl eq_refl) as HFOR end.
  rewrite <- HF in HFOR.
  destruct (map_res KEKRecipientInfo_pack (ed_recipient_infos e)) as [ns|er]; cbn [bind].
  2:{ rewrite HFOR. reflexivity. }
  destruct HFOR as (env' & E1 & E2 & E3). rewrite E1. cbn [bind app].
  pose proof (E3 "w" eq_refl eq_refl) as Ew. pose proof (E3 "self" eq_refl eq_refl) as Es.
  pose proof (E3 "writer" eq_refl eq_refl) as Ewr. cbn in Ew, Es, Ewr. clear E3 E1.
  repeat (progress (rewrite ?E2, ?Ew, ?Es, ?Ewr); cbn). step.
  destruct (EncryptedContentInfo_pack (ed_eci e)) as [nc|er]; cbn; [|reflexivity].
  repeat (progress (rewrite ?E2, ?Ew, ?Es, ?Ewr); cbn).
  reflexivity.
Qed.

Arguments oid_pd_sid : simpl never.
Arguments c_pd_sid_name : simpl never.

Lemma encode_list_1 x : encode_list [x] = encode x.
Proof. unfold encode_list. destruct (encode x) as [b|e]; cbn [bind]; [|reflexivity]. rewrite app_nil_r. reflexivity. Qed.

(* self is a SIDDescriptor (the only ProtectionDescriptor the library has) *)
Lemma flow_ProtectionDescriptor_pack fuel sid :
  run_mut MW fuel k_flow_ProtectionDescriptor_pack [VO (OSidDesc sid)]
  = let* b := ProtectionDescriptor_pack sid in Ok (VB b, [VO (OSidDesc sid)]).
Proof.
  unfold ProtectionDescriptor_pack, ProtectionDescriptor_tree. cbn. step.
  destruct (a_oid oid_pd_sid) as [o|e]; cbn; [|reflexivity]. step.
  destruct (a_utf8 c_pd_sid_name) as [n|e]; cbn; [|reflexivity]. step.
  destruct (a_utf8 sid) as [v|e]; cbn; [|reflexivity].
  rewrite encode_list_1.
  destruct (encode _) as [b|e]; cbn; reflexivity.
Qed.

Lemma flow_ProtectionDescriptor_parse fuel cls value :
  run_mut MW fuel k_flow_ProtectionDescriptor_parse [cls; VS value] = Ok (VO (OSidDesc value), [cls; VS value]).
Proof. reflexivity. Qed.

Arguments KeyIdentifier_pack : simpl never.
Arguments ProtectionDescriptor_pack : simpl never.
Arguments EnvelopedData_pack : simpl never.
Arguments ContentInfo_pack : simpl never.

Lemma opt_of_bytes p : opt_of as_bytes (vopt_bytes p) = Some p.
Proof. destruct p; reflexivity. Qed.

Lemma flow_DPAPINGBlob_pack fuel b (bie : bool) :
  run_mut MW fuel k_flow_DPAPINGBlob_pack [VO (OBlob b); vb bie]
  = let* x := blob_pack b bie in Ok (VB x, [VO (OBlob b); vb bie]).
Proof.
  unfold blob_pack. cbn.
  destruct (KeyIdentifier_pack (b_key_identifier b)) as [kid|e]; cbn; [|reflexivity].
  destruct (ProtectionDescriptor_pack (b_sid b)) as [pd|e]; cbn; [|reflexivity].
  repeat (progress (rewrite !opt_of_bytes); cbn).
  destruct bie; cbn; step.
  all: unfold blob_enveloped_data; cbn.
  all: destruct (EnvelopedData_pack _) as [edt|e]; cbn; [|reflexivity].
  all: rewrite encode_list_1; destruct (encode edt) as [edb|e]; cbn; [|reflexivity].
  all: step.
  all: destruct (ContentInfo_pack _) as [cit|e]; cbn; [|reflexivity].
  all: rewrite encode_list_1; destruct (encode cit) as [cib|e]; cbn; [|reflexivity].
  all: rewrite ?app_nil_r; reflexivity.
Qed.
