(* C07: BOOLEAN, OCTET STRING, UTF8String, GeneralizedTime, ENUMERATED, SEQUENCE / SET round trips with
   exact consumption, all through the same TLV lemma. *)
From V Require Import Prelude.Base Prelude.PyInt Prelude.PySlice Prelude.PyStr gen.K_asn1 gen.C_asn1 Model.Asn1 Spec.DerSpec.
From V Require Import Proofs.Asn1Lib Proofs.Asn1Hdr Proofs.Asn1Tlv Proofs.Asn1Int.

Lemma validate_pack ty t c rest exp : tag_wf t -> tag_readable t -> len c < P 126 -> expected_of exp ty = t ->
  exists bs, pack_tlv t c = Ok bs /\ validate_tag (bs ++ rest) exp ty None = Ok (c, len bs) /\ advance (bs ++ rest) (len bs) = rest.
Proof.
  intros Ht Hr Hc He. destruct (pack_tlv_der t c Ht Hc) as (ib & lb & E & Hi & Hl).
  exists (ib ++ lb ++ c). split; [exact E|]. rewrite <- !app_assoc. now apply (validate_tag_der t).
Qed.

Definition tag_ok (t : tag) : Prop := tag_wf t /\ tag_readable t.
Lemma universal_ok_tag n k : universal_ok n = true -> tag_ok (universal_tag n k).
Proof. intros H. split; [now apply universal_wf|now apply universal_readable]. Qed.
Lemma opt_tag_ok t d : tag_ok d -> match t with Some x => tag_ok x | None => True end -> tag_ok (opt_tag t d).
Proof. destruct t; cbn; auto. Qed.
Lemma expected_opt t d : expected_of t d = opt_tag t d. Proof. reflexivity. Qed.

Theorem read_octet_string_pack b t rest : match t with Some x => tag_ok x | None => True end -> len b < P 126 ->
  exists bs, pack_octet_string b t = Ok bs /\ read_octet_string (bs ++ rest) t None = Ok (b, rest).
Proof.
  intros Ht Hb. pose proof (opt_tag_ok t (universal_tag c_tag_octet_string false) (universal_ok_tag c_tag_octet_string false eq_refl) Ht) as [Hw Hr].
  destruct (validate_pack (universal_tag c_tag_octet_string false) _ b rest t Hw Hr Hb (expected_opt _ _)) as (bs & E & Hv & Ha).
  exists bs. split; [exact E|]. unfold read_octet_string, read_raw. rewrite Hv. cbn [bind]. rewrite Ha. reflexivity.
Qed.

Theorem read_sequence_pack body t rest : match t with Some x => tag_ok x | None => True end -> len body < P 126 ->
  exists bs, pack_tlv (opt_tag t seq_tag) body = Ok bs /\ read_sequence (bs ++ rest) t None = Ok (body, rest).
Proof.
  intros Ht Hb. pose proof (opt_tag_ok t seq_tag (universal_ok_tag c_tag_sequence true eq_refl) Ht) as [Hw Hr].
  destruct (validate_pack seq_tag _ body rest t Hw Hr Hb (expected_opt _ _)) as (bs & E & Hv & Ha).
  exists bs. split; [exact E|]. unfold read_sequence, read_raw. fold seq_tag. rewrite Hv. cbn [bind]. rewrite Ha. reflexivity.
Qed.
Theorem read_set_pack body t rest : match t with Some x => tag_ok x | None => True end -> len body < P 126 ->
  exists bs, pack_tlv (opt_tag t set_tag) body = Ok bs /\ read_set (bs ++ rest) t None = Ok (body, rest).
Proof.
  intros Ht Hb. pose proof (opt_tag_ok t set_tag (universal_ok_tag c_tag_set true eq_refl) Ht) as [Hw Hr].
  destruct (validate_pack set_tag _ body rest t Hw Hr Hb (expected_opt _ _)) as (bs & E & Hv & Ha).
  exists bs. split; [exact E|]. unfold read_set, read_raw. fold set_tag. rewrite Hv. cbn [bind]. rewrite Ha. reflexivity.
Qed.

Theorem read_boolean_pack v rest :
  exists bs, pack_boolean v None = Ok bs /\ read_boolean (bs ++ rest) None None = Ok (v, rest) /\
             bs = [1; 1; if v then 255 else 0].
Proof.
  set (t := universal_tag c_tag_boolean false). set (c := if v then [255] else [0]).
  assert (Hc : len c < P 126) by (pose proof (P_mono 1 126 ltac:(lia)); rewrite P_1 in *; destruct v; cbn; lia).
  destruct (universal_ok_tag c_tag_boolean false eq_refl) as [Hw Hr].
  destruct (validate_pack t t c rest None Hw Hr Hc eq_refl) as (bs & E & Hv & Ha).
  exists bs. unfold pack_boolean. cbn [opt_tag]. fold t c. split; [exact E|]. split.
  - unfold read_boolean, read_raw. fold t. rewrite Hv. cbn [bind]. rewrite Ha. destruct v; reflexivity.
  - assert (E2 : pack_tlv t c = Ok [1; 1; if v then 255 else 0]) by (destruct v; vm_compute; reflexivity).
    rewrite E in E2. now apply Ok_inj in E2.
Qed.

Theorem read_utf8_pack s c rest : utf8_encode s = Ok c -> len c < P 126 ->
  exists bs, pack_utf8_string s None = Ok bs /\ read_utf8_string (bs ++ rest) None None = Ok (s, rest).
Proof.
  intros Ec Hc. set (t := universal_tag c_tag_utf8 false).
  destruct (universal_ok_tag c_tag_utf8 false eq_refl) as [Hw Hr].
  destruct (validate_pack t t c rest None Hw Hr Hc eq_refl) as (bs & E & Hv & Ha).
  exists bs. unfold pack_utf8_string. rewrite Ec. cbn [bind opt_tag]. split; [exact E|].
  unfold read_utf8_string. fold t. rewrite Hv. cbn [bind]. rewrite (utf8_decode_encode s c Ec). cbn [bind]. rewrite Ha. reflexivity.
Qed.
Theorem read_gentime_pack s c rest : utf8_encode s = Ok c -> len c < P 126 ->
  exists bs, pack_generalized_time s None = Ok bs /\ read_generalized_time (bs ++ rest) None None = Ok (s, rest).
Proof.
  intros Ec Hc. set (t := universal_tag c_tag_gentime false).
  destruct (universal_ok_tag c_tag_gentime false eq_refl) as [Hw Hr].
  destruct (validate_pack t t c rest None Hw Hr Hc eq_refl) as (bs & E & Hv & Ha).
  exists bs. unfold pack_generalized_time. rewrite Ec. cbn [bind opt_tag]. split; [exact E|].
  unfold read_generalized_time. fold t. rewrite Hv. cbn [bind]. rewrite (utf8_decode_encode s c Ec). cbn [bind]. rewrite Ha. reflexivity.
Qed.

(* INTEGER / ENUMERATED under any admissible tag *)
Theorem read_integer_pack_tag z c t rest : pack_int_content z = Ok c -> len c < P 126 ->
  match t with Some x => tag_ok x | None => True end ->
  exists bs, pack_integer z t = Ok bs /\ read_integer (bs ++ rest) t None = Ok (z, rest).
Proof.
  intros Ec Hc Ht. destruct (pack_int_content_der z) as (c' & Ec' & Hder). rewrite Ec in Ec'. apply Ok_inj in Ec'. subst c'.
  pose proof (opt_tag_ok t (universal_tag c_tag_integer false) (universal_ok_tag c_tag_integer false eq_refl) Ht) as [Hw Hr].
  destruct (validate_pack (universal_tag c_tag_integer false) _ c rest t Hw Hr Hc (expected_opt _ _)) as (bs & E & Hv & Ha).
  exists bs. unfold pack_integer. rewrite Ec. cbn [bind]. split; [exact E|].
  unfold read_integer. rewrite Hv. cbn [bind]. destruct Hder as (Hwf & Hne & Hval & _).
  rewrite read_int_content_tc by assumption. cbn [bind]. rewrite Ha, Hval. reflexivity.
Qed.
Theorem read_enumerated_pack z c rest : pack_int_content z = Ok c -> len c < P 126 ->
  exists bs, pack_enumerated z None = Ok bs /\ read_enumerated (bs ++ rest) None None = Ok (z, rest).
Proof.
  intros Ec Hc. unfold pack_enumerated, read_enumerated. cbn [opt_tag].
  apply (read_integer_pack_tag z c (Some (universal_tag c_tag_enumerated false)) rest Ec Hc).
  apply universal_ok_tag. reflexivity.
Qed.
