(* C11: the packers of the model equal the independent table-driven encoder of Spec/GkdiLayout.v. *)
From Coq Require Import String.
From V Require Import Prelude.Base Prelude.PyInt Prelude.PySlice Prelude.PyStr.
From V Require Import gen.C_gkdi Model.Types Model.Crypto Model.KeyId Model.Gkdi Model.GkdiView Spec.GkdiLayout.
From V Require Import Proofs.GkdiLib Proofs.GkdiKeyId Proofs.GkdiEnvelope Proofs.GkdiGetKey Proofs.GkdiStructs.

(* ---- the spec's primitive encodings agree with Python's (Prelude) ---- *)
Lemma utf16_units_cp c : scalar c = true -> utf16_cp c = Ok (utf16_units c).
Proof. intros H. unfold utf16_cp, utf16_units. rewrite H. cbn [negb]. destruct (c <? 65536); reflexivity. Qed.
Lemma utf16z_ok s b : wfstr s = true -> utf16le_encode s = Ok b -> utf16z s = Some (b ++ [0; 0]).
Proof.
  intros Hw Hb. unfold utf16z. change (forallb is_scalar s) with (wfstr s). rewrite Hw. do 2 f_equal.
  revert b Hb Hw. induction s as [|c s IH]; intros b Hb Hw; cbn [utf16le_encode flat_map] in *.
  - now apply Ok_inj in Hb.
  - cbn [wfstr forallb] in Hw. apply andb_true_iff in Hw as [Hc Hs]. rewrite (utf16_units_cp c Hc) in Hb. cbn [bind] in Hb.
    destruct (utf16le_encode s) as [b'|]; [|discriminate]. cbn [bind] in Hb. apply Ok_inj in Hb. subst b.
    f_equal. apply IH; auto.
Qed.
Lemma be_digits_be n : forall z, be_digits n z = be n z.
Proof. induction n as [|n IH]; intros z; [reflexivity|]. cbn [be_digits]. rewrite IH. unfold be. cbn [le rev]. reflexivity. Qed.
Lemma befixed_ok kl v : 0 <= kl -> fitsb kl v = true -> befixed kl v = Some (be (Z.to_nat kl) v).
Proof.
  intros Hk H. unfold befixed, fitsb in *. destruct ((0 <=? kl) && (0 <=? v) && (v <? 256 ^ kl)) eqn:E; [|lia].
  now rewrite be_digits_be.
Qed.
Lemma guid16_ok g : len g = 16 -> guid16 g = Some g.
Proof. intros H. unfold guid16. rewrite H. reflexivity. Qed.

(* ---- KeyIdentifier ---- *)
Theorem KeyIdentifier_layout k : wf_kid k = true ->
  exists b, KeyIdentifier_pack k = Ok b /\ layout KeyIdentifier_table (spec_of_kid k) = Some b.
Proof.
  intros Hwf. destruct (KeyIdentifier_fields_ok k Hwf) as (bd & bf & Ebd & Ebf & Hdl & Hfl & Hfs).
  unfold wf_kid in Hwf. rewrite !andb_true_iff in Hwf.
  destruct Hwf as [[[[[[[[[[Hv Hf] H0] H1] H2] Hr] Hk] Hd] Hfo] _] _].
  assert (Hr16 : len (kid_rkid k) = 16) by lia.
  exists (concat (kid_field_list k bd bf)). split; [unfold KeyIdentifier_pack; rewrite Hfs; reflexivity|].
  unfold layout, KeyIdentifier_table.
  cbn [map enc1 enc2 nth spec_of_kid si_version si_flags si_l0 si_l1 si_l2 si_root_key_id si_key_info si_domain_name si_forest_name].
  rewrite (utf16z_ok _ _ Hd Ebd), (utf16z_ok _ _ Hfo Ebf), (guid16_ok _ Hr16).
  rewrite !u32le_le by (rewrite ?len_utf16z; assumption).
  cbn [all_some]. rewrite !len_utf16z. reflexivity.
Qed.

(* ---- GroupKeyEnvelope ---- *)
Theorem GroupKeyEnvelope_layout e : wf_env e = true ->
  exists b, GroupKeyEnvelope_pack e = Ok b /\ layout GroupKeyEnvelope_table (spec_of_env e) = Some b.
Proof.
  intros Hwf. destruct (GroupKeyEnvelope_fields_ok e Hwf) as (bka & bsa & bd & bf & [Eka Esa Ed Ef Lka Lsa Ld Lf] & Hfs).
  unfold wf_env in Hwf. rewrite !andb_true_iff in Hwf.
  destruct Hwf as [[[[[[[[[[[[[[[[[[[Hv Hf] H0] H1] H2] Hr] Wka] _] Lkp] Wsa] _] Lsp] Hpr] Hpu] Wd] _] Wf] _] Lk1] Lk2].
  assert (Hr16 : len (gke_rkid e) = 16) by lia.
  exists (concat (env_field_list e bka bsa bd bf)). split; [unfold GroupKeyEnvelope_pack; rewrite Hfs; reflexivity|].
  unfold layout, GroupKeyEnvelope_table.
  cbn [map enc1 enc2 nth spec_of_env sv_version sv_flags sv_l0 sv_l1 sv_l2 sv_root_key_id sv_kdf_algorithm sv_kdf_parameters
       sv_secret_algorithm sv_secret_parameters sv_private_key_length sv_public_key_length sv_domain_name sv_forest_name
       sv_l1_key sv_l2_key].
  rewrite (utf16z_ok _ _ Wka Eka), (utf16z_ok _ _ Wsa Esa), (utf16z_ok _ _ Wd Ed), (utf16z_ok _ _ Wf Ef), (guid16_ok _ Hr16).
  rewrite !u32le_le by (rewrite ?len_utf16z; assumption).
  cbn [all_some]. rewrite !len_utf16z. reflexivity.
Qed.

(* ---- KDFParameters ---- *)
Theorem KDFParameters_layout name : wf_kdfp name = true ->
  exists b, KDFParameters_pack name = Ok b /\ layout KDFParameters_table name = Some b.
Proof.
  unfold wf_kdfp. rewrite andb_true_iff. intros [Hw Hl].
  destruct (encode_utf16z_ok _ Hw) as (bn & En & Ez & Ln). rewrite <- Ln in Hl.
  exists (concat [c_KDF_PARAMS_MAGIC0; le 4 (len bn + 2); c_KDF_PARAMS_MAGIC1; bn ++ [0; 0]]). split.
  - unfold KDFParameters_pack. rewrite Ez. cbn [bind]. rewrite len_utf16z.
    rewrite to_bytes_le_ok by (apply u32b_P4, Hl). reflexivity.
  - unfold layout, KDFParameters_table. cbn [map enc1 enc2 nth]. rewrite (utf16z_ok _ _ Hw En).
    rewrite !u32le_le by (rewrite ?len_utf16z; assumption). cbn [all_some]. rewrite !len_utf16z. reflexivity.
Qed.

(* ---- FFCDHParameters ---- *)
Theorem FFCDHParameters_layout p : wf_ffp p = true ->
  exists b, FFCDHParameters_pack p = Ok b /\ layout FFCDHParameters_table (spec_of_ffp p) = Some b.
Proof.
  intros Hwf. exists (concat (ffp_field_list p)). split; [apply FFCDHParameters_pack_ok, Hwf|].
  unfold wf_ffp in Hwf. rewrite !andb_true_iff in Hwf. destruct Hwf as [[[Hk Hl] Hfo] Hg].
  assert (Hk0 : 0 <= ffp_key_length p) by lia.
  assert (Hku : u32b (ffp_key_length p) = true) by (unfold u32b in *; lia).
  unfold layout, FFCDHParameters_table. cbn [map enc1 enc2 nth spec_of_ffp sp_key_length sp_field_order sp_generator].
  rewrite !befixed_ok by assumption. rewrite !u32le_le by assumption. cbn [all_some].
  cbn [concat]. rewrite !len_app, !len_be_z, !len_le by lia.
  change (len [0; 0; 0; 0]) with 4. change (len [68; 72; 80; 77]) with 4. change (len (@nil Z)) with 0.
  replace (4 + (4 + (Z.of_nat 4 + (ffp_key_length p + (ffp_key_length p + 0))))) with (12 + ffp_key_length p + ffp_key_length p) by lia.
  rewrite (u32le_le _ Hl). reflexivity.
Qed.

(* ---- FFCDHKey ---- *)
Theorem FFCDHKey_layout k : wf_ffk k = true ->
  exists b, FFCDHKey_pack k = Ok b /\ layout FFCDHKey_table (spec_of_ffk k) = Some b.
Proof.
  intros Hwf. exists (concat (ffk_field_list k)). split; [apply FFCDHKey_pack_ok, Hwf|].
  unfold wf_ffk in Hwf. rewrite !andb_true_iff in Hwf. destruct Hwf as [[[Hk Hfo] Hg] Hp].
  assert (Hk0 : 0 <= ffk_key_length k) by (unfold u32b in Hk; lia).
  unfold layout, FFCDHKey_table. cbn [map enc1 enc2 nth spec_of_ffk sk_key_length sk_field_order sk_generator sk_public_key].
  rewrite !befixed_ok by assumption. rewrite !u32le_le by assumption. cbn [all_some]. reflexivity.
Qed.

(* ---- ECDHKey ---- *)
Lemma ecdh_magic_curve c kl x y : ecdh_magic {| se_curve := curve_id c; se_key_length := kl; se_x := x; se_y := y |} = Some (curve_magic c).
Proof. destruct c; reflexivity. Qed.
Theorem ECDHKey_layout k : wf_eck k = true ->
  exists b, ECDHKey_pack k = Ok b /\ layout ECDHKey_table (spec_of_eck k) = Some b.
Proof.
  intros Hwf. destruct (curve_of_name (eck_curve_name k)) as [c|] eqn:Ec; [|unfold wf_eck in Hwf; rewrite Ec in Hwf; discriminate].
  exists (concat (eck_field_list c k)). split; [apply ECDHKey_pack_ok; assumption|].
  unfold wf_eck in Hwf. rewrite Ec, !andb_true_iff in Hwf. destruct Hwf as [[[_ Hk] Hx] Hy].
  assert (Hk0 : 0 <= eck_key_length k) by (unfold u32b in Hk; lia).
  unfold layout, ECDHKey_table, spec_of_eck. rewrite Ec. cbn [map enc1 enc2 nth se_key_length se_x se_y].
  rewrite ecdh_magic_curve. rewrite !befixed_ok by assumption. rewrite !u32le_le by assumption. cbn [all_some]. reflexivity.
Qed.
