From V Require Import Prelude.Base Prelude.PySlice gen.K_client gen.C_client Model.Handshake.

(* ---- _process_bind_result: a request is issued only on a context the bind_ack accepted ---- *)
Lemma accepted_ids_sound results : forall requested idx ids d,
  accepted_ids results requested idx = Ok ids -> In d ids ->
  exists i, (i < length results)%nat /\ nth i results 1 = c_ACCEPTANCE /\ index requested (idx + Z.of_nat i) = Ok d.
Proof.
  induction results as [|r rs IH]; intros requested idx ids d H Hin; cbn [accepted_ids] in H.
  - apply Ok_inj in H. subst. contradiction.
  - destruct (k_bind_result_accepted r c_ACCEPTANCE) eqn:Ea.
    + destruct (index requested idx) as [c|] eqn:Ei; [|discriminate]. cbn [bind] in H.
      destruct (accepted_ids rs requested (idx + 1)) as [rest|] eqn:Er; [|discriminate]. cbn [bind] in H.
      apply Ok_inj in H. subst ids. destruct Hin as [<-|Hin].
      * exists 0%nat. cbn [length nth]. split; [lia|]. split.
        -- unfold k_bind_result_accepted in Ea. lia.
        -- rewrite Z.add_0_r. assumption.
      * destruct (IH _ _ _ _ Er Hin) as (i & Hi & Hn & Hx). exists (S i). cbn [length nth]. split; [lia|]. split; [assumption|].
        rewrite <- Hx. f_equal. lia.
    + destruct (IH _ _ _ _ H Hin) as (i & Hi & Hn & Hx). exists (S i). cbn [length nth]. split; [lia|]. split; [assumption|].
      rewrite <- Hx. f_equal. lia.
Qed.

Lemma bind_result_sound requested results desired :
  process_bind_result requested results desired = Ok tt ->
  exists i, (i < length results)%nat /\ nth i results 1 = c_ACCEPTANCE /\ index requested (Z.of_nat i) = Ok desired.
Proof.
  unfold process_bind_result. destruct (accepted_ids results requested 0) as [ids|] eqn:E; [|discriminate]. cbn [bind].
  destruct (existsb (Z.eqb desired) ids) eqn:Ex; [|discriminate]. intros _.
  apply existsb_exists in Ex as (d & Hin & Hd). assert (d = desired) by lia. subst d.
  destruct (accepted_ids_sound _ _ _ _ _ E Hin) as (i & Hi & Hn & Hx). exists i. auto.
Qed.

(* ---- fail closed: anything but the expected acknowledgement ends the exchange with an error ---- *)
Definition expected (r : reply) (e : expect) : bool :=
  match r, e with RBindAck _ _ _, EBindAck | RAlterResp _ _ _, EAlterResp => true | _, _ => false end.

Lemma send_pdu_fail_closed p e s :
  match server s with
  | [] => fst (send_pdu p e s) = Raise EOFError
  | r :: _ => expected r e = false -> fst (send_pdu p e s) = Raise ValueError
  end /\ trace (snd (send_pdu p e s)) = trace s ++ [p].
Proof.
  unfold send_pdu. cbn [snoc_trace server trace]. destruct (server s) as [|r rest] eqn:Es.
  - cbn. auto.
  - split.
    + intros H. destruct r, e; cbn in *; try discriminate; reflexivity.
    + destruct r, e; reflexivity.
Qed.

(* the guards regenerated from the source mean what the handshake description says *)
Lemma guards_meaning :
  (forall c, k_bind_loop_guard c = negb c) /\
  (forall t, k_bind_break t = true <-> t = []) /\
  (forall b, k_alter_flags b c_PFC_SUPPORT_HEADER_SIGN c_PFC_NONE = if b then 4 else 0) /\
  (forall r, k_ack_accepted r c_ACCEPTANCE = true <-> r = 0) /\
  (forall fl, k_ack_clears_sign fl c_PFC_SUPPORT_HEADER_SIGN = true <-> Z.land fl 4 = 0) /\
  (forall r, k_bind_result_accepted r c_ACCEPTANCE = true <-> r = 0).
Proof.
  unfold k_bind_loop_guard, k_bind_break, k_alter_flags, k_ack_accepted, k_ack_clears_sign, k_bind_result_accepted,
    c_PFC_SUPPORT_HEADER_SIGN, c_PFC_NONE, c_ACCEPTANCE.
  split; [reflexivity|]. split.
  { intros t; split; intros H; [destruct t; [reflexivity|discriminate]|subst; reflexivity]. }
  split; [reflexivity|]. split; [intros; lia|]. split; [|intros; lia].
  intros fl. destruct (Z.land fl 4 =? 0) eqn:E; cbn; split; intros; try lia; try discriminate.
Qed.
