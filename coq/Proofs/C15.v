From V Require Import Prelude.Base Prelude.PySlice gen.K_client gen.C_client Model.Handshake.

(* ---- _process_bind_result: a request is issued only on a context the bind_ack accepted ---- *)
Lemma accepted_ids_sound results : forall requested idx ids d,
  accepted_ids results requested idx = Ok ids -> In d ids ->
  exists i, (i < length results)%nat /\ nth i results 1 = c_ACCEPTANCE /\ index requested (idx + Z.of_nat i) = Ok d.
Proof.
  induction results as [|r rs IH]; intros requested idx ids d H Hin; cbn [accepted_ids] in H.
  - apply Ok_inj in H. subst. contradiction.
  - destruct (k_bind_result_accepted r c_ACCEPTANCE) eqn:Ea.
    + destruct (index requested idx) as [c|] eqn:Ei; [|discriminate]. cbn [bind] in H.
      destruct (accepted_ids rs requested (idx + 1)) as [rest|] eqn:Er; [|discriminate]. cbn [bind] in H.
      apply Ok_inj in H. subst ids. destruct Hin as [<-|Hin].
      * exists 0%nat. cbn [length nth]. split; [lia|]. split.
        -- unfold k_bind_result_accepted in Ea. lia.
        -- rewrite Z.add_0_r. assumption.
      * destruct (IH _ _ _ _ Er Hin) as (i & Hi & Hn & Hx). exists (S i). cbn [length nth]. split; [lia|]. split; [assumption|].
        rewrite <- Hx. f_equal. lia.
    + destruct (IH _ _ _ _ H Hin) as (i & Hi & Hn & Hx). exists (S i). cbn [length nth]. split; [lia|]. split; [assumption|].
      rewrite <- Hx. f_equal. lia.
Qed.

Lemma bind_result_sound requested results desired :
  process_bind_result requested results desired = Ok tt ->
  exists i, (i < length results)%nat /\ nth i results 1 = c_ACCEPTANCE /\ index requested (Z.of_nat i) = Ok desired.
Proof.
  unfold process_bind_result. destruct (accepted_ids results requested 0) as [ids|] eqn:E; [|discriminate]. cbn [bind].
  destruct (existsb (Z.eqb desired) ids) eqn:Ex; [|discriminate]. intros _.
  apply existsb_exists in Ex as (d & Hin & Hd). assert (d = desired) by lia. subst d.
  destruct (accepted_ids_sound _ _ _ _ _ E Hin) as (i & Hi & Hn & Hx). exists i. auto.
Qed.

(* ---- fail closed: anything but the expected acknowledgement ends the exchange with an error ---- *)
Definition expected (r : reply) (e : expect) : bool :=
  reply_decodes r && match r, e with RBindAck _ _ _, EBindAck | RAlterResp _ _ _, EAlterResp => true | _, _ => false end.

Ltac exp_true :=
  solve [ unfold expected; cbn [reply_decodes andb];
          match goal with H : forallb result_code_ok _ = true |- _ => rewrite H end; reflexivity ].

Lemma send_pdu_fail_closed p e s :
  match server s with
  | [] => fst (send_pdu p e s) = Raise EOFError
  | r :: _ => expected r e = false -> fst (send_pdu p e s) = Raise ValueError
  end /\ trace (snd (send_pdu p e s)) = trace s ++ [p].
Proof.
  unfold send_pdu. cbn [snoc_trace server trace]. destruct (server s) as [|r rest] eqn:Es.
  - cbn. auto.
  - split.
    + intros H. unfold expected in H. destruct (reply_decodes r); cbn [negb andb] in *; [|reflexivity].
      destruct r, e; cbn in *; try discriminate; reflexivity.
    + destruct (negb (reply_decodes r)); [reflexivity|]. destruct r, e; reflexivity.
Qed.

(* the guards regenerated from the source mean what the handshake description says *)
Lemma guards_meaning :
  (forall c, k_bind_loop_guard c = negb c) /\
  (forall t, k_bind_break t = true <-> t = []) /\
  (forall b, k_alter_flags b c_PFC_SUPPORT_HEADER_SIGN c_PFC_NONE = if b then 4 else 0) /\
  (forall r, k_ack_accepted r c_ACCEPTANCE = true <-> r = 0) /\
  (forall fl, k_ack_clears_sign fl c_PFC_SUPPORT_HEADER_SIGN = true <-> Z.land fl 4 = 0) /\
  (forall r, k_bind_result_accepted r c_ACCEPTANCE = true <-> r = 0).
Proof.
  unfold k_bind_loop_guard, k_bind_break, k_alter_flags, k_ack_accepted, k_ack_clears_sign, k_bind_result_accepted,
    c_PFC_SUPPORT_HEADER_SIGN, c_PFC_NONE, c_ACCEPTANCE.
  split; [reflexivity|]. split.
  { intros t; split; intros H; [destruct t; [reflexivity|discriminate]|subst; reflexivity]. }
  split; [reflexivity|]. split; [intros; lia|]. split; [|intros; lia].
  intros fl. destruct (Z.land fl 4 =? 0) eqn:E; cbn; split; intros; try lia; try discriminate.
Qed.

(* =====================================================================================================
   Whole runs. The loop is first turned (once, through guards_meaning only) into the relation Run, one
   constructor per way an iteration can go; every theorem below is an induction over Run, i.e. over the
   provider's legs and the server script together, with no bound on either.
   ===================================================================================================== *)

Definition has_flag (r : reply) : bool :=
  match r with RBindAck _ fl _ | RAlterResp _ fl _ => negb (Z.land fl 4 =? 0) | _ => false end.
Definition reply_token (r : reply) : option bytes :=
  match r with RBindAck _ _ t | RAlterResp _ _ t => t | _ => None end.
Definition is_alter (p : sent) : Prop := match p with SAlter _ _ _ => True | SBind _ _ _ => False end.
Definition alter_token (p : sent) : bytes := match p with SAlter _ t _ => t | SBind _ _ _ => [] end.
Definition sent_ctxs (p : sent) : list Z := match p with SAlter _ _ c | SBind _ _ c => c end.
Definition sent_flags (p : sent) : Z := match p with SAlter f _ _ | SBind f _ _ => f end.
Definition expect_at (k : nat) : expect := match k with O => EBindAck | S _ => EAlterResp end.
(* what step() is given: the previous token (None before the first ack is the caller's business), then each ack's *)
Definition fed (tk : option bytes) (consumed : list reply) : list (option bytes) :=
  map (fun t => Some (or_empty t)) (tk :: map reply_token consumed).

Definition step_sent (fctx : list Z) (l : leg) (tk : option bytes) (s : st) : st :=
  snoc_trace (snoc_step s (Some (or_empty tk))) (SAlter (if sign s then 4 else 0) (leg_token l) fctx).
Definition acked (fl : Z) (s : st) : st := if Z.land fl 4 =? 0 then set_sign s false else s.

Lemma acked_trace fl s : trace (acked fl s) = trace s.
Proof. unfold acked. destruct (Z.land fl 4 =? 0); reflexivity. Qed.
Lemma acked_steps fl s : steps (acked fl s) = steps s.
Proof. unfold acked. destruct (Z.land fl 4 =? 0); reflexivity. Qed.
Lemma acked_server fl s : server (acked fl s) = server s.
Proof. unfold acked. destruct (Z.land fl 4 =? 0); reflexivity. Qed.
Lemma acked_sign fl s : sign (acked fl s) = sign s && negb (Z.land fl 4 =? 0).
Proof. unfold acked. destruct (Z.land fl 4 =? 0); cbn [sign set_sign negb]; [rewrite andb_false_r|rewrite andb_true_r]; reflexivity. Qed.

Inductive Run (fctx : list Z) : list leg -> bool -> option bytes -> st -> res unit -> st -> Prop :=
| RunComplete legs tk s : Run fctx legs true tk s (Ok tt) s
| RunNoLeg tk s : Run fctx [] false tk s (Raise KeyError) s
| RunBreak l ls tk s : leg_token l = [] ->
    Run fctx (l :: ls) false tk s (Ok tt) (snoc_step s (Some (or_empty tk)))
| RunEOF l ls tk s : leg_token l <> [] -> server s = [] ->
    Run fctx (l :: ls) false tk s (Raise EOFError) (step_sent fctx l tk s)
| RunBad l ls tk s rp rest : leg_token l <> [] -> server s = rp :: rest -> expected rp EAlterResp = false ->
    Run fctx (l :: ls) false tk s (Raise ValueError) (pop_server (step_sent fctx l tk s))
| RunIdx l ls tk s rs fl tk' rest e : leg_token l <> [] -> server s = RAlterResp rs fl tk' :: rest ->
    forallb result_code_ok rs = true -> accepted_contexts fctx rs 0 = Raise e ->
    Run fctx (l :: ls) false tk s (Raise e) (pop_server (step_sent fctx l tk s))
| RunNext l ls tk s rs fl tk' rest acc r s' : leg_token l <> [] -> server s = RAlterResp rs fl tk' :: rest ->
    forallb result_code_ok rs = true -> accepted_contexts fctx rs 0 = Ok acc ->
    Run fctx ls (leg_complete l) tk' (acked fl (pop_server (step_sent fctx l tk s))) r s' ->
    Run fctx (l :: ls) false tk s r s'.

Lemma clears_sign_eq fl : k_ack_clears_sign fl c_PFC_SUPPORT_HEADER_SIGN = (Z.land fl 4 =? 0).
Proof.
  destruct guards_meaning as (_ & _ & _ & _ & Hc & _). specialize (Hc fl).
  destruct (k_ack_clears_sign fl c_PFC_SUPPORT_HEADER_SIGN); lia.
Qed.

Lemma alter_loop_Run fctx : forall legs complete tk s r s',
  alter_loop legs complete tk fctx s = (r, s') -> Run fctx legs complete tk s r s'.
Proof.
  destruct guards_meaning as (Hg & Hb & Hf & _).
  induction legs as [|l ls IH]; intros complete tk s r s' H; cbn [alter_loop] in H; rewrite Hg in H;
    destruct complete; cbn [negb] in H.
  - inversion H; subst; constructor.
  - inversion H; subst; constructor.
  - inversion H; subst; constructor.
  - destruct (k_bind_break (leg_token l)) eqn:Eb.
    + apply Hb in Eb. inversion H; subst. constructor. assumption.
    + assert (Hne : leg_token l <> []). { intros E. apply Hb in E. congruence. }
      rewrite Hf in H. cbn [sign snoc_step] in H.
      change (snoc_trace (snoc_step s (Some (or_empty tk))) (SAlter (if sign s then 4 else 0) (leg_token l) fctx))
        with (step_sent fctx l tk s) in H.
      unfold send_pdu in H.
      fold (step_sent fctx l tk s) in H.
      revert H.
      change (snoc_trace (snoc_step s (Some (or_empty tk))) (SAlter (if sign s then 4 else 0) (leg_token l) fctx))
        with (step_sent fctx l tk s).
      change (server (step_sent fctx l tk s)) with (server s).
      destruct (server s) as [|rp rest] eqn:Es; intros H.
      * inversion H; subst. constructor; assumption.
      * destruct (reply_decodes rp) eqn:Ed; cbn [negb] in H.
        2:{ inversion H; subst. eapply RunBad; [assumption|exact Es|]. unfold expected. rewrite Ed. reflexivity. }
        destruct rp as [rs fl tk'|rs fl tk'| | |];
          try (inversion H; subst; eapply RunBad; [assumption|exact Es|unfold expected; rewrite Ed; reflexivity]).
        cbn [reply_decodes] in Ed.
        unfold process_bind_ack in H. destruct (accepted_contexts fctx rs 0) as [acc|e] eqn:Ea.
        -- rewrite clears_sign_eq in H.
           change (if Z.land fl 4 =? 0 then set_sign (pop_server (step_sent fctx l tk s)) false else pop_server (step_sent fctx l tk s))
             with (acked fl (pop_server (step_sent fctx l tk s))) in H.
           eapply RunNext; [assumption|exact Es|exact Ed|exact Ea|]. apply IH. exact H.
        -- inversion H; subst. eapply RunIdx; [assumption|exact Es|exact Ed|exact Ea].
Qed.

Lemma step_sent_trace fctx l tk s :
  trace (step_sent fctx l tk s) = trace s ++ [SAlter (if sign s then 4 else 0) (leg_token l) fctx].
Proof. reflexivity. Qed.
Lemma step_sent_steps fctx l tk s : steps (step_sent fctx l tk s) = steps s ++ [Some (or_empty tk)].
Proof. reflexivity. Qed.
Lemma step_sent_server fctx l tk s : server (step_sent fctx l tk s) = server s.
Proof. reflexivity. Qed.
Lemma step_sent_sign fctx l tk s : sign (step_sent fctx l tk s) = sign s.
Proof. reflexivity. Qed.
Lemma pop_trace s : trace (pop_server s) = trace s. Proof. reflexivity. Qed.
Lemma pop_steps s : steps (pop_server s) = steps s. Proof. reflexivity. Qed.
Lemma pop_sign s : sign (pop_server s) = sign s. Proof. reflexivity. Qed.
Lemma pop_srv s : server (pop_server s) = tl (server s). Proof. reflexivity. Qed.
Lemma snoc_step_trace s a : trace (snoc_step s a) = trace s. Proof. reflexivity. Qed.
Lemma snoc_step_steps s a : steps (snoc_step s a) = steps s ++ [a]. Proof. reflexivity. Qed.
Lemma snoc_step_server s a : server (snoc_step s a) = server s. Proof. reflexivity. Qed.
Lemma snoc_step_sign s a : sign (snoc_step s a) = sign s. Proof. reflexivity. Qed.
#[local] Hint Rewrite acked_trace acked_steps acked_server acked_sign pop_trace pop_steps pop_sign pop_srv
  step_sent_trace step_sent_steps step_sent_server step_sent_sign
  snoc_step_trace snoc_step_steps snoc_step_server snoc_step_sign : hs.

Ltac out_fin :=
  first [ solve [eauto] | lia | solve [repeat constructor; auto]
        | (let v := fresh in let Hv := fresh in intros [v Hv]; discriminate Hv)
        | (let j := fresh "j" in let p := fresh "p" in let Hn := fresh "Hn" in
           intros [|j] p Hn; cbn [nth_error] in Hn; [|destruct j; discriminate Hn];
           inversion Hn; subst; cbn [firstn forallb sent_flags]; rewrite ?andb_true_r; reflexivity)
        | (let j := fresh "j" in let p := fresh "p" in let Hn := fresh "Hn" in
           intros [|j] p Hn; discriminate Hn)
        | idtac ].

(* ---- what goes out: the PDUs of the loop, their tokens, contexts and flags; which acks were processed ---- *)
Lemma Run_out fctx legs c tk s r s' : Run fctx legs c tk s r s' ->
  exists alters n processed extra,
    trace s' = trace s ++ alters /\ (n <= length legs)%nat /\
    Forall is_alter alters /\
    map alter_token alters = map leg_token (firstn n legs) /\
    Forall (fun t => t <> []) (map alter_token alters) /\
    Forall (fun p => sent_ctxs p = fctx) alters /\
    server s = processed ++ extra ++ server s' /\
    (extra = [] \/ exists rp e, extra = [rp] /\ r = Raise e) /\
    Forall (fun a => expected a EAlterResp = true) processed /\
    (length processed <= length alters <= S (length processed))%nat /\
    ((exists v, r = Ok v) -> length processed = length alters) /\
    sign s' = sign s && forallb has_flag processed /\
    (forall j p, nth_error alters j = Some p ->
       sent_flags p = if sign s && forallb has_flag (firstn j processed) then 4 else 0).
Proof.
  induction 1 as [legs tk s|tk s|l ls tk s Ht|l ls tk s Ht Es|l ls tk s rp rest Ht Es Ex|l ls tk s rs fl tk' rest e Ht Es Hd Ea
                 |l ls tk s rs fl tk' rest acc r s' Ht Es Hd Ea HR IH].
  1-3: exists [], 0%nat, [], []; autorewrite with hs; cbn [firstn map length forallb app];
       rewrite ?app_nil_r, ?andb_true_r; repeat split; out_fin.
  - exists [SAlter (if sign s then 4 else 0) (leg_token l) fctx], 1%nat, [], [].
    autorewrite with hs. rewrite Es. cbn [firstn map length forallb app alter_token].
    rewrite ?andb_true_r. repeat split; out_fin.
  - exists [SAlter (if sign s then 4 else 0) (leg_token l) fctx], 1%nat, [], [rp].
    autorewrite with hs. rewrite Es. cbn [tl firstn map length forallb app alter_token].
    rewrite ?andb_true_r. repeat split; out_fin.
  - exists [SAlter (if sign s then 4 else 0) (leg_token l) fctx], 1%nat, [], [RAlterResp rs fl tk'].
    autorewrite with hs. rewrite Es. cbn [tl firstn map length forallb app alter_token].
    rewrite ?andb_true_r. repeat split; out_fin.
  - destruct IH as (alters & n & processed & extra & Htr & Hn & Hal & Htok & Hne & Hcx & Hsrv & Hex & Hpr & Hlen & Hok & Hsg & Hfl).
    autorewrite with hs in *. rewrite Es in Hsrv. cbn [tl] in Hsrv.
    exists (SAlter (if sign s then 4 else 0) (leg_token l) fctx :: alters), (S n), (RAlterResp rs fl tk' :: processed), extra.
    cbn [firstn map length forallb app alter_token has_flag].
    split. { rewrite Htr, <- app_assoc. reflexivity. }
    split; [lia|]. split; [constructor; [exact I|assumption]|].
    split; [f_equal; assumption|]. split; [constructor; assumption|].
    split; [constructor; [first [reflexivity|exp_true]|assumption]|].
    split; [rewrite Es, Hsrv; reflexivity|]. split; [assumption|].
    split; [constructor; [first [reflexivity|exp_true]|assumption]|]. split; [lia|].
    split; [intros Hv; f_equal; auto|].
    split; [rewrite Hsg, andb_assoc; reflexivity|].
    intros [|j] p Hj; cbn [nth_error firstn forallb] in *.
    + inversion Hj; subst. cbn [sent_flags]. rewrite andb_true_r. reflexivity.
    + rewrite (Hfl _ _ Hj). cbn [has_flag]. rewrite andb_assoc. reflexivity.
Qed.

Ltac nth_nil := match goal with H : nth_error [] ?k = Some _ |- _ => destruct k; discriminate H end.
Ltac nth_one := match goal with H : nth_error [_] ?k = Some _ |- _ =>
  destruct k as [|k]; [cbn [nth_error] in H; inversion H; subst; clear H | destruct k; discriminate H] end.
Ltac exp_false :=
  match goal with
  | Hx : expected _ _ = false, Hd : forallb result_code_ok _ = true |- _ =>
    unfold expected in Hx; cbn [reply_decodes andb] in Hx; rewrite Hd in Hx; discriminate Hx
  end.
Ltac in_fin :=
  first [ lia | solve [eauto] | nth_nil
        | solve [let k := fresh "k" in let rp := fresh "rp" in let Hk := fresh "Hk" in let Hx := fresh "Hx" in
                 intros k rp Hk Hx; nth_one; exp_false]
        | solve [firstorder congruence]
        | solve [let i := fresh "i" in let lg := fresh "lg" in let Hl := fresh "Hl" in let Hl' := fresh "Hl" in
                 intros [|i] lg Hl Hl'; [cbn [nth_error] in Hl; inversion Hl; subst; contradiction | lia]]
        | solve [nth_one; first [contradiction | discriminate | reflexivity | lia | auto]]
        | solve [nth_one; exp_false]
        | idtac ].

(* ---- what comes in: replies consumed, what step() was fed, when the loop stops, how errors end it ---- *)
Lemma Run_in fctx legs c tk s r s' : Run fctx legs c tk s r s' ->
  exists consumed m d,
    server s = consumed ++ server s' /\
    steps s' = steps s ++ firstn m (fed tk consumed) /\
    length (trace s') = (length (trace s) + d)%nat /\
    (m <= length legs)%nat /\ (m <= S (length consumed))%nat /\
    (m = d \/ m = S d) /\
    (m = S d <-> (1 <= m)%nat /\ exists lg, nth_error legs (m - 1) = Some lg /\ leg_token lg = []) /\
    (length consumed = d \/ (S (length consumed) = d /\ r = Raise EOFError /\ server s' = [])) /\
    (forall k rp, nth_error consumed k = Some rp -> expected rp EAlterResp = false ->
        r = Raise ValueError /\ d = S k /\ length consumed = S k) /\
    (forall i lg, (S i < m)%nat -> nth_error legs i = Some lg -> leg_complete lg = false) /\
    ((1 <= m)%nat -> c = false) /\
    (forall i lg, nth_error legs i = Some lg -> leg_token lg = [] -> (d <= i)%nat).
Proof.
  induction 1 as [legs tk s|tk s|l ls tk s Ht|l ls tk s Ht Es|l ls tk s rp rest Ht Es Ex|l ls tk s rs fl tk' rest e Ht Es Hd Ea
                 |l ls tk s rs fl tk' rest acc r s' Ht Es Hd Ea HR IH].
  - exists [], 0%nat, 0%nat. autorewrite with hs. cbn [firstn app length]. rewrite app_nil_r.
    repeat split; in_fin.
  - exists [], 0%nat, 0%nat. autorewrite with hs. cbn [firstn app length]. rewrite app_nil_r.
    repeat split; in_fin.
  - exists [], 1%nat, 0%nat. autorewrite with hs. cbn [firstn app length fed map Nat.sub nth_error]. rewrite ?app_length. cbn [length].
    repeat split; in_fin.
  - exists [], 1%nat, 1%nat. autorewrite with hs. rewrite Es. cbn [firstn app length fed map Nat.sub nth_error]. rewrite ?app_length. cbn [length].
    repeat split; in_fin.
  - exists [rp], 1%nat, 1%nat. autorewrite with hs. rewrite Es. cbn [tl firstn app length fed map Nat.sub nth_error]. rewrite ?app_length. cbn [length].
    repeat split; in_fin.
  - exists [RAlterResp rs fl tk'], 1%nat, 1%nat. autorewrite with hs. rewrite Es. cbn [tl firstn app length fed map Nat.sub nth_error]. rewrite ?app_length. cbn [length].
    repeat split; in_fin.
  - destruct IH as (consumed & m & d & Hsrv & Hst & Htr & Hml & Hmc & Hmd & Hiff & Hcd & Hbad & Hinc & Hc & Hemp).
    autorewrite with hs in *. rewrite Es in Hsrv. cbn [tl] in Hsrv.
    exists (RAlterResp rs fl tk' :: consumed), (S m), (S d).
    split; [rewrite Es, Hsrv; reflexivity|].
    split. { rewrite Hst, <- app_assoc. reflexivity. }
    split. { rewrite Htr, app_length. cbn [length]. lia. }
    cbn [length]. split; [lia|]. split; [lia|]. split; [lia|].
    split.
    { split.
      - intros E. assert (E' : m = S d) by lia. apply Hiff in E' as (H1 & lg & Hl & Hl'). split; [lia|].
        exists lg. split; [|assumption]. destruct m as [|m']; [lia|]. cbn [Nat.sub] in *. rewrite Nat.sub_0_r in *.
        exact Hl.
      - intros (_ & lg & Hl & Hl'). cbn [Nat.sub] in Hl. rewrite Nat.sub_0_r in Hl.
        destruct m as [|m']; cbn [nth_error] in Hl.
        + inversion Hl; subst. contradiction.
        + f_equal. apply Hiff. split; [lia|]. exists lg. cbn [Nat.sub]. rewrite Nat.sub_0_r. auto. }
    split. { destruct Hcd as [E|(E & E1 & E2)]; [left; lia|right; auto]. }
    split. { intros [|k] rp Hk Hx; cbn [nth_error] in Hk.
             - inversion Hk; subst. first [discriminate | exp_false].
             - destruct (Hbad _ _ Hk Hx) as (E1 & E2 & E3). auto. }
    split. { intros [|i] lg Hi Hl; cbn [nth_error] in Hl.
             - inversion Hl; subst. apply Hc. lia.
             - apply (Hinc i); [lia|assumption]. }
    split; [reflexivity|].
    intros [|i] lg Hl Hl'; cbn [nth_error] in Hl.
    + inversion Hl; subst. contradiction.
    + specialize (Hemp _ _ Hl Hl'). lia.
Qed.

(* ---- bind(): the Bind exchange, then the loop ---- *)
Definition bind_st (l : leg) (srv : list reply) (ctxs : list Z) : st :=
  {| trace := [SBind 4 (Some (leg_token l)) ctxs]; steps := [None]; sign := true; server := srv |}.

Inductive BindRun (l : leg) (ls : list leg) (srv : list reply) (ctxs : list Z) : res (list Z) -> st -> Prop :=
| BREOF : srv = [] -> BindRun l ls srv ctxs (Raise EOFError) (bind_st l srv ctxs)
| BRBad rp rest : srv = rp :: rest -> expected rp EBindAck = false ->
    BindRun l ls srv ctxs (Raise ValueError) (pop_server (bind_st l srv ctxs))
| BRIdx rs fl tk rest e : srv = RBindAck rs fl tk :: rest -> forallb result_code_ok rs = true -> accepted_contexts ctxs rs 0 = Raise e ->
    BindRun l ls srv ctxs (Raise e) (pop_server (bind_st l srv ctxs))
| BRLoop rs fl tk rest acc ru s : srv = RBindAck rs fl tk :: rest -> forallb result_code_ok rs = true -> accepted_contexts ctxs rs 0 = Ok acc ->
    Run acc ls (leg_complete l) tk (acked fl (pop_server (bind_st l srv ctxs))) ru s ->
    BindRun l ls srv ctxs (match ru with Ok _ => Ok rs | Raise e => Raise e end) s.

Lemma bind_run_BindRun l ls srv ctxs r s :
  bind_run true (l :: ls) srv ctxs = (r, s) -> BindRun l ls srv ctxs r s.
Proof.
  unfold bind_run. cbn [negb]. unfold send_pdu.
  change (snoc_trace (set_sign (snoc_step (init_st srv) None) true)
            (SBind (Z.lor c_PFC_NONE c_PFC_SUPPORT_HEADER_SIGN) (Some (leg_token l)) ctxs))
    with (bind_st l srv ctxs).
  change (server (bind_st l srv ctxs)) with srv.
  destruct srv as [|rp rest] eqn:Es; intros H.
  - inversion H; subst. constructor. reflexivity.
  - destruct (reply_decodes rp) eqn:Ed; cbn [negb] in H.
    2:{ inversion H; subst. eapply BRBad; [reflexivity|]. unfold expected. rewrite Ed. reflexivity. }
    destruct rp as [rs fl tk|rs fl tk| | |];
      try (inversion H; subst; eapply BRBad; [reflexivity|unfold expected; rewrite Ed; reflexivity]).
    cbn [reply_decodes] in Ed.
    unfold process_bind_ack in H. destruct (accepted_contexts ctxs rs 0) as [acc|e] eqn:Ea.
    + rewrite clears_sign_eq in H.
      change (if Z.land fl 4 =? 0 then set_sign (pop_server (bind_st l (RBindAck rs fl tk :: rest) ctxs)) false
              else pop_server (bind_st l (RBindAck rs fl tk :: rest) ctxs))
        with (acked fl (pop_server (bind_st l (RBindAck rs fl tk :: rest) ctxs))) in H.
      destruct (alter_loop ls (leg_complete l) tk acc (acked fl (pop_server (bind_st l (RBindAck rs fl tk :: rest) ctxs))))
        as [ru s5] eqn:El.
      apply alter_loop_Run in El.
      assert (E : r = match ru with Ok _ => Ok rs | Raise e => Raise e end /\ s = s5).
      { destruct ru; inversion H; subst; auto. }
      destruct E as [-> ->]. eapply BRLoop; [reflexivity|exact Ed|exact Ea|exact El].
    + inversion H; subst. eapply BRIdx; [reflexivity|exact Ed|exact Ea].
Qed.

Lemma bind_st_loop_trace l srv ctxs fl : trace (acked fl (pop_server (bind_st l srv ctxs))) = [SBind 4 (Some (leg_token l)) ctxs].
Proof. rewrite acked_trace. reflexivity. Qed.
Lemma bind_st_loop_steps l srv ctxs fl : steps (acked fl (pop_server (bind_st l srv ctxs))) = [None].
Proof. rewrite acked_steps. reflexivity. Qed.
Lemma bind_st_loop_server l srv ctxs fl : server (acked fl (pop_server (bind_st l srv ctxs))) = tl srv.
Proof. rewrite acked_server. reflexivity. Qed.
Lemma bind_st_loop_sign l srv ctxs fl : sign (acked fl (pop_server (bind_st l srv ctxs))) = negb (Z.land fl 4 =? 0).
Proof. rewrite acked_sign. reflexivity. Qed.

(* 1. tokens out *)
Theorem tokens_out l ls srv ctxs r s : bind_run true (l :: ls) srv ctxs = (r, s) ->
  exists alters n,
    trace s = SBind 4 (Some (leg_token l)) ctxs :: alters /\ (n <= length ls)%nat /\
    Forall is_alter alters /\
    map alter_token alters = map leg_token (firstn n ls) /\
    Forall (fun t => t <> []) (map alter_token alters) /\
    (alters = [] \/
     exists rs fl tk rest acc, srv = RBindAck rs fl tk :: rest /\ accepted_contexts ctxs rs 0 = Ok acc /\
       Forall (fun p => sent_ctxs p = acc) alters).
Proof.
  intros H. apply bind_run_BindRun in H.
  destruct H as [Es|rp rest Es Ex|rs fl tk rest e Es Hd Ea|rs fl tk rest acc ru s Es Hd Ea HR].
  1-3: exists [], 0%nat; cbn [firstn map]; repeat split; auto; lia.
  apply Run_out in HR as (alters & n & processed & extra & Htr & Hn & Hal & Htok & Hne & Hcx & _).
  rewrite bind_st_loop_trace in Htr. exists alters, n. repeat split; auto.
  right. exists rs, fl, tk, rest, acc. auto.
Qed.

(* 2. tokens in *)
Definition fed_all (consumed : list reply) : list (option bytes) :=
  None :: map (fun a => Some (or_empty (reply_token a))) consumed.

Theorem tokens_in l ls srv ctxs r s : bind_run true (l :: ls) srv ctxs = (r, s) ->
  exists consumed, srv = consumed ++ server s /\
    steps s = firstn (length (steps s)) (fed_all consumed) /\
    (length (steps s) <= S (length consumed))%nat /\
    (length (steps s) = length (trace s) \/ length (steps s) = S (length (trace s))) /\
    (length (steps s) = S (length (trace s)) <->
       (2 <= length (steps s))%nat /\
       exists lg, nth_error (l :: ls) (length (steps s) - 1) = Some lg /\ leg_token lg = []) /\
    (length consumed = length (trace s) \/
     (S (length consumed) = length (trace s) /\ r = Raise EOFError /\ server s = [])).
Proof.
  intros H. apply bind_run_BindRun in H.
  destruct H as [Es|rp rest Es Ex|rs fl tk rest e Es Hd Ea|rs fl tk rest acc ru s Es Hd Ea HR].
  - exists []. subst srv. cbn. repeat split; auto; try lia; try (intros (? & _); lia).
  - exists [rp]. subst srv. cbn. repeat split; auto; try lia; try (intros (? & _); lia).
  - exists [RBindAck rs fl tk]. subst srv. cbn. repeat split; auto; try lia; try (intros (? & _); lia).
  - apply Run_in in HR as (consumed & m & d & Hsrv & Hst & Htr & Hml & Hmc & Hmd & Hiff & Hcd & _).
    rewrite bind_st_loop_server in Hsrv. rewrite bind_st_loop_steps in Hst. rewrite bind_st_loop_trace in Htr.
    subst srv. cbn [tl length] in *.
    assert (Hfed : fed_all (RBindAck rs fl tk :: consumed) = None :: fed tk consumed).
    { unfold fed_all, fed. cbn [map reply_token]. rewrite map_map. reflexivity. }
    assert (Hlen : length (steps s) = S m).
    { rewrite Hst. cbn [app length]. rewrite firstn_length_le; [reflexivity|].
      unfold fed. cbn [map length]. rewrite !map_length. lia. }
    exists (RBindAck rs fl tk :: consumed). rewrite Hlen, Htr, Hfed. cbn [length firstn Nat.sub].
    split; [rewrite Hsrv; reflexivity|]. split; [exact Hst|]. split; [lia|]. split; [lia|].
    split.
    + rewrite Nat.sub_0_r. split.
      * intros E. assert (E' : m = S d) by lia. apply Hiff in E' as (H1 & lg & Hl & Hl'). split; [lia|].
        exists lg. destruct m as [|m']; [lia|]. cbn [Nat.sub nth_error] in *. rewrite Nat.sub_0_r in Hl. auto.
      * intros (H2 & lg & Hl & Hl'). destruct m as [|m']; [lia|]. cbn [nth_error] in Hl.
        assert (E : S m' = S d); [|lia]. apply Hiff. split; [lia|]. exists lg. cbn [Nat.sub]. rewrite Nat.sub_0_r. auto.
    + destruct Hcd as [E|(E & E1 & E2)]; [left; lia|right]. subst ru. auto.
Qed.

(* 3. stops *)
Theorem stops l ls srv ctxs r s : bind_run true (l :: ls) srv ctxs = (r, s) ->
  (length (steps s) <= length (l :: ls))%nat /\
  (forall i lg, (S i < length (steps s))%nat -> nth_error (l :: ls) i = Some lg -> leg_complete lg = false) /\
  (forall i lg, nth_error (l :: ls) i = Some lg -> leg_complete lg = true -> (length (steps s) <= S i)%nat) /\
  (forall i lg, (1 <= i)%nat -> nth_error (l :: ls) i = Some lg -> leg_token lg = [] -> (length (trace s) <= i)%nat).
Proof.
  intros H. apply bind_run_BindRun in H.
  assert (G : (length (steps s) <= length (l :: ls))%nat /\
    (forall i lg, (S i < length (steps s))%nat -> nth_error (l :: ls) i = Some lg -> leg_complete lg = false) /\
    (forall i lg, (1 <= i)%nat -> nth_error (l :: ls) i = Some lg -> leg_token lg = [] -> (length (trace s) <= i)%nat)).
  { destruct H as [Es|rp rest Es Ex|rs fl tk rest e Es Hd Ea|rs fl tk rest acc ru s Es Hd Ea HR].
    1-3: cbn; repeat split; intros; lia.
    apply Run_in in HR as (consumed & m & d & Hsrv & Hst & Htr & Hml & Hmc & Hmd & Hiff & Hcd & Hbad & Hinc & Hc & Hemp).
    rewrite bind_st_loop_steps in Hst. rewrite bind_st_loop_trace in Htr. cbn [length] in *.
    assert (Hlen : length (steps s) = S m).
    { rewrite Hst. cbn [app length]. rewrite firstn_length_le; [reflexivity|].
      unfold fed. cbn [map length]. rewrite !map_length. lia. }
    rewrite Hlen, Htr. split; [lia|]. split.
    - intros [|i] lg Hi Hl; cbn [nth_error] in Hl.
      + inversion Hl; subst. apply Hc. lia.
      + apply (Hinc i); [lia|assumption].
    - intros [|i] lg Hi Hl Hl'; [lia|]. cbn [nth_error] in Hl. specialize (Hemp _ _ Hl Hl'). lia. }
  destruct G as (G1 & G2 & G3). split; [assumption|]. split; [assumption|]. split; [|assumption].
  intros i lg Hl Hc. destruct (Nat.le_gt_cases (length (steps s)) (S i)) as [|Hgt]; [assumption|].
  rewrite (G2 i lg Hgt Hl) in Hc. discriminate.
Qed.

(* 4. header signing *)
Theorem header_sign l ls srv ctxs r s : bind_run true (l :: ls) srv ctxs = (r, s) ->
  exists processed extra,
    srv = processed ++ extra ++ server s /\
    (extra = [] \/ exists rp e, extra = [rp] /\ r = Raise e) /\
    (forall k a, nth_error processed k = Some a -> expected a (expect_at k) = true) /\
    (length processed <= length (trace s) <= S (length processed))%nat /\
    ((exists v, r = Ok v) -> length processed = length (trace s)) /\
    sign s = forallb has_flag processed /\
    (exists tk, nth_error (trace s) 0 = Some (SBind 4 tk ctxs)) /\
    (forall j p, nth_error (trace s) j = Some p ->
       sent_flags p = if forallb has_flag (firstn j processed) then 4 else 0).
Proof.
  intros H. apply bind_run_BindRun in H.
  destruct H as [Es|rp rest Es Ex|rs fl tk rest e Es Hd Ea|rs fl tk rest acc ru s Es Hd Ea HR].
  - exists [], []. subst srv. cbn. repeat split; eauto; try (intros; nth_nil); try (intros [? ?]; discriminate); try (intros; nth_one; reflexivity).
  - exists [], [rp]. subst srv. cbn. repeat split; eauto; try (intros; nth_nil); try (intros [? ?]; discriminate); try (intros; nth_one; reflexivity).
  - exists [], [RBindAck rs fl tk]. subst srv. cbn. repeat split; eauto; try (intros; nth_nil); try (intros [? ?]; discriminate); try (intros; nth_one; reflexivity).
  - apply Run_out in HR as (alters & n & processed & extra & Htr & Hn & Hal & Htok & Hne & Hcx & Hsrv & Hex & Hpr & Hlen & Hok & Hsg & Hfl).
    rewrite bind_st_loop_trace in Htr. rewrite bind_st_loop_server in Hsrv. rewrite bind_st_loop_sign in Hsg, Hfl.
    subst srv. cbn [tl] in Hsrv.
    exists (RBindAck rs fl tk :: processed), extra. rewrite Htr. cbn [app length forallb has_flag nth_error].
    split; [rewrite Hsrv; reflexivity|].
    split. { destruct Hex as [->|(rp & e & -> & ->)]; [left; reflexivity|right; eauto]. }
    split. { intros [|k] a Hk; cbn [nth_error] in Hk.
             - inversion Hk; subst. first [reflexivity | exp_true].
             - cbn [expect_at]. rewrite Forall_forall in Hpr. apply Hpr. eapply nth_error_In; eassumption. }
    split; [lia|].
    split. { intros [v Hv]. f_equal. apply Hok. destruct ru as [[]|]; [eauto|discriminate]. }
    split; [exact Hsg|]. split; [eauto|].
    intros [|j] p Hj; cbn [nth_error firstn forallb] in *.
    + inversion Hj; subst. reflexivity.
    + rewrite (Hfl _ _ Hj). reflexivity.
Qed.

(* 5. fail closed *)
Theorem fail_closed l ls srv ctxs r s consumed :
  bind_run true (l :: ls) srv ctxs = (r, s) -> srv = consumed ++ server s ->
  (length consumed <= length (trace s))%nat /\
  (forall k rp, nth_error consumed k = Some rp -> expected rp (expect_at k) = false ->
     r = Raise ValueError /\ length (trace s) = S k /\ length consumed = S k) /\
  ((length consumed < length (trace s))%nat ->
     r = Raise EOFError /\ server s = [] /\ length (trace s) = S (length consumed)).
Proof.
  intros H Hc. apply bind_run_BindRun in H.
  destruct H as [Es|rp rest Es Ex|rs fl tk rest e Es Hd Ea|rs fl tk rest acc ru s Es Hd Ea HR].
  - subst srv. cbn in Hc. destruct consumed; [|discriminate]. cbn. repeat split; auto; try nth_nil.
  - cbn [server pop_server bind_st] in Hc. subst srv. cbn [tl] in Hc.
    change (rp :: rest) with ([rp] ++ rest) in Hc. apply app_inv_tail in Hc. subst consumed. cbn.
    repeat split; auto; try lia; nth_one; reflexivity.
  - cbn [server pop_server bind_st] in Hc. subst srv. cbn [tl] in Hc.
    change (RBindAck rs fl tk :: rest) with ([RBindAck rs fl tk] ++ rest) in Hc. apply app_inv_tail in Hc. subst consumed. cbn.
    repeat split; auto; try lia; nth_one; try reflexivity; first [discriminate | exp_false].
  - apply Run_in in HR as (consumed' & m & d & Hsrv & Hst & Htr & Hml & Hmc & Hmd & Hiff & Hcd & Hbad & _).
    rewrite bind_st_loop_server in Hsrv. rewrite bind_st_loop_trace in Htr. subst srv. cbn [tl length] in *.
    rewrite Hsrv in Hc. change (RBindAck rs fl tk :: consumed' ++ server s) with ((RBindAck rs fl tk :: consumed') ++ server s) in Hc.
    apply app_inv_tail in Hc. subst consumed. rewrite Htr. cbn [length].
    split; [lia|]. split.
    + intros [|k] rp Hk Hx; cbn [nth_error expect_at] in *.
      * inversion Hk; subst. first [discriminate | exp_false].
      * destruct (Hbad _ _ Hk Hx) as (-> & E2 & E3). auto with arith.
    + intros Hlt. destruct Hcd as [E|(E & -> & E2)]; [lia|]. auto with arith.
Qed.

(* 6. anonymous bind *)
Theorem anonymous legs srv ctxs r s : bind_run false legs srv ctxs = (r, s) ->
  trace s = [SBind 0 None ctxs] /\ steps s = [] /\ sign s = false /\
  match srv with
  | [] => r = Raise EOFError /\ server s = []
  | RBindAck rs _ _ :: rest => r = (if forallb result_code_ok rs then Ok rs else Raise ValueError) /\ server s = rest
  | _ :: rest => r = Raise ValueError /\ server s = rest
  end.
Proof.
  unfold bind_run. cbn [negb]. unfold send_pdu. cbn [init_st snoc_trace server trace steps sign pop_server app tl].
  change c_PFC_NONE with 0.
  destruct srv as [|[rs fl tk|rs fl tk| | |] rest]; cbn [reply_decodes negb];
    try (destruct (forallb result_code_ok rs)); cbn [negb]; intros H; inversion H; subst; cbn; auto.
Qed.

(* the result of a successful bind is the bind_ack's result vector; errors are of four kinds only *)
Theorem result_is_bind_ack l ls srv ctxs r s : bind_run true (l :: ls) srv ctxs = (r, s) ->
  forall v, r = Ok v -> exists fl tk rest, srv = RBindAck v fl tk :: rest.
Proof.
  intros H v Hv. apply bind_run_BindRun in H.
  destruct H as [Es|rp rest Es Ex|rs fl tk rest e Es Hd Ea|rs fl tk rest acc ru s Es Hd Ea HR]; try discriminate.
  destruct ru; [|discriminate]. inversion Hv; subst. eauto.
Qed.

(* ---- the only ways a bind can fail ---- *)
Lemma index_err {A} (l : list A) i e : index l i = Raise e -> e = IndexError.
Proof.
  unfold index. destruct ((0 <=? (if i <? 0 then len l + i else i)) && ((if i <? 0 then len l + i else i) <? len l)).
  - destruct (nth_error l (Z.to_nat (if i <? 0 then len l + i else i))); congruence.
  - congruence.
Qed.

Lemma accepted_contexts_err ctxs : forall results idx e, accepted_contexts ctxs results idx = Raise e -> e = IndexError.
Proof.
  induction ctxs as [|c cs IH]; intros results idx e H; cbn [accepted_contexts] in H; [discriminate|].
  destruct (index results idx) as [x|e1] eqn:Ei; cbn [bind] in H.
  - destruct (accepted_contexts cs results (idx + 1)) as [rest|e2] eqn:Er; cbn [bind] in H; [discriminate|].
    inversion H; subst. eapply IH; eassumption.
  - inversion H; subst. eapply index_err; eassumption.
Qed.

Definition reply_results (r : reply) : list Z :=
  match r with RBindAck rs _ _ | RAlterResp rs _ _ => rs | _ => [] end.

Lemma Run_err fctx legs c tk s r s' : Run fctx legs c tk s r s' -> forall e, r = Raise e ->
  exists consumed, server s = consumed ++ server s' /\
    ((e = EOFError /\ server s' = []) \/
     (e = ValueError /\ exists c0 rp, consumed = c0 ++ [rp] /\ expected rp EAlterResp = false) \/
     (e = IndexError /\ exists c0 a, consumed = c0 ++ [a] /\ expected a EAlterResp = true /\
        accepted_contexts fctx (reply_results a) 0 = Raise IndexError) \/
     (e = KeyError /\ c = false /\ Forall (fun lg => leg_complete lg = false /\ leg_token lg <> []) legs)).
Proof.
  induction 1 as [legs tk s|tk s|l ls tk s Ht|l ls tk s Ht Es|l ls tk s rp rest Ht Es Ex|l ls tk s rs fl tk' rest e0 Ht Es Hd Ea
                 |l ls tk s rs fl tk' rest acc r s' Ht Es Hd Ea HR IH]; intros e He; try discriminate.
  - inversion He; subst. exists []. split; [reflexivity|]. right. right. right. auto.
  - inversion He; subst. exists []. autorewrite with hs. split; [reflexivity|]. left. auto.
  - inversion He; subst. exists [rp]. autorewrite with hs. rewrite Es. split; [reflexivity|]. right. left.
    split; [reflexivity|]. exists [], rp. auto.
  - inversion He; subst. pose proof (accepted_contexts_err _ _ _ _ Ea) as ->.
    exists [RAlterResp rs fl tk']. autorewrite with hs. rewrite Es. split; [reflexivity|]. right. right. left.
    split; [reflexivity|]. exists [], (RAlterResp rs fl tk'). split; [reflexivity|split; [exp_true|auto]].
  - destruct (IH e He) as (consumed & Hsrv & Hcase). autorewrite with hs in Hsrv. rewrite Es in Hsrv. cbn [tl] in Hsrv.
    exists (RAlterResp rs fl tk' :: consumed). split; [rewrite Es, Hsrv; reflexivity|].
    destruct Hcase as [H1|[(H1 & c0 & rp & -> & H2)|[(H1 & c0 & a & -> & H2 & H3)|(H1 & H2 & H3)]]].
    + left. assumption.
    + right. left. split; [assumption|]. exists (RAlterResp rs fl tk' :: c0), rp. auto.
    + right. right. left. split; [assumption|]. exists (RAlterResp rs fl tk' :: c0), a. auto.
    + right. right. right. split; [assumption|]. split; [reflexivity|]. constructor; auto.
Qed.

Theorem error_causes l ls srv ctxs e s : bind_run true (l :: ls) srv ctxs = (Raise e, s) ->
  exists consumed, srv = consumed ++ server s /\
    ((e = EOFError /\ server s = []) \/
     (e = ValueError /\ exists c0 rp, consumed = c0 ++ [rp] /\ expected rp (expect_at (length c0)) = false) \/
     (e = IndexError /\ exists c0 a cx, consumed = c0 ++ [a] /\ expected a (expect_at (length c0)) = true /\
        accepted_contexts cx (reply_results a) 0 = Raise IndexError) \/
     (e = KeyError /\ Forall (fun lg => leg_complete lg = false) (l :: ls) /\ Forall (fun lg => leg_token lg <> []) ls)).
Proof.
  intros H. apply bind_run_BindRun in H. remember (Raise e) as r eqn:Hr.
  destruct H as [Es|rp rest Es Ex|rs fl tk rest e0 Es Hd Ea|rs fl tk rest acc ru s Es Hd Ea HR].
  - inversion Hr; subst. exists []. split; [reflexivity|]. left. auto.
  - inversion Hr; subst. exists [rp]. split; [reflexivity|]. right. left. split; [reflexivity|]. exists [], rp. auto.
  - inversion Hr; subst. pose proof (accepted_contexts_err _ _ _ _ Ea) as ->.
    exists [RBindAck rs fl tk]. split; [reflexivity|]. right. right. left. split; [reflexivity|].
    exists [], (RBindAck rs fl tk), ctxs. split; [reflexivity|split; [exp_true|auto]].
  - destruct ru as [u|e1]; [discriminate|]. inversion Hr; subst e1.
    destruct (Run_err _ _ _ _ _ _ _ HR e eq_refl) as (consumed & Hsrv & Hcase).
    rewrite bind_st_loop_server in Hsrv. subst srv. cbn [tl] in Hsrv.
    exists (RBindAck rs fl tk :: consumed). split; [rewrite Hsrv; reflexivity|].
    destruct Hcase as [H1|[(H1 & c0 & rp & -> & H2)|[(H1 & c0 & a & -> & H2 & H3)|(H1 & H2 & H3)]]].
    + left. assumption.
    + right. left. split; [assumption|]. exists (RBindAck rs fl tk :: c0), rp. auto.
    + right. right. left. split; [assumption|]. exists (RBindAck rs fl tk :: c0), a, acc. auto.
    + right. right. right. split; [assumption|]. split.
      * constructor; [assumption|]. eapply Forall_impl; [|exact H3]. intros ? [? ?]; assumption.
      * eapply Forall_impl; [|exact H3]. intros ? [? ?]; assumption.
Qed.

(* ---- _process_bind_ack selects exactly the contexts whose result is ACCEPTANCE (= 0), in order ---- *)
Lemma index_nat {A} (l : list A) k x : index l (Z.of_nat k) = Ok x -> nth_error l k = Some x.
Proof.
  unfold index. assert (E : (Z.of_nat k <? 0) = false) by lia. rewrite E.
  destruct ((0 <=? Z.of_nat k) && (Z.of_nat k <? len l)); [|discriminate].
  rewrite Nat2Z.id. destruct (nth_error l k); congruence.
Qed.

Lemma skipn_nth_error {A} : forall (l : list A) k x, nth_error l k = Some x -> skipn k l = x :: skipn (S k) l.
Proof.
  induction l as [|a l IH]; intros [|k] x H; cbn [nth_error] in H; try discriminate.
  - inversion H; subst. reflexivity.
  - cbn [skipn]. rewrite (IH _ _ H). reflexivity.
Qed.

Definition accepted_of (ctxs results : list Z) : list Z :=
  map fst (filter (fun cr => snd cr =? 0) (combine ctxs results)).

Lemma accepted_contexts_skipn : forall ctxs results k acc,
  accepted_contexts ctxs results (Z.of_nat k) = Ok acc ->
  (length ctxs <= length (skipn k results))%nat /\ acc = accepted_of ctxs (skipn k results).
Proof.
  destruct guards_meaning as (_ & _ & _ & Ha & _).
  induction ctxs as [|c cs IH]; intros results k acc H; cbn [accepted_contexts] in H.
  - apply Ok_inj in H. subst. cbn. split; [lia|reflexivity].
  - destruct (index results (Z.of_nat k)) as [x|] eqn:Ei; [|discriminate]. cbn [bind] in H.
    replace (Z.of_nat k + 1) with (Z.of_nat (S k)) in H by lia.
    destruct (accepted_contexts cs results (Z.of_nat (S k))) as [rest|] eqn:Er; [|discriminate]. cbn [bind] in H.
    apply Ok_inj in H. apply index_nat in Ei. rewrite (skipn_nth_error _ _ _ Ei).
    destruct (IH _ _ _ Er) as (Hl & ->). split; [cbn [length]; lia|].
    unfold accepted_of. cbn [combine filter snd]. subst acc.
    destruct (k_ack_accepted x c_ACCEPTANCE) eqn:Ek.
    + apply Ha in Ek. subst x. reflexivity.
    + destruct (x =? 0) eqn:Ex; [|reflexivity]. assert (x = 0) by lia. apply Ha in H. congruence.
Qed.

Theorem accepted_contexts_exact ctxs results acc :
  accepted_contexts ctxs results 0 = Ok acc ->
  (length ctxs <= length results)%nat /\ acc = accepted_of ctxs results.
Proof. intros H. apply (accepted_contexts_skipn ctxs results 0%nat acc H). Qed.
