(* area client: model units for the RPC client shell (receive loops, handshake, framing). *)
From Coq Require Import String.
From V Require Import Prelude.Base Prelude.Val Model.Recv.

Fixpoint zs_of_vals (l : list val) : option (list Z) :=
  match l with
  | [] => Some []
  | VI z :: r => match zs_of_vals r with Some m => Some (z :: m) | None => None end
  | _ => None
  end.

(* [stream; schedule] -> [pdu bytes | error; number of recv calls; bytes left in the stream] *)
Definition u_recv_sync (a : val) : val :=
  match a with
  | VL [VB s; VL sch] =>
    match zs_of_vals sch with
    | Some sc =>
      match sync_recv_pdu {| stream := s; sched := sc |} with
      | (Ok (pdu, t), r) => VL [VB pdu; VI (Z.of_nat r); VI (len (stream t))]
      | (Raise e, r) => VL [VE e; VI (Z.of_nat r); VI (-1)]
      end
    | None => bad
    end
  | _ => bad
  end.
Definition u_recv_async (a : val) : val :=
  match a with
  | VL [VB s; VL _] =>
    match async_recv_pdu s with
    | Ok (pdu, rest) => VL [VB pdu; VI (len rest)]
    | Raise e => VL [VE e; VI (-1)]
    end
  | _ => bad
  end.

Open Scope string_scope.
Definition units : list (string * (val -> val)) :=
  [ ("recv.sync", u_recv_sync); ("recv.async", u_recv_async) ].

Fixpoint lookup (n : string) (l : list (string * (val -> val))) : option (val -> val) :=
  match l with
  | [] => None
  | (k, f) :: r => if String.eqb n k then Some f else lookup n r
  end.
Definition run (name : string) (arg : val) : val :=
  match lookup name units with Some f => f arg | None => VE KeyError end.
