(* area client: model units for the RPC client shell (receive loops, handshake, framing). *)
From Coq Require Import String.
From V Require Import Prelude.Base Prelude.Val Model.Recv Model.Handshake gen.C_client.
From V Require Import Model.Pdu Model.Request Model.Framing Model.Toy Model.Seal.

Fixpoint zs_of_vals (l : list val) : option (list Z) :=
  match l with
  | [] => Some []
  | VI z :: r => match zs_of_vals r with Some m => Some (z :: m) | None => None end
  | _ => None
  end.

(* [stream; schedule] -> [pdu bytes | error; number of recv calls; bytes left in the stream] *)
Definition u_recv_sync (a : val) : val :=
  match a with
  | VL [VB s; VL sch] =>
    match zs_of_vals sch with
    | Some sc =>
      match sync_recv_pdu {| stream := s; sched := sc |} with
      | (Ok (pdu, t), r) => VL [VB pdu; VI (Z.of_nat r); VI (len (stream t))]
      | (Raise e, r) => VL [VE e; VI (Z.of_nat r); VI (-1)]
      end
    | None => bad
    end
  | _ => bad
  end.
(* two consecutive exchanges on ONE connection: [stream; schedule] -> [first pdu | error; second pdu | error; octets left] *)
Definition u_recv_sync2 (a : val) : val :=
  match a with
  | VL [VB s; VL sch] =>
    match zs_of_vals sch with
    | Some sc =>
      match sync_recv_pdu {| stream := s; sched := sc |} with
      | (Raise e, _) => VL [VE e; VN; VI (-1)]
      | (Ok (p1, t1), _) =>
        match sync_recv_pdu t1 with
        | (Raise e, _) => VL [VB p1; VE e; VI (-1)]
        | (Ok (p2, t2), _) => VL [VB p1; VB p2; VI (len (stream t2))]
        end
      end
    | None => bad
    end
  | _ => bad
  end.
Definition u_recv_async2 (a : val) : val :=
  match a with
  | VL [VB s; VL _] =>
    match async_recv_pdu s with
    | Raise e => VL [VE e; VN; VI (-1)]
    | Ok (p1, r1) =>
      match async_recv_pdu r1 with
      | Raise e => VL [VB p1; VE e; VI (-1)]
      | Ok (p2, r2) => VL [VB p1; VB p2; VI (len r2)]
      end
    end
  | _ => bad
  end.
Definition u_recv_async (a : val) : val :=
  match a with
  | VL [VB s; VL _] =>
    match async_recv_pdu s with
    | Ok (pdu, rest) => VL [VB pdu; VI (len rest)]
    | Raise e => VL [VE e; VI (-1)]
    end
  | _ => bad
  end.

(* ---- handshake ---- *)
Definition opt_bytes_of_val (v : val) : option (option bytes) :=
  match v with VB b => Some (Some b) | VN => Some None | _ => None end.
Fixpoint legs_of_vals (l : list val) : option (list leg) :=
  match l with
  | [] => Some []
  | VL [VB t; VI c] :: r =>
    match legs_of_vals r with Some m => Some ({| leg_token := t; leg_complete := negb (c =? 0) |} :: m) | None => None end
  | _ => None
  end.
Definition reply_of_val (v : val) : option reply :=
  match v with
  | VL [VI k; VL rs; VI fl; tk] =>
    match zs_of_vals rs, opt_bytes_of_val tk with
    | Some rs', Some tk' =>
      if k =? 0 then Some (RBindAck rs' fl tk') else if k =? 1 then Some (RAlterResp rs' fl tk')
      else if k =? 2 then Some RBindNak else if k =? 3 then Some RFault else if k =? 4 then Some RResponse else None
    | _, _ => None
    end
  | _ => None
  end.
Fixpoint replies_of_vals (l : list val) : option (list reply) :=
  match l with
  | [] => Some []
  | v :: r => match reply_of_val v, replies_of_vals r with Some a, Some m => Some (a :: m) | _, _ => None end
  end.
Definition val_of_sent (p : sent) : val :=
  match p with
  | SBind fl tk cs => VL [VI 0; VI (Z.lor fl c_PFC_FIRST_LAST); vopt VB tk; VL (map VI cs)]
  | SAlter fl tk cs => VL [VI 1; VI (Z.lor fl c_PFC_FIRST_LAST); VB tk; VL (map VI cs)]
  end.
(* [flavour; auth; legs; server; ctxs] -> [result; trace; steps; sign_header; replies left] *)
Definition u_handshake (a : val) : val :=
  match a with
  | VL [VI _flavour; VI auth; VL legs; VL srv; VL cs] =>
    match legs_of_vals legs, replies_of_vals srv, zs_of_vals cs with
    | Some lg, Some sv, Some cx =>
      let '(r, s) := bind_run (negb (auth =? 0)) lg sv cx in
      VL [vres (fun rs => VL (map VI rs)) r; VL (map val_of_sent (trace s)); VL (map (vopt VB) (steps s));
          vbool (sign s); VI (len (server s))]
    | _, _, _ => bad
    end
  | _ => bad
  end.
(* [requested ctx ids; results; desired] *)
Definition u_bind_result (a : val) : val :=
  match a with
  | VL [VL req; VL rs; VI d] =>
    match zs_of_vals req, zs_of_vals rs with
    | Some rq, Some r => vres (fun _ => VN) (process_bind_result rq r d)
    | _, _ => bad
    end
  | _ => bad
  end.

(* ---- framing ---- *)
(* [flavour; auth; sign; sig_len; provider type; seq0; [[ctx; opnum; stub; vt|None] ...]] : consecutive requests on ONE client
   -> per request [wire; [header; body; trailer; sign] | None] or the error *)
Definition one_request (auth sign sig_len ptype seq : Z) (r : val) : val :=
  match r with
  | VL [VI ctx; VI opnum; VB stub; vt] =>
    match opt_bytes_of_val vt with
    | Some vt' =>
      let pv := if auth =? 0 then None else Some {| pv_type := ptype; pv_sig_len := sig_len |} in
      match send_request (toy_wrap seq sig_len) pv (negb (sign =? 0)) ctx opnum stub vt' with
      | Ok (wire, wa) =>
        VL [VB wire; match wa with
                     | Some w => VL [VB (wa_header w); VB (wa_body w); VB (wa_trailer w); vbool (wa_sign w)]
                     | None => VN end]
      | Raise e => VE e
      end
    | None => bad
    end
  | _ => bad
  end.
Fixpoint requests (auth sign sig_len ptype seq : Z) (l : list val) : list val :=
  match l with
  | [] => []
  | r :: rest =>
    let v := one_request auth sign sig_len ptype seq r in
    (* the context's sequence number advances only when wrap was actually called *)
    let seq' := match v with VL [_; VL _] => seq + 1 | _ => seq end in
    v :: requests auth sign sig_len ptype seq' rest
  end.
Definition u_framing (a : val) : val :=
  match a with
  | VL [VI _flavour; VI auth; VI sign; VI sig_len; VI ptype; VI seq; VL rs] => VL (requests auth sign sig_len ptype seq rs)
  | _ => bad
  end.
(* [stub; pad_length|None] -> stripped stub *)
Definition u_strip (a : val) : val :=
  match a with
  | VL [VB stub; VI p] => VB (strip_auth_pad stub (Some p))
  | VL [VB stub; VN] => VB (strip_auth_pad stub None)
  | _ => bad
  end.

(* ---- sealed replies ---- *)
(* [flavour; auth; sign; has_offsets; recv_seq; stream] -> stub of the accepted Response | error *)
Definition u_seal (a : val) : val :=
  match a with
  | VL [VI _flavour; VI auth; VI sign; VI has_offs; VI seq; VB s] =>
    match sync_recv_pdu {| stream := s; sched := [] |} with
    | (Raise e, _) => VE e
    | (Ok (pdu, _), _) =>
      match pdu_header_unpack (firstn 16 pdu) with
      | Raise e => VE e
      | Ok hdr =>
        vres (fun r => VB (rs_stub_data r))
          (process_response (toy_unwrap seq) (negb (auth =? 0)) (if has_offs =? 0 then None else Some (24, 24))
             (negb (sign =? 0)) hdr pdu)
      end
    end
  | _ => bad
  end.

Open Scope string_scope.
Definition units : list (string * (val -> val)) :=
  [ ("recv.sync", u_recv_sync); ("recv.async", u_recv_async); ("recv.sync2", u_recv_sync2); ("recv.async2", u_recv_async2);
    ("handshake", u_handshake); ("bind_result", u_bind_result);
    ("framing", u_framing); ("strip", u_strip); ("seal", u_seal) ].

Fixpoint lookup (n : string) (l : list (string * (val -> val))) : option (val -> val) :=
  match l with
  | [] => None
  | (k, f) :: r => if String.eqb n k then Some f else lookup n r
  end.
Definition run (name : string) (arg : val) : val :=
  match lookup name units with Some f => f arg | None => VE KeyError end.
