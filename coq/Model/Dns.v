(* _dns.py: SRV record selection and query-name construction. The sort key, the f-strings,
   the rstrip argument and the resolve arguments are regenerated kernels. *)
From V Require Import Prelude.Base gen.Kernels Model.Types.

Record srv := { srv_target : pystr; srv_port : Z; srv_weight : Z; srv_priority : Z }.

(* str.rstrip(chars): drop the longest suffix made of characters in chars *)
Definition in_chars (chars : pystr) (c : Z) : bool := existsb (Z.eqb c) chars.
Fixpoint lstrip (chars s : pystr) : pystr :=
  match s with [] => [] | c :: r => if in_chars chars c then lstrip chars r else s end.
Definition rstrip (chars s : pystr) : pystr := rev (lstrip chars (rev s)).

Definition conv (a : srv) : srv :=
  {| srv_target := rstrip k_srv_rstrip_chars (srv_target a); srv_port := srv_port a;
     srv_weight := srv_weight a; srv_priority := srv_priority a |}.

(* sorted(answers, key=...)[0]: the first element of a stable sort is the first minimiser *)
Definition key (a : srv) : Z * Z := k_srv_key (srv_priority a) (srv_weight a).
Definition key_lt (x y : Z * Z) : bool := (fst x <? fst y) || ((fst x =? fst y) && (snd x <? snd y)).
Fixpoint pick_from (best : srv) (l : list srv) : srv :=
  match l with
  | [] => best
  | a :: r => if key_lt (key a) (key best) then pick_from a r else pick_from best r
  end.
Definition get_highest_answer (answers : list srv) : res srv :=
  match map conv answers with
  | [] => Raise IndexError
  | a :: r => Ok (pick_from a r)
  end.

Definition query_name (domain : option pystr) : pystr :=
  match domain with
  | Some d => if k_srv_name_test d then k_srv_name_domain d else k_srv_name_bare
  | None => k_srv_name_bare
  end.
