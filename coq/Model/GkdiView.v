(* Views between the model records (Model/Types.v, Model/Gkdi.v) and the records of the
   independent layout spec (Spec/GkdiLayout.v), and between model values and boundary values.
   Definitions only. *)
From V Require Import Prelude.Base Prelude.Val.
From V Require Import Model.Types Model.Crypto Model.KeyId Model.Gkdi Spec.GkdiLayout.

Definition spec_of_kid (k : key_identifier) : s_key_identifier :=
  {| si_version := kid_version k; si_flags := kid_flags k; si_l0 := kid_l0 k; si_l1 := kid_l1 k; si_l2 := kid_l2 k;
     si_root_key_id := kid_rkid k; si_key_info := kid_key_info k;
     si_domain_name := kid_domain k; si_forest_name := kid_forest k |}.
Definition spec_of_env (e : envelope) : s_envelope :=
  {| sv_version := gke_version e; sv_flags := gke_flags e; sv_l0 := gke_l0 e; sv_l1 := gke_l1 e; sv_l2 := gke_l2 e;
     sv_root_key_id := gke_rkid e; sv_kdf_algorithm := gke_kdf_alg e; sv_kdf_parameters := gke_kdf_params e;
     sv_secret_algorithm := gke_secret_alg e; sv_secret_parameters := gke_secret_params e;
     sv_private_key_length := gke_priv_len e; sv_public_key_length := gke_pub_len e;
     sv_domain_name := gke_domain e; sv_forest_name := gke_forest e;
     sv_l1_key := gke_l1_key e; sv_l2_key := gke_l2_key e |}.
Definition spec_of_ffp (p : ffcdh_params) : s_ffcdh_params :=
  {| sp_key_length := ffp_key_length p; sp_field_order := ffp_field_order p; sp_generator := ffp_generator p |}.
Definition spec_of_ffk (k : ffcdh_key) : s_ffcdh_key :=
  {| sk_key_length := ffk_key_length k; sk_field_order := ffk_field_order k; sk_generator := ffk_generator k;
     sk_public_key := ffk_public_key k |}.
Definition spec_of_eck (k : ecdh_key) : s_ecdh_key :=
  {| se_curve := match curve_of_name (eck_curve_name k) with Some c => curve_id c | None => 0 end;
     se_key_length := eck_key_length k; se_x := eck_x k; se_y := eck_y k |}.

(* boundary values *)
Definition val_of_kid (k : key_identifier) : val :=
  VL [VI (kid_version k); VI (kid_flags k); VI (kid_l0 k); VI (kid_l1 k); VI (kid_l2 k); VB (kid_rkid k);
      VB (kid_key_info k); VS (kid_domain k); VS (kid_forest k)].
Definition kid_of_val (v : val) : option key_identifier :=
  match v with
  | VL [VI a; VI b; VI c; VI d; VI e; VB r; VB ki; VS dn; VS fn] =>
    Some {| kid_version := a; kid_flags := b; kid_l0 := c; kid_l1 := d; kid_l2 := e; kid_rkid := r;
            kid_key_info := ki; kid_domain := dn; kid_forest := fn |}
  | _ => None
  end.
Definition val_of_env (e : envelope) : val :=
  VL [VI (gke_version e); VI (gke_flags e); VI (gke_l0 e); VI (gke_l1 e); VI (gke_l2 e); VB (gke_rkid e);
      VS (gke_kdf_alg e); VB (gke_kdf_params e); VS (gke_secret_alg e); VB (gke_secret_params e);
      VI (gke_priv_len e); VI (gke_pub_len e); VS (gke_domain e); VS (gke_forest e);
      VB (gke_l1_key e); VB (gke_l2_key e)].
Definition env_of_val (v : val) : option envelope :=
  match v with
  | VL [VI a; VI b; VI c; VI d; VI e; VB r; VS ka; VB kp; VS sa; VB sp; VI pr; VI pu; VS dn; VS fn; VB k1; VB k2] =>
    Some {| gke_version := a; gke_flags := b; gke_l0 := c; gke_l1 := d; gke_l2 := e; gke_rkid := r;
            gke_kdf_alg := ka; gke_kdf_params := kp; gke_secret_alg := sa; gke_secret_params := sp;
            gke_priv_len := pr; gke_pub_len := pu; gke_domain := dn; gke_forest := fn;
            gke_l1_key := k1; gke_l2_key := k2 |}
  | _ => None
  end.
Definition val_of_getkey (g : getkey) : val :=
  VL [VB (gk_target_sd g); vopt VB (gk_root_key_id g); VI (gk_l0 g); VI (gk_l1 g); VI (gk_l2 g)].
Definition getkey_of_val (v : val) : option getkey :=
  match v with
  | VL [VB sd; VB rk; VI a; VI b; VI c] =>
    Some {| gk_target_sd := sd; gk_root_key_id := Some rk; gk_l0 := a; gk_l1 := b; gk_l2 := c |}
  | VL [VB sd; VN; VI a; VI b; VI c] =>
    Some {| gk_target_sd := sd; gk_root_key_id := None; gk_l0 := a; gk_l1 := b; gk_l2 := c |}
  | _ => None
  end.
Definition val_of_ffp (p : ffcdh_params) : val := VL [VI (ffp_key_length p); VI (ffp_field_order p); VI (ffp_generator p)].
Definition ffp_of_val (v : val) : option ffcdh_params :=
  match v with
  | VL [VI a; VI b; VI c] => Some {| ffp_key_length := a; ffp_field_order := b; ffp_generator := c |}
  | _ => None end.
Definition val_of_ffk (k : ffcdh_key) : val :=
  VL [VI (ffk_key_length k); VI (ffk_field_order k); VI (ffk_generator k); VI (ffk_public_key k)].
Definition ffk_of_val (v : val) : option ffcdh_key :=
  match v with
  | VL [VI a; VI b; VI c; VI d] => Some {| ffk_key_length := a; ffk_field_order := b; ffk_generator := c; ffk_public_key := d |}
  | _ => None end.
Definition val_of_eck (k : ecdh_key) : val := VL [VS (eck_curve_name k); VI (eck_key_length k); VI (eck_x k); VI (eck_y k)].
Definition eck_of_val (v : val) : option ecdh_key :=
  match v with
  | VL [VS n; VI a; VI b; VI c] => Some {| eck_curve_name := n; eck_key_length := a; eck_x := b; eck_y := c |}
  | _ => None end.
Definition vobytes (o : option bytes) : val := match o with Some b => VB b | None => VN end.
