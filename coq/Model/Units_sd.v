(* area sd (C08): dispatch table of model units for the correspondence check (val -> val). *)
From Coq Require Import String.
From V Require Import Prelude.Base Prelude.Val gen.K_sd Model.Types Model.SecDesc Spec.Dtyp.

Definition u_sid (a : val) : val :=
  match a with VS s => vres VB (sid_to_bytes s) | _ => bad end.
Definition u_target (a : val) : val :=
  match a with VS s => vres VB (get_target_sd s) | _ => bad end.

(* [owner, group, sacl, dacl]; sacl / dacl = None | [[sid, mask], ...]; the caller builds the ACEs first
   (left to right, sacl before dacl), then calls sd_to_bytes *)
Fixpoint aces_of (l : list val) : option (res (list bytes)) :=
  match l with
  | [] => Some (Ok [])
  | VL [VS s; VI m] :: r =>
    match aces_of r with
    | Some rest => Some (let* a := ace_to_bytes s m in let* t := rest in Ok (a :: t))
    | None => None
    end
  | _ => None
  end.
Definition acl_arg (v : val) : option (res (list bytes)) :=
  match v with VN => Some (Ok []) | VL l => aces_of l | _ => None end.
Definition u_sdbytes (a : val) : val :=
  match a with
  | VL [VS owner; VS group; sacl; dacl] =>
    match acl_arg sacl, acl_arg dacl with
    | Some s, Some d => vres VB (let* s := s in let* d := d in sd_to_bytes owner group s d)
    | _, _ => bad
    end
  | _ => bad
  end.

(* the independent MS-DTYP parser of Spec/Dtyp.v *)
Definition v_sid (s : dsid) : val := VL [VI (d_rev s); VI (d_auth s); VL (map VI (d_subs s))].
Definition v_ace (a : dace) : val := VL [VI (a_type a); VI (a_flags a); VI (a_mask a); v_sid (a_sid a)].
Definition v_acl (l : dacl) : val := VL [VI (l_rev l); VL (map v_ace (l_aces l))].
Definition v_sd (d : sd_struct) : val :=
  VL [VI (sd_control d); vopt v_sid (sd_owner d); vopt v_sid (sd_group d);
      vopt v_acl (sd_sacl d); vopt v_acl (sd_dacl d); vbool (sd_gkdi_order d)].
Definition u_parse_sd (a : val) : val :=
  match a with VB b => vopt v_sd (parse_sd b) | _ => bad end.

Open Scope string_scope.
Definition units : list (string * (val -> val)) :=
  [ ("echo", fun v => v);
    ("sd.sid", u_sid); ("sd.target", u_target); ("sd.sdbytes", u_sdbytes); ("sd.parse_sd", u_parse_sd) ].

Fixpoint lookup (n : string) (l : list (string * (val -> val))) : option (val -> val) :=
  match l with
  | [] => None
  | (k, f) :: r => if String.eqb n k then Some f else lookup n r
  end.
Definition run (name : string) (arg : val) : val :=
  match lookup name units with Some f => f arg | None => VE KeyError end.
