(* area e2e: the offline protect / unprotect paths end to end, under the symbolic crypto. *)
From Coq Require Import String.
From V Require Import Prelude.Base Prelude.Val.
From V Require Import Model.Types Model.Crypto Model.Sym Model.Blob Model.Client.

Definition opt_bytes_of_val (v : val) : option (option bytes) :=
  match v with VB b => Some (Some b) | VN => Some None | _ => None end.

(* [rkid; key; version; kdf_alg; kdf_params; secret_alg; secret_params|None; priv_len; pub_len] *)
Definition root_of_val (v : val) : option (bytes * root_key) :=
  match v with
  | VL [VB rkid; VB key; VI ver; VS kalg; VB kpar; VS salg; spar; VI priv; VI pub] =>
    match opt_bytes_of_val spar with
    | Some sp => Some (rkid, {| rk_key := key; rk_version := ver; rk_kdf_alg := kalg; rk_kdf_params := kpar;
                                rk_secret_alg := salg; rk_secret_params := sp; rk_priv_len := priv; rk_pub_len := pub |})
    | None => None
    end
  | _ => None
  end.
Fixpoint cache_of_vals (l : list val) (acc : ccache) : option ccache :=
  match l with
  | [] => Some acc
  | v :: r => match root_of_val v with Some (rkid, rk) => cache_of_vals r (cc_load acc rkid rk) | None => None end
  end.

(* [roots; data] -> plaintext | error *)
Definition u_unprotect (a : val) : val :=
  match a with
  | VL [VL roots; VB data] =>
    match cache_of_vals roots cc_empty with
    | Some cache => vres VB (fst (unprotect_offline sym cache data))
    | None => bad
    end
  | _ => bad
  end.
(* [roots; [rnd_cek; rnd_iv; rnd_kek]; data; sid; rkid|None; time_ns] -> blob | error *)
Definition u_protect (a : val) : val :=
  match a with
  | VL [VL roots; VL [VB r1; VB r2; VB r3]; VB data; VS sid; rkid; VI ns] =>
    match cache_of_vals roots cc_empty, opt_bytes_of_val rkid with
    | Some cache, Some rk => vres VB (fst (protect_offline sym cache r1 r2 r3 data sid rk ns))
    | _, _ => bad
    end
  | _ => bad
  end.
(* protect, optionally move the ciphertext behind the envelope (LAPS layout), unprotect with the SAME cache object:
   [roots; draws; data; sid; rkid; time_ns; trailing] -> [blob; plaintext] *)
Definition u_roundtrip (a : val) : val :=
  match a with
  | VL [VL roots; VL [VB r1; VB r2; VB r3]; VB data; VS sid; rkid; VI ns; VI trailing] =>
    match cache_of_vals roots cc_empty, opt_bytes_of_val rkid with
    | Some cache, Some rk =>
      match protect_offline sym cache r1 r2 r3 data sid rk ns with
      | (Raise e, _) => VE e
      | (Ok blob, cache1) =>
        let wire := if Z.land trailing 1 =? 0 then Ok blob
                    else (let* b := blob_unpack blob in blob_pack b false) in
        match wire with
        | Raise e => VL [VB blob; VE e]
        | Ok w => VL [VB w; vres VB (fst (unprotect_offline sym cache1 w))]
        end
      end
    | _, _ => bad
    end
  | _ => bad
  end.

(* consecutive protect calls sharing ONE cache: [roots; [[draws; data; sid; rkid|None; time_ns] ...]] -> [blob | error ...] *)
Fixpoint protect_seq (cache : ccache) (l : list val) : list val :=
  match l with
  | [] => []
  | VL [VL [VB r1; VB r2; VB r3]; VB data; VS sid; rkid; VI ns] :: rest =>
    match opt_bytes_of_val rkid with
    | Some rk => let '(r, cache1) := protect_offline sym cache r1 r2 r3 data sid rk ns in vres VB r :: protect_seq cache1 rest
    | None => [bad]
    end
  | _ => [bad]
  end.
Definition u_protect_seq (a : val) : val :=
  match a with
  | VL [VL roots; VL calls] =>
    match cache_of_vals roots cc_empty with Some cache => VL (protect_seq cache calls) | None => bad end
  | _ => bad
  end.

(* a GroupKeyEnvelope: [version; flags; l0; l1; l2; rkid; kdf_alg; kdf_params; secret_alg; secret_params; priv; pub; domain; forest; l1_key; l2_key] *)
Definition env_of_val (v : val) : option envelope :=
  match v with
  | VL [VI ver; VI fl; VI l0; VI l1; VI l2; VB rkid; VS kalg; VB kpar; VS salg; VB spar; VI priv; VI pub; VS dom; VS forest; VB k1; VB k2] =>
    Some {| gke_version := ver; gke_flags := fl; gke_l0 := l0; gke_l1 := l1; gke_l2 := l2; gke_rkid := rkid;
            gke_kdf_alg := kalg; gke_kdf_params := kpar; gke_secret_alg := salg; gke_secret_params := spar;
            gke_priv_len := priv; gke_pub_len := pub; gke_domain := dom; gke_forest := forest; gke_l1_key := k1; gke_l2_key := k2 |}
  | _ => None
  end.
(* online shape: protect with the envelope the DC returned, unprotect with the envelope the DC returns to an authorised caller.
   [protect envelope; unprotect envelope; draws; data; sid; trailing] -> [blob; plaintext] *)
Definition u_roundtrip_env (a : val) : val :=
  match a with
  | VL [pe; ue; VL [VB r1; VB r2; VB r3]; VB data; VS sid; VI trailing] =>
    match env_of_val pe, env_of_val ue with
    | Some penv, Some uenv =>
      match encrypt_blob sym r1 r2 r3 data penv sid with
      | Raise e => VE e
      | Ok blob =>
        let wire := if Z.land trailing 1 =? 0 then Ok blob else (let* b := blob_unpack blob in blob_pack b false) in
        match wire with
        | Raise e => VL [VB blob; VE e]
        | Ok w => VL [VB w; vres VB (let* b := blob_unpack w in decrypt_blob sym b uenv)]
        end
      end
    | _, _ => bad
    end
  | _ => bad
  end.

(* consecutive protect calls of a caller who only holds the DC's envelope (public-key or seed): [envelope; [[draws; data; sid] ...]] -> blobs *)
Fixpoint encrypt_seq (e : envelope) (l : list val) : list val :=
  match l with
  | [] => []
  | VL [VL [VB r1; VB r2; VB r3]; VB data; VS sid] :: rest => vres VB (encrypt_blob sym r1 r2 r3 data e sid) :: encrypt_seq e rest
  | _ => [bad]
  end.
Definition u_encrypt_seq (a : val) : val :=
  match a with
  | VL [pe; VL calls] => match env_of_val pe with Some e => VL (encrypt_seq e calls) | None => bad end
  | _ => bad
  end.

Open Scope string_scope.
Definition units : list (string * (val -> val)) :=
  [ ("e2e.unprotect", u_unprotect); ("e2e.protect", u_protect); ("e2e.roundtrip", u_roundtrip);
    ("e2e.roundtrip_env", u_roundtrip_env); ("e2e.protect_seq", u_protect_seq); ("e2e.encrypt_seq", u_encrypt_seq) ].

Fixpoint lookup (n : string) (l : list (string * (val -> val))) : option (val -> val) :=
  match l with
  | [] => None
  | (k, f) :: r => if String.eqb n k then Some f else lookup n r
  end.
Definition run (name : string) (arg : val) : val :=
  match lookup name units with Some f => f arg | None => VE KeyError end.
