(* area e2e: the offline protect / unprotect paths end to end, under the symbolic crypto. *)
From Coq Require Import String.
From V Require Import Prelude.Base Prelude.Val.
From V Require Import Model.Types Model.Crypto Model.Sym Model.Blob Model.Client.

Definition opt_bytes_of_val (v : val) : option (option bytes) :=
  match v with VB b => Some (Some b) | VN => Some None | _ => None end.

(* [rkid; key; version; kdf_alg; kdf_params; secret_alg; secret_params|None; priv_len; pub_len] *)
Definition root_of_val (v : val) : option (bytes * root_key) :=
  match v with
  | VL [VB rkid; VB key; VI ver; VS kalg; VB kpar; VS salg; spar; VI priv; VI pub] =>
    match opt_bytes_of_val spar with
    | Some sp => Some (rkid, {| rk_key := key; rk_version := ver; rk_kdf_alg := kalg; rk_kdf_params := kpar;
                                rk_secret_alg := salg; rk_secret_params := sp; rk_priv_len := priv; rk_pub_len := pub |})
    | None => None
    end
  | _ => None
  end.
Fixpoint cache_of_vals (l : list val) (acc : ccache) : option ccache :=
  match l with
  | [] => Some acc
  | v :: r => match root_of_val v with Some (rkid, rk) => cache_of_vals r (cc_load acc rkid rk) | None => None end
  end.

(* [roots; data] -> plaintext | error *)
Definition u_unprotect (a : val) : val :=
  match a with
  | VL [VL roots; VB data] =>
    match cache_of_vals roots cc_empty with
    | Some cache => vres VB (fst (unprotect_offline sym cache data))
    | None => bad
    end
  | _ => bad
  end.
(* [roots; [rnd_cek; rnd_iv; rnd_kek]; data; sid; rkid|None; time_ns] -> blob | error *)
Definition u_protect (a : val) : val :=
  match a with
  | VL [VL roots; VL [VB r1; VB r2; VB r3]; VB data; VS sid; rkid; VI ns] =>
    match cache_of_vals roots cc_empty, opt_bytes_of_val rkid with
    | Some cache, Some rk => vres VB (fst (protect_offline sym cache r1 r2 r3 data sid rk ns))
    | _, _ => bad
    end
  | _ => bad
  end.
(* protect, optionally move the ciphertext behind the envelope (LAPS layout), unprotect with the SAME cache object:
   [roots; draws; data; sid; rkid; time_ns; trailing] -> [blob; plaintext] *)
Definition u_roundtrip (a : val) : val :=
  match a with
  | VL [VL roots; VL [VB r1; VB r2; VB r3]; VB data; VS sid; rkid; VI ns; VI trailing] =>
    match cache_of_vals roots cc_empty, opt_bytes_of_val rkid with
    | Some cache, Some rk =>
      match protect_offline sym cache r1 r2 r3 data sid rk ns with
      | (Raise e, _) => VE e
      | (Ok blob, cache1) =>
        let wire := if Z.land trailing 1 =? 0 then Ok blob
                    else (let* b := blob_unpack blob in blob_pack b false) in
        match wire with
        | Raise e => VL [VB blob; VE e]
        | Ok w => VL [VB w; vres VB (fst (unprotect_offline sym cache1 w))]
        end
      end
    | _, _ => bad
    end
  | _ => bad
  end.

Open Scope string_scope.
Definition units : list (string * (val -> val)) :=
  [ ("e2e.unprotect", u_unprotect); ("e2e.protect", u_protect); ("e2e.roundtrip", u_roundtrip) ].

Fixpoint lookup (n : string) (l : list (string * (val -> val))) : option (val -> val) :=
  match l with
  | [] => None
  | (k, f) :: r => if String.eqb n k then Some f else lookup n r
  end.
Definition run (name : string) (arg : val) : val :=
  match lookup name units with Some f => f arg | None => VE KeyError end.
