(* _blob.py: ProtectionDescriptor.pack/unpack and DPAPINGBlob.pack/unpack (both layouts) on top of
   Model/Pkcs7.v; KeyIdentifier.pack/unpack is Model/KeyId.v (area gkdi). The GCM parameters built in
   _client._encrypt_blob are gcm_parameters. No proofs here. *)
From V Require Import Prelude.Base Prelude.PyInt Prelude.PySlice Prelude.PyStr gen.K_asn1 gen.C_asn1.
From V Require Import Model.Types Model.KeyId Model.Asn1 Model.Pkcs7.

Definition oid_ms_software : oid := oid_of_str c_oid_ms_software.
Definition oid_pd_sid : oid := oid_of_str c_oid_pd_sid.
Definition oid_aes256_wrap : oid := oid_of_str c_oid_aes256_wrap.
Definition oid_aes256_gcm : oid := oid_of_str c_oid_aes256_gcm.

Fixpoint str_eqb (a b : list Z) : bool :=
  match a, b with
  | [], [] => true
  | x :: a', y :: b' => (x =? y) && str_eqb a' b'
  | _, _ => false
  end.

(* ProtectionDescriptor (only the SID type exists): value = the SID string *)
Definition ProtectionDescriptor_tree (sid : pystr) : res asn1 :=
  let* o := a_oid oid_pd_sid in
  let* n := a_utf8 c_pd_sid_name in
  let* v := a_utf8 sid in
  Ok (a_seq [o; a_seq [a_seq [a_seq [n; v]]]]).
Definition ProtectionDescriptor_pack (sid : pystr) : res bytes :=
  let* t := ProtectionDescriptor_tree sid in encode t.
Definition ProtectionDescriptor_unpack (data : bytes) : res pystr :=
  let* (r, _) := read_sequence data None None in
  let* (content_type, r) := read_object_identifier r None None in
  let* (r, _) := read_sequence r None None in
  let* (r, _) := read_sequence r None None in
  let* (r, _) := read_sequence r None None in
  let* (value_type, r) := read_utf8_string r None None in
  let* (value, r) := read_utf8_string r None None in
  if oid_eqb content_type oid_pd_sid && str_eqb value_type c_pd_sid_name then Ok value else Raise ValueError.

Record blob := {
  b_key_identifier : key_identifier;
  b_sid : pystr;                       (* protection_descriptor = SIDDescriptor(value) *)
  b_enc_cek : bytes;
  b_enc_cek_algorithm : oid;
  b_enc_cek_parameters : option bytes;
  b_enc_content : bytes;
  b_enc_content_algorithm : oid;
  b_enc_content_parameters : option bytes }.

Definition blob_enveloped_data (b : blob) (kid pd : bytes) (blob_in_envelope : bool) : enveloped_data :=
  {| ed_version := k_blob_ed_version;
     ed_recipient_infos :=
       [ {| kri_version := k_blob_kri_version;
            kri_kekid := {| kekid_key_identifier := kid; kekid_date := None;
                            kekid_other := Some {| oka_id := oid_ms_software; oka_attr := Some pd |} |};
            kri_alg := {| alg_oid := b_enc_cek_algorithm b; alg_params := b_enc_cek_parameters b |};
            kri_encrypted_key := b_enc_cek b |} ];
     ed_eci := {| eci_content_type := oid_data;
                  eci_alg := {| alg_oid := b_enc_content_algorithm b; alg_params := b_enc_content_parameters b |};
                  eci_content := Some (if blob_in_envelope then b_enc_content b else []) |} |}.

Definition blob_pack (b : blob) (blob_in_envelope : bool) : res bytes :=
  let* kid := KeyIdentifier_pack (b_key_identifier b) in
  let* pd := ProtectionDescriptor_pack (b_sid b) in
  let* ed_tree := EnvelopedData_pack (blob_enveloped_data b kid pd blob_in_envelope) in
  let* ed_bytes := encode ed_tree in
  let* ci_tree := ContentInfo_pack {| ci_content_type := oid_enveloped_data; ci_content := ed_bytes |} in
  let* ci_bytes := encode ci_tree in
  Ok (ci_bytes ++ (if blob_in_envelope then [] else b_enc_content b)).

Definition blob_unpack (data : bytes) : res blob :=
  let* h := peek_header data in
  let total := h_tlen h + h_len h in
  let* ci := ContentInfo_unpack (slice None (Some total) data) (Some h) in
  let remaining_data := slice (Some total) None data in
  if negb (oid_eqb (ci_content_type ci) oid_enveloped_data) then Raise ValueError else
  let* ed := EnvelopedData_unpack (ci_content ci) in
  match ed_recipient_infos ed with
  | [kek_info] =>
    if negb (ed_version ed =? 2) || negb (kri_version kek_info =? 4) then Raise ValueError else
    let* key_identifier := KeyIdentifier_unpack (kekid_key_identifier (kri_kekid kek_info)) in
    match kekid_other (kri_kekid kek_info) with
    | None => Raise ValueError
    | Some other =>
      if negb (oid_eqb (oka_id other) oid_ms_software) then Raise ValueError else
      let* sid := ProtectionDescriptor_unpack (match oka_attr other with Some a => a | None => [] end) in
      let enc_content := match truthy (eci_content (ed_eci ed)) with Some c => c | None => remaining_data end in
      Ok {| b_key_identifier := key_identifier; b_sid := sid;
            b_enc_cek := kri_encrypted_key kek_info;
            b_enc_cek_algorithm := alg_oid (kri_alg kek_info);
            b_enc_cek_parameters := alg_params (kri_alg kek_info);
            b_enc_content := enc_content;
            b_enc_content_algorithm := alg_oid (eci_alg (ed_eci ed));
            b_enc_content_parameters := alg_params (eci_alg (ed_eci ed)) |}
    end
  | _ => Raise ValueError
  end.

(* _client._encrypt_blob: parameters of AES256-GCM = SEQUENCE { OCTET STRING nonce, INTEGER 16 } *)
Definition gcm_parameters (cek_iv : bytes) : res bytes :=
  let* i := a_int k_gcm_icv_len None in encode (a_seq [a_octets cek_iv None; i]).
Definition encrypt_blob_fields (kid : key_identifier) (sid : pystr) (cek_iv enc_cek enc_content : bytes) : res blob :=
  let* p := gcm_parameters cek_iv in
  Ok {| b_key_identifier := kid; b_sid := sid; b_enc_cek := enc_cek;
        b_enc_cek_algorithm := oid_aes256_wrap; b_enc_cek_parameters := None;
        b_enc_content := enc_content; b_enc_content_algorithm := oid_aes256_gcm; b_enc_content_parameters := Some p |}.
