(* Loop combinator for `for _ in range(n): body` over a count read from the wire (DESIGN.md section 6
   "Loops"): recursion on explicit fuel (OutOfFuel when it runs out before the count is exhausted),
   early exit on Raise, and an iteration counter: ticks = 1 per iteration + what the body reports for
   its own inner loops.  No proofs in this file. *)
From V Require Export Prelude.Base.

Fixpoint for_range {St : Type} (fuel : nat) (n : Z) (body : St -> res (St * Z)) (s : St) (ticks : Z)
  : res (St * Z) :=
  if n <=? 0 then Ok (s, ticks) else
  match fuel with
  | O => Raise OutOfFuel
  | S f => let* (s', t) := body s in for_range f (n - 1) body s' (ticks + 1 + t)
  end.

Fixpoint bytes_eqb (a b : bytes) : bool :=
  match a, b with
  | [], [] => true
  | x :: a', y :: b' => (x =? y) && bytes_eqb a' b'
  | _, _ => false
  end.
