(* _rpc/_client.py: RpcClient.bind (shared by the sync and async flavours, see twin_SyncRpcClient_bind),
   _create_bind, _create_alter_context, _process_bind_ack, and _client._process_bind_result.
   The authentication provider is a script of legs (token produced, complete afterwards);
   the server is a script of replies. The run records every PDU sent and every step() argument. *)
From V Require Import Prelude.Base Prelude.PySlice gen.K_client gen.C_client gen.C_rpc.

Record leg := { leg_token : bytes; leg_complete : bool }.

Inductive reply :=
| RBindAck (results : list Z) (flags : Z) (tok : option bytes)     (* tok: auth_value of the security trailer, if one is present *)
| RAlterResp (results : list Z) (flags : Z) (tok : option bytes)
| RBindNak | RFault | RResponse.

Inductive sent :=
| SBind (flags : Z) (tok : option bytes) (ctxs : list Z)
| SAlter (flags : Z) (tok : bytes) (ctxs : list Z).

Record st := {
  trace : list sent;               (* PDUs sent, oldest first *)
  steps : list (option bytes);     (* arguments of provider.step, oldest first *)
  sign : bool;                     (* self._sign_header *)
  server : list reply              (* replies still to come *)
}.

Definition snoc_trace (s : st) (p : sent) : st :=
  {| trace := trace s ++ [p]; steps := steps s; sign := sign s; server := server s |}.
Definition snoc_step (s : st) (a : option bytes) : st :=
  {| trace := trace s; steps := steps s ++ [a]; sign := sign s; server := server s |}.
Definition set_sign (s : st) (b : bool) : st :=
  {| trace := trace s; steps := steps s; sign := b; server := server s |}.
Definition pop_server (s : st) : st :=
  {| trace := trace s; steps := steps s; sign := sign s; server := tl (server s) |}.

Inductive expect := EBindAck | EAlterResp.

(* PDU.unpack of a reply: ContextResult.unpack looks every result code up in ContextResultCode (Model/Bind.v context_result_unpack:
   enum_lookup c_ContextResultCode_values), so an ack whose result vector holds a code outside the enum does not decode: ValueError,
   raised while the reply is decoded, before any class check *)
Definition result_code_ok (r : Z) : bool := existsb (Z.eqb r) c_ContextResultCode_values.
Definition reply_decodes (r : reply) : bool :=
  match r with
  | RBindAck rs _ _ | RAlterResp rs _ _ => forallb result_code_ok rs
  | _ => true
  end.

(* _send_pdu + _process_response on the next scripted reply: (results, flags, token) or the error *)
Definition send_pdu (p : sent) (e : expect) (s : st) : res (list Z * Z * option bytes) * st :=
  let s1 := snoc_trace s p in
  match server s1 with
  | [] => (Raise EOFError, s1)
  | r :: _ =>
    let s2 := pop_server s1 in
    if negb (reply_decodes r) then (Raise ValueError, s2) else
    match r, e with
    | RBindAck rs fl tk, EBindAck => (Ok (rs, fl, tk), s2)
    | RAlterResp rs fl tk, EAlterResp => (Ok (rs, fl, tk), s2)
    | _, _ => (Raise ValueError, s2)    (* BindNak, Fault, or a PDU of another type *)
    end
  end.

(* _process_bind_ack: the contexts whose result is ACCEPTANCE (results indexed like the contexts) *)
Fixpoint accepted_contexts (ctxs : list Z) (results : list Z) (idx : Z) : res (list Z) :=
  match ctxs with
  | [] => Ok []
  | c :: cs =>
    let* r := index results idx in
    let* rest := accepted_contexts cs results (idx + 1) in
    Ok (if k_ack_accepted r c_ACCEPTANCE then c :: rest else rest)
  end.
Definition process_bind_ack (results : list Z) (flags : Z) (tok : option bytes) (ctxs : list Z) (s : st)
  : res (list Z * option bytes) * st :=
  match accepted_contexts ctxs results 0 with
  | Raise e => (Raise e, s)
  | Ok acc =>
    let s' := if k_ack_clears_sign flags c_PFC_SUPPORT_HEADER_SIGN then set_sign s false else s in
    (Ok (acc, tok), s')
  end.

Definition or_empty (t : option bytes) : bytes := match t with Some (x :: r) => x :: r | _ => [] end.

(* the `while not self._auth.complete` loop; one provider leg per iteration *)
Fixpoint alter_loop (legs : list leg) (complete : bool) (in_token : option bytes) (final_ctx : list Z) (s : st)
  : res unit * st :=
  if k_bind_loop_guard complete then
    match legs with
    | [] => (Raise KeyError, s)       (* the provider has no further leg: outside the modelled scripts *)
    | l :: ls =>
      let s1 := snoc_step s (Some (or_empty in_token)) in
      if k_bind_break (leg_token l) then (Ok tt, s1)
      else
        let p := SAlter (k_alter_flags (sign s1) c_PFC_SUPPORT_HEADER_SIGN c_PFC_NONE) (leg_token l) final_ctx in
        match send_pdu p EAlterResp s1 with
        | (Raise e, s2) => (Raise e, s2)
        | (Ok (rs, fl, tk), s2) =>
          match process_bind_ack rs fl tk final_ctx s2 with
          | (Raise e, s3) => (Raise e, s3)
          | (Ok (_, tk'), s3) => alter_loop ls (leg_complete l) tk' final_ctx s3
          end
        end
    end
  else (Ok tt, s).

Definition init_st (srv : list reply) : st := {| trace := []; steps := []; sign := false; server := srv |}.

(* bind(contexts) on an authenticated connection (legs non-empty) or an anonymous one (auth = false) *)
Definition bind_run (auth : bool) (legs : list leg) (srv : list reply) (ctxs : list Z)
  : res (list Z) * st :=    (* Ok results-of-the-bind_ack *)
  let s0 := init_st srv in
  if negb auth then
    match send_pdu (SBind c_PFC_NONE None ctxs) EBindAck s0 with
    | (Raise e, s1) => (Raise e, s1)
    | (Ok (rs, _, _), s1) => (Ok rs, s1)
    end
  else
    match legs with
    | [] => (Raise KeyError, s0)
    | l :: ls =>
      let s1 := snoc_step s0 None in
      (* _create_bind with a security trailer: header signing offered *)
      let s2 := set_sign s1 true in
      let p := SBind (Z.lor c_PFC_NONE c_PFC_SUPPORT_HEADER_SIGN) (Some (leg_token l)) ctxs in
      match send_pdu p EBindAck s2 with
      | (Raise e, s3) => (Raise e, s3)
      | (Ok (rs, fl, tk), s3) =>
        match process_bind_ack rs fl tk ctxs s3 with
        | (Raise e, s4) => (Raise e, s4)
        | (Ok (final_ctx, tk'), s4) =>
          match alter_loop ls (leg_complete l) tk' final_ctx s4 with
          | (Raise e, s5) => (Raise e, s5)
          | (Ok _, s5) => (Ok rs, s5)
          end
        end
      end
    end.

(* _client._process_bind_result(requested_contexts, bind_ack, desired_context) *)
Fixpoint accepted_ids (results : list Z) (requested : list Z) (idx : Z) : res (list Z) :=
  match results with
  | [] => Ok []
  | r :: rs =>
    if k_bind_result_accepted r c_ACCEPTANCE then
      let* c := index requested idx in
      let* rest := accepted_ids rs requested (idx + 1) in Ok (c :: rest)
    else accepted_ids rs requested (idx + 1)
  end.
Definition process_bind_result (requested : list Z) (results : list Z) (desired : Z) : res unit :=
  let* ids := accepted_ids results requested 0 in
  if existsb (Z.eqb desired) ids then Ok tt else Raise ValueError.
