(* PDU.unpack: pdu_split (Model/Pdu.v) followed by the _PACKET_TYPE_REGISTRY dispatch. Returns the
   decoded PDU and the loop ticks.  No proofs in this file. *)
From V Require Export Model.Pdu Model.Request Model.Bind.

Inductive pdu :=
| PRequest (m : request) | PResponse (m : response) | PFault (m : fault)
| PBind (m : bind_msg) | PBindAck (m : bind_ack) | PBindNak (m : bind_nak)
| PAlterContext (m : bind_msg) | PAlterContextResp (m : bind_ack).

Definition pdu_unpack (fuel : nat) (data : bytes) : res (pdu * Z) :=
  let* (vh, st) := pdu_split data in
  let '(view, header) := vh in
  let* pt := registry_lookup (h_packet_type header) in
  if pt =? c_PT_REQUEST then let* m := request_unpack view header st in Ok (PRequest m, 0)
  else if pt =? c_PT_RESPONSE then let* m := response_unpack view header st in Ok (PResponse m, 0)
  else if pt =? c_PT_FAULT then let* m := fault_unpack view header st in Ok (PFault m, 0)
  else if pt =? c_PT_BIND then let* (m, t) := bind_unpack fuel view header st in Ok (PBind m, t)
  else if pt =? c_PT_BIND_ACK then let* (m, t) := bind_ack_unpack fuel view header st in Ok (PBindAck m, t)
  else if pt =? c_PT_BIND_NAK then let* (m, t) := bind_nak_unpack fuel view header st in Ok (PBindNak m, t)
  else if pt =? c_PT_ALTER_CONTEXT then let* (m, t) := bind_unpack fuel view header st in Ok (PAlterContext m, t)
  else if pt =? c_PT_ALTER_CONTEXT_RESP then let* (m, t) := bind_ack_unpack fuel view header st in Ok (PAlterContextResp m, t)
  else Raise KeyError.
