(* _client.py glue, concretely (bytes, envelopes): KeyCache with real envelopes, _decrypt_blob,
   _encrypt_blob, _get_protection_gke_from_cache and the offline paths of ncrypt_unprotect_secret /
   ncrypt_protect_secret (a cache miss is the error NeedNetwork: the library would now look up and
   contact a domain controller). Randomness is an explicit argument: the three os.urandom draws of a
   protect call in call order (CEK, GCM nonce, key-identifier randomness). *)
From V Require Import Prelude.Base Prelude.PyInt gen.Kernels gen.K_cache gen.K_gkdi gen.C_asn1.
From V Require Import Model.Types Model.Crypto Model.Chain Model.KeyId Model.Gkdi Model.Kek Model.SecDesc.
From V Require Import Model.Asn1 Model.Pkcs7 Model.Blob Model.CryptoWrap Model.Interval.

Record root_key := {
  rk_key : bytes; rk_version : Z; rk_kdf_alg : pystr; rk_kdf_params : bytes;
  rk_secret_alg : pystr; rk_secret_params : option bytes; rk_priv_len : Z; rk_pub_len : Z }.

Definition ckey := (bytes * bytes * Z)%type.    (* (root key id bytes_le, target SD, L0) *)
Definition ckey_eqb (a b : ckey) : bool :=
  let '(a1, a2, a3) := a in let '(b1, b2, b3) := b in beqb a1 b1 && beqb a2 b2 && (a3 =? b3).
Record ccache := { cc_roots : list (bytes * root_key); cc_seeds : list (ckey * envelope) }.
Definition cc_empty : ccache := {| cc_roots := []; cc_seeds := [] |}.

Fixpoint cc_find_root (l : list (bytes * root_key)) (rk : bytes) : option root_key :=
  match l with [] => None | (k, v) :: r => if beqb k rk then Some v else cc_find_root r rk end.
Fixpoint cc_find_seed (l : list (ckey * envelope)) (t : ckey) : option envelope :=
  match l with [] => None | (k, v) :: r => if ckey_eqb k t then Some v else cc_find_seed r t end.
Definition cc_set_seed (c : ccache) (t : ckey) (e : envelope) : ccache :=
  {| cc_roots := cc_roots c; cc_seeds := (t, e) :: cc_seeds c |}.
Definition cc_load (c : ccache) (rkid : bytes) (rk : root_key) : ccache :=
  {| cc_roots := (rkid, rk) :: cc_roots c; cc_seeds := cc_seeds c |}.

Section WithCrypto.
Context (c : Crypto).

(* KeyCache._get_key *)
Definition cc_get_key (cache : ccache) (sd rkid : bytes) (l0 l1 l2 : Z) : res (option envelope * ccache) :=
  if k_cache_l0_guard l0 then Raise ValueError else
  let seed := cc_find_seed (cc_seeds cache) (rkid, sd, l0) in
  let hit := match seed with
             | Some e => k_cache_covers true (gke_l1 e) l1 (gke_l2 e) l2
             | None => k_cache_covers false 0 l1 0 l2
             end in
  if hit then Ok (seed, cache) else
  match cc_find_root (cc_roots cache) rkid with
  | Some rk =>
    let* hash_name := KDFParameters_unpack (rk_kdf_params rk) in
    let* h := hash_algorithm hash_name in
    let* l1_seed := compute_l1_key c h sd rkid l0 (rk_key rk) in
    let gke := {| gke_version := rk_version rk; gke_flags := k_root_env_flags; gke_l0 := l0;
                  gke_l1 := k_root_env_l1; gke_l2 := k_root_env_l2; gke_rkid := rkid;
                  gke_kdf_alg := rk_kdf_alg rk; gke_kdf_params := rk_kdf_params rk;
                  gke_secret_alg := rk_secret_alg rk;
                  gke_secret_params := match rk_secret_params rk with Some (x :: r) => x :: r | _ => [] end;
                  gke_priv_len := rk_priv_len rk; gke_pub_len := rk_pub_len rk;
                  gke_domain := []; gke_forest := []; gke_l1_key := l1_seed; gke_l2_key := [] |} in
    if k_cache_root_overwrites then Ok (Some gke, cc_set_seed cache (rkid, sd, l0) gke)
    else match seed with
         | Some e => Ok (Some e, cache)
         | None => Ok (Some gke, cc_set_seed cache (rkid, sd, l0) gke)
         end
  | None => Ok (None, cache)
  end.

(* KeyCache._store_key *)
Definition cc_store_key (cache : ccache) (sd : bytes) (e : envelope) : ccache :=
  let t := (gke_rkid e, sd, gke_l0 e) in
  let go := match cc_find_seed (cc_seeds cache) t with
            | Some x => k_cache_store true (gke_l1 e) (gke_l1 x) (gke_l2 e) (gke_l2 x)
            | None => k_cache_store false (gke_l1 e) 0 (gke_l2 e) 0
            end in
  if go then cc_set_seed cache t e else cache.

(* _decrypt_blob *)
Definition decrypt_blob (b : blob) (key : envelope) : res bytes :=
  let* kek := get_kek c key (b_key_identifier b) in
  let* cek := cek_decrypt c (b_enc_cek_algorithm b) (b_enc_cek_parameters b) kek (b_enc_cek b) in
  content_decrypt c (b_enc_content_algorithm b) (b_enc_content_parameters b) cek (b_enc_content b).

(* _encrypt_blob; rnd_cek / rnd_iv / rnd_kek are the three os.urandom draws in call order *)
Definition encrypt_blob (rnd_cek rnd_iv rnd_kek : bytes) (data : bytes) (key : envelope) (sid : pystr) : res bytes :=
  let* (cek, cek_iv) := cek_generate oid_aes256_wrap rnd_cek rnd_iv in
  let* params := gcm_parameters cek_iv in
  let* enc_content := content_encrypt c oid_aes256_gcm (Some params) cek data in
  let* (kek, key_identifier) := new_kek_rnd c key rnd_kek in
  let* enc_cek := cek_encrypt c oid_aes256_wrap None kek cek in
  let* b := encrypt_blob_fields key_identifier sid cek_iv enc_cek enc_content in
  blob_pack b true.

(* ncrypt_unprotect_secret with a cache and no reachable domain controller *)
Definition unprotect_offline (cache : ccache) (data : bytes) : res bytes * ccache :=
  match blob_unpack data with
  | Raise e => (Raise e, cache)
  | Ok b =>
    match get_target_sd (b_sid b) with
    | Raise e => (Raise e, cache)
    | Ok target_sd =>
      let kid := b_key_identifier b in
      match cc_get_key cache target_sd (kid_rkid kid) (kid_l0 kid) (kid_l1 kid) (kid_l2 kid) with
      | Raise e => (Raise e, cache)
      | Ok (None, cache1) => (Raise NeedNetwork, cache1)
      | Ok (Some rk, cache1) =>
        let cache2 := if gke_is_public_key rk then cache1 else cc_store_key cache1 target_sd rk in
        (decrypt_blob b rk, cache2)
      end
    end
  end.

(* _get_protection_gke_from_cache; time_ns is what time.time_ns() returns *)
Definition protection_gke_from_cache (cache : ccache) (rkid : option bytes) (target_sd : bytes) (time_ns : Z)
  : res (option envelope * ccache) :=
  match rkid with
  | None => Ok (None, cache)
  | Some rid =>
    let '(l0, l1, l2) := interval_of_time_ns time_ns in
    let* (rko, cache1) := cc_get_key cache target_sd rid l0 l1 l2 in
    match rko with
    | None => Ok (None, cache1)
    | Some rk =>
      let* hash_name := KDFParameters_unpack (gke_kdf_params rk) in
      let* h := hash_algorithm hash_name in
      let* l2_key := compute_l2_key c h l1 l2 rk in
      Ok (Some {| gke_version := gke_version rk; gke_flags := gke_flags rk; gke_l0 := l0; gke_l1 := l1; gke_l2 := l2;
                  gke_rkid := rid; gke_kdf_alg := gke_kdf_alg rk; gke_kdf_params := gke_kdf_params rk;
                  gke_secret_alg := gke_secret_alg rk; gke_secret_params := gke_secret_params rk;
                  gke_priv_len := gke_priv_len rk; gke_pub_len := gke_pub_len rk;
                  gke_domain := gke_domain rk; gke_forest := gke_forest rk; gke_l1_key := []; gke_l2_key := l2_key |}, cache1)
    end
  end.

(* the cache _get_protection_gke_from_cache leaves behind when it raises AFTER its cache._get_key call returned (KDFParameters.unpack /
   compute_l2_key raising): KeyCache._get_key has mutated the cache object by then (a root-derived entry stays; checked against the
   running code), so this is the cache after the lookup, not the one the call started with *)
Definition protection_lookup_cache (cache : ccache) (rkid : option bytes) (target_sd : bytes) (time_ns : Z) : ccache :=
  match rkid with
  | None => cache
  | Some rid =>
    let '(l0, l1, l2) := interval_of_time_ns time_ns in
    match cc_get_key cache target_sd rid l0 l1 l2 with
    | Ok (_, cache1) => cache1
    | Raise _ => cache
    end
  end.

(* ncrypt_protect_secret with a cache and no reachable domain controller *)
Definition protect_offline (cache : ccache) (rnd_cek rnd_iv rnd_kek : bytes) (data : bytes) (sid : pystr)
    (rkid : option bytes) (time_ns : Z) : res bytes * ccache :=
  match get_target_sd sid with
  | Raise e => (Raise e, cache)
  | Ok sd =>
    match protection_gke_from_cache cache rkid sd time_ns with
    | Raise e => (Raise e, protection_lookup_cache cache rkid sd time_ns)
    | Ok (None, cache1) => (Raise NeedNetwork, cache1)
    | Ok (Some rk, cache1) =>
      let cache2 := if gke_is_public_key rk then cache1 else cc_store_key cache1 sd rk in
      (encrypt_blob rnd_cek rnd_iv rnd_kek data rk sid, cache2)
    end
  end.
End WithCrypto.
