(* area asn1: dispatch table of model units for the correspondence check (val -> val). *)
From Coq Require Import String.
From V Require Import Prelude.Base Prelude.PyInt Prelude.PySlice Prelude.PyStr Prelude.Val gen.K_asn1 gen.C_asn1.
From V Require Import Model.Asn1 Spec.DerSpec Model.Types Model.KeyId Model.Pkcs7 Model.Blob.

Definition tag_of_val (v : val) : option (option tag) :=
  match v with
  | VN => Some None
  | VL [VI c; VI n; VI k] => Some (Some (mk_tag c n (negb (k =? 0))))
  | _ => None
  end.
Definition val_of_tag (t : tag) : val := VL [VI (t_class t); VI (t_num t); vbool (t_cons t)].
Definition val_of_header (h : header) : val :=
  VL [VI (t_class (h_tag h)); VI (t_num (h_tag h)); vbool (t_cons (h_tag h)); VI (h_tlen h); VI (h_len h)].
Fixpoint zs_of_vals (l : list val) : option (list Z) :=
  match l with
  | [] => Some []
  | VI z :: r => match zs_of_vals r with Some m => Some (z :: m) | None => None end
  | _ => None
  end.
Definition vzs (l : list Z) : val := VL (map VI l).

(* asn1.int : z -> [bytes written, [value read back, remaining]] *)
Definition u_int (a : val) : val :=
  match a with
  | VI z =>
    match pack_integer z None with
    | Ok d => VL [VB d; vres (fun p : Z * bytes => VL [VI (fst p); VB (snd p)]) (read_integer d None None)]
    | Raise e => VL [VE e; VN]
    end
  | _ => bad
  end.

(* asn1.int_range : [lo, n] -> [number of exact round trips, rolling checksum of (bytes, value), first bad z] *)
Definition ck_mod : Z := 2305843009213693951.
Fixpoint int_range (n : nat) (z ok acc : Z) (firstbad : option Z) : Z * Z * option Z :=
  match n with
  | O => (ok, acc, firstbad)
  | S n' =>
    let '(d, v, good) :=
      match pack_integer z None with
      | Ok d => match read_integer d None None with
                | Ok (v, rest) => (d, v, (v =? z) && Nat.eqb (length rest) 0)
                | Raise _ => (d, 0, false)
                end
      | Raise _ => ([], 0, false)
      end in
    int_range n' (z + 1) (if good then ok + 1 else ok) ((acc * 1000003 + 7 * be_val d + v + 1) mod ck_mod)
              (match firstbad with Some b => Some b | None => if good then None else Some z end)
  end.
Definition u_int_range (a : val) : val :=
  match a with
  | VL [VI lo; VI n] => let '(ok, acc, fb) := int_range (Z.to_nat n) lo 0 0 None in VL [VI ok; VI acc; vopt VI fb]
  | _ => bad
  end.

(* asn1.int_content : arbitrary content octets under an INTEGER header *)
Definition u_int_content (a : val) : val :=
  match a with
  | VB c =>
    match pack_tlv (universal_tag c_tag_integer false) c with
    | Ok d => vres (fun p : Z * bytes => VL [VI (fst p); VB (snd p)]) (read_integer d None None)
    | Raise e => VE e
    end
  | _ => bad
  end.

(* asn1.tlv : [class, constructed, number, content, suffix] -> [bytes, header, value, remaining] *)
Definition u_tlv (a : val) : val :=
  match a with
  | VL [VI c; VI k; VI n; VB content; VB suffix] =>
    let t := mk_tag c n (negb (k =? 0)) in
    match pack_octet_string content (Some t) with
    | Ok d =>
      let view := d ++ suffix in
      VL [VB d; vres val_of_header (peek_header view);
          vres (fun p : bytes * bytes => VL [VB (fst p); VB (snd p)]) (read_octet_string view (Some t) None)]
    | Raise e => VL [VE e; VN; VN]
    end
  | _ => bad
  end.

(* asn1.oid : [arcs, suffix] -> [bytes, [arcs read, remaining]] *)
Definition u_oid (a : val) : val :=
  match a with
  | VL [VL arcs; VB suffix] =>
    match zs_of_vals arcs with
    | Some zs =>
      match pack_object_identifier zs None with
      | Ok d => VL [VB d; vres (fun p : list Z * bytes => VL [vzs (fst p); VB (snd p)]) (read_object_identifier (d ++ suffix) None None)]
      | Raise e => VL [VE e; VN]
      end
    | None => bad
    end
  | _ => bad
  end.

(* asn1.tree : typed value trees through the writer, then read back following the same shape.
   node = [kind, tag-or-None, payload]; kinds 0 bool 1 int 2 octets 3 utf8 4 oid 5 generalized time
   6 enumerated 7 sequence 8 set *)
Fixpoint w_node (v : val) : res bytes :=
  match v with
  | VL [VI k; tg; p] =>
    match tag_of_val tg with
    | None => Raise TypeError
    | Some t =>
      match p with
      | VI z => if k =? 0 then pack_boolean (negb (z =? 0)) t
                else if k =? 1 then pack_integer z t
                else if k =? 6 then pack_enumerated z t else Raise TypeError
      | VB b => if k =? 2 then pack_octet_string b t else Raise TypeError
      | VS s => if k =? 3 then pack_utf8_string s t
                else if k =? 5 then pack_generalized_time s t else Raise TypeError
      | VL ch =>
        if k =? 4 then match zs_of_vals ch with Some zs => pack_object_identifier zs t | None => Raise TypeError end
        else if (k =? 7) || (k =? 8) then
          let* body := (fix go (l : list val) : res bytes :=
                          match l with [] => Ok [] | x :: r => let* a := w_node x in let* b := go r in Ok (a ++ b) end) ch in
          pack_tlv (opt_tag t (if k =? 7 then seq_tag else set_tag)) body
        else Raise TypeError
      | _ => Raise TypeError
      end
    end
  | _ => Raise TypeError
  end.
Fixpoint w_nodes (l : list val) : res bytes :=
  match l with [] => Ok [] | x :: r => let* a := w_node x in let* b := w_nodes r in Ok (a ++ b) end.

Fixpoint r_node (v : val) (view : bytes) : res (val * bytes) :=
  match v with
  | VL [VI k; tg; p] =>
    match tag_of_val tg with
    | None => Raise TypeError
    | Some t =>
      match p with
      | VL ch =>
        if k =? 4 then let* (x, rest) := read_object_identifier view t None in Ok (VL [VI k; tg; vzs x], rest)
        else if (k =? 7) || (k =? 8) then
          let* (inner, rest) := (if k =? 7 then read_sequence else read_set) view t None in
          let* (vals, inner_rest) :=
            (fix go (l : list val) (vw : bytes) : res (list val * bytes) :=
               match l with
               | [] => Ok ([], vw)
               | x :: r => let* (y, vw') := r_node x vw in let* (ys, vw'') := go r vw' in Ok (y :: ys, vw'')
               end) ch inner in
          Ok (VL [VI k; tg; VL (vals ++ [VB inner_rest])], rest)
        else Raise TypeError
      | _ =>
        if k =? 0 then let* (x, rest) := read_boolean view t None in Ok (VL [VI k; tg; vbool x], rest)
        else if k =? 1 then let* (x, rest) := read_integer view t None in Ok (VL [VI k; tg; VI x], rest)
        else if k =? 6 then let* (x, rest) := read_enumerated view t None in Ok (VL [VI k; tg; VI x], rest)
        else if k =? 2 then let* (x, rest) := read_octet_string view t None in Ok (VL [VI k; tg; VB x], rest)
        else if k =? 3 then let* (x, rest) := read_utf8_string view t None in Ok (VL [VI k; tg; VS x], rest)
        else if k =? 5 then let* (x, rest) := read_generalized_time view t None in Ok (VL [VI k; tg; VS x], rest)
        else Raise TypeError
      end
    end
  | _ => Raise TypeError
  end.
Fixpoint r_nodes (l : list val) (vw : bytes) : res (list val * bytes) :=
  match l with
  | [] => Ok ([], vw)
  | x :: r => let* (y, vw') := r_node x vw in let* (ys, vw'') := r_nodes r vw' in Ok (y :: ys, vw'')
  end.
Definition u_tree (a : val) : val :=
  match a with
  | VL [VL nodes; VB suffix] =>
    match w_nodes nodes with
    | Ok d => VL [VB d; vres (fun p : list val * bytes => VL [VL (fst p); VB (snd p)]) (r_nodes nodes (d ++ suffix))]
    | Raise e => VL [VE e; VN]
    end
  | _ => bad
  end.

(* asn1.walk : generic reader walk over arbitrary bytes; result = number of values visited *)
Fixpoint walk (fuel : nat) (view : bytes) : res Z :=
  match view with
  | [] => Ok 0
  | _ :: _ =>
    match fuel with
    | O => Raise OutOfFuel
    | S f =>
      let* h := peek_header view in
      let t := h_tag h in
      let univ_prim := (t_class t =? c_class_universal) && negb (t_cons t) in
      let* (n, rest) :=
        if univ_prim && (t_num t =? c_tag_integer) then let* (_, r) := read_integer view None None in Ok (0, r)
        else if univ_prim && (t_num t =? c_tag_oid) then let* (_, r) := read_object_identifier view None None in Ok (0, r)
        else if univ_prim && (t_num t =? c_tag_boolean) then let* (_, r) := read_boolean view None None in Ok (0, r)
        else if univ_prim && (t_num t =? c_tag_utf8) then let* (_, r) := read_utf8_string view None None in Ok (0, r)
        else if t_cons t then let* (inner, r) := read_sequence view None (Some h) in let* k := walk f inner in Ok (k, r)
        else let* (_, r) := read_octet_string view None (Some h) in Ok (0, r) in
      let* m := walk f rest in Ok (n + 1 + m)
    end
  end.
Definition u_walk (a : val) : val :=
  match a with
  | VB b => vres VI (walk (List.length b) b)
  | _ => bad
  end.

(* asn1.strict : the strict DER reader of Spec/DerSpec.v (calibrates the Python oracle of the check) *)
Fixpoint val_of_tree (x : asn1) : val :=
  match x with
  | Prim t c => VL [VI (t_class t); VI (t_num t); vbool (t_cons t); VB c]
  | Cons t l => VL [VI (t_class t); VI (t_num t); vbool (t_cons t); VL (map val_of_tree l)]
  | Raw b => VB b
  end.
Definition u_strict (a : val) : val :=
  match a with
  | VB b => match strict_parse b with Some l => VL (map val_of_tree l) | None => VN end
  | _ => bad
  end.

(* ---- C06 units *)
Definition val_of_kid (k : key_identifier) : val :=
  VL [VI (kid_version k); VI (kid_flags k); VI (kid_l0 k); VI (kid_l1 k); VI (kid_l2 k); VB (kid_rkid k);
      VB (kid_key_info k); VS (kid_domain k); VS (kid_forest k)].
Definition kid_of_val (v : val) : option key_identifier :=
  match v with
  | VL [VI a; VI b; VI c; VI d; VI e; VB r; VB ki; VS dn; VS fn] =>
    Some {| kid_version := a; kid_flags := b; kid_l0 := c; kid_l1 := d; kid_l2 := e; kid_rkid := r;
            kid_key_info := ki; kid_domain := dn; kid_forest := fn |}
  | _ => None
  end.
Definition obytes_of_val (v : val) : option (option bytes) :=
  match v with VN => Some None | VB b => Some (Some b) | _ => None end.
Definition val_of_blob (b : blob) : val :=
  VL [val_of_kid (b_key_identifier b); VS (b_sid b); VB (b_enc_cek b); vzs (b_enc_cek_algorithm b);
      vopt VB (b_enc_cek_parameters b); VB (b_enc_content b); vzs (b_enc_content_algorithm b);
      vopt VB (b_enc_content_parameters b)].
Definition blob_of_vals (l : list val) : option blob :=
  match l with
  | [kv; VS sid; VB cek; VL a1; p1; VB content; VL a2; p2] =>
    match kid_of_val kv, zs_of_vals a1, obytes_of_val p1, zs_of_vals a2, obytes_of_val p2 with
    | Some k, Some o1, Some q1, Some o2, Some q2 =>
      Some {| b_key_identifier := k; b_sid := sid; b_enc_cek := cek; b_enc_cek_algorithm := o1; b_enc_cek_parameters := q1;
              b_enc_content := content; b_enc_content_algorithm := o2; b_enc_content_parameters := q2 |}
    | _, _, _, _, _ => None
    end
  | _ => None
  end.
Definition u_blob_pack_unpack (a : val) : val :=
  match a with
  | VL [kv; s; c; a1; p1; ct; a2; p2; VI env] =>
    match blob_of_vals [kv; s; c; a1; p1; ct; a2; p2] with
    | Some b =>
      match blob_pack b (negb (env =? 0)) with
      | Ok d => VL [VB d; vres val_of_blob (blob_unpack d)]
      | Raise e => VL [VE e; VN]
      end
    | None => bad
    end
  | _ => bad
  end.
Definition u_blob_unpack (a : val) : val :=
  match a with
  | VB d =>
    match blob_unpack d with
    | Ok b => VL [val_of_blob b; vres VB (blob_pack b true); vres VB (blob_pack b false)]
    | Raise e => VE e
    end
  | _ => bad
  end.
Definition u_blob_emitted (a : val) : val :=
  match a with
  | VL [kv; VS sid; VB iv; VB cek; VB content] =>
    match kid_of_val kv with
    | Some k => vres VB (let* b := encrypt_blob_fields k sid iv cek content in blob_pack b true)
    | None => bad
    end
  | _ => bad
  end.
(* pkcs7.kekid : [key_identifier, date | None, [oid, attr | None] | None] -> [bytes, fields read back] *)
Definition val_of_kekid (k : kek_identifier) : val :=
  VL [VB (kekid_key_identifier k); vopt VS (kekid_date k);
      vopt (fun o => VL [vzs (oka_id o); vopt VB (oka_attr o)]) (kekid_other k)].
Definition u_kekid (a : val) : val :=
  match a with
  | VL [VB ki; d; o] =>
    let date := match d with VS s => Some (Some s) | VN => Some None | _ => None end in
    let other := match o with
                 | VN => Some None
                 | VL [VL arcs; at_] =>
                   match zs_of_vals arcs, obytes_of_val at_ with
                   | Some zs, Some q => Some (Some {| oka_id := zs; oka_attr := q |})
                   | _, _ => None
                   end
                 | _ => None
                 end in
    match date, other with
    | Some dt, Some ot =>
      match (let* t := KEKIdentifier_pack {| kekid_key_identifier := ki; kekid_date := dt; kekid_other := ot |} in encode t) with
      | Ok bs => VL [VB bs; vres (fun p : kek_identifier * bytes => VL [val_of_kekid (fst p); VB (snd p)]) (KEKIdentifier_unpack bs)]
      | Raise e => VL [VE e; VN]
      end
    | _, _ => bad
    end
  | _ => bad
  end.

Open Scope string_scope.
Definition units : list (string * (val -> val)) :=
  [ ("echo", fun v => v); ("asn1.int", u_int); ("asn1.int_range", u_int_range); ("asn1.int_content", u_int_content);
    ("asn1.tlv", u_tlv); ("asn1.oid", u_oid); ("asn1.tree", u_tree); ("asn1.walk", u_walk); ("asn1.strict", u_strict);
    ("blob.pack_unpack", u_blob_pack_unpack); ("blob.unpack", u_blob_unpack); ("blob.emitted", u_blob_emitted); ("pkcs7.kekid", u_kekid) ].

Fixpoint lookup (n : string) (l : list (string * (val -> val))) : option (val -> val) :=
  match l with
  | [] => None
  | (k, f) :: r => if String.eqb n k then Some f else lookup n r
  end.
Definition run (name : string) (arg : val) : val :=
  match lookup name units with Some f => f arg | None => VE KeyError end.
