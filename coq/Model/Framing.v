(* _rpc/_client.py: RpcClient._create_request and _prepare_pdu (request framing, what is handed
   to the security context), and _client._process_get_key_result's padding strip.
   All padding / offset arithmetic and the slice shapes are regenerated kernels (gen/K_client.v);
   the Request codec is Model/Request.v (property C12). The security context is a parameter. *)
From V Require Import Prelude.Base Prelude.PyInt Prelude.PySlice gen.K_client gen.C_client gen.C_rpc.
From V Require Import Model.Pdu Model.Request.

Definition zeros (n : Z) : bytes := repeat 0 (Z.to_nat n).

(* get_empty_trailer(pad_length) of the authentication provider: provider id, PKT_PRIVACY, zeroed signature *)
Record provider := { pv_type : Z; pv_sig_len : Z }.

Definition create_pdu_header (packet_type auth_len call_id flags : Z) : pdu_header :=
  {| h_version := 5; h_version_minor := 0; h_packet_type := packet_type;
     h_packet_flags := Z.lor flags c_PFC_FIRST_LAST; h_data_rep := data_rep_default;
     h_frag_len := 0; h_auth_len := auth_len; h_call_id := call_id |}.

(* _create_request(context_id, opnum, stub_data, verification_trailer=vt) *)
Definition create_request (auth : option provider) (context_id opnum : Z) (stub : bytes) (vt : option bytes)
  : request * option (Z * Z) :=
  let stub1 := match vt with
               | Some v => stub ++ zeros (k_vt_pad (len stub)) ++ v
               | None => stub
               end in
  match auth with
  | Some pv =>
    let pad := k_auth_pad (len stub1) in
    let stub2 := stub1 ++ zeros pad in
    let st := {| st_type := pv_type pv; st_level := c_PKT_PRIVACY; st_pad_length := pad; st_context_id := 0;
                 st_auth_value := zeros (pv_sig_len pv) |} in
    ({| rq_header := create_pdu_header c_PT_REQUEST (len (st_auth_value st)) 1 c_PFC_NONE;
        rq_sec_trailer := Some st; rq_alloc_hint := k_alloc_hint (len stub2); rq_context_id := context_id;
        rq_opnum := opnum; rq_obj := None; rq_stub_data := stub2 |}, Some (k_enc_off (len stub2)))
  | None =>
    ({| rq_header := create_pdu_header c_PT_REQUEST 0 1 c_PFC_NONE;
        rq_sec_trailer := None; rq_alloc_hint := k_alloc_hint (len stub1); rq_context_id := context_id;
        rq_opnum := opnum; rq_obj := None; rq_stub_data := stub1 |}, None)
  end.

(* what _prepare_pdu hands to self._auth.wrap *)
Record wrap_args := { wa_header : bytes; wa_body : bytes; wa_trailer : bytes; wa_sign : bool }.

(* the security context's wrap: (header, body, trailer, sign_header) -> (sealed body, signature) *)
Definition wrap_fn := bytes -> bytes -> bytes -> bool -> bytes * bytes.

Definition set_slice (b : bytes) (lo hi : Z) (v : bytes) : bytes :=
  slice None (Some lo) b ++ v ++ slice (Some hi) None b.

(* _prepare_pdu(pdu, encrypt_offsets): the bytes that go on the wire, and the wrap arguments if any *)
Definition prepare_pdu (wrap : wrap_fn) (auth : bool) (sign_header : bool) (packed : bytes) (offs : option (Z * Z))
  : res (bytes * option wrap_args) :=
  let '(lo, hi, width) := k_fraglen_patch in
  let* fl := to_bytes_le (Z.to_nat width) (len packed) in
  let b := set_slice packed lo hi fl in
  match auth, offs with
  | true, Some (o0, o1) =>
    let header := slice None (Some o0) b in
    let body := slice (Some o0) (Some o1) b in
    let trailer := slice (Some o1) (Some (o1 + k_wrap_trailer_len)) b in
    let '(sealed, signature) := wrap header body trailer sign_header in
    Ok (header ++ sealed ++ trailer ++ signature,
        Some {| wa_header := header; wa_body := body; wa_trailer := trailer; wa_sign := sign_header |})
  | _, _ => Ok (b, None)
  end.

Definition send_request (wrap : wrap_fn) (auth : option provider) (sign_header : bool)
    (context_id opnum : Z) (stub : bytes) (vt : option bytes) : res (bytes * option wrap_args) :=
  let '(req, offs) := create_request auth context_id opnum stub vt in
  prepare_pdu wrap (match auth with Some _ => true | None => false end) sign_header (request_pack req) offs.

(* _process_get_key_result: the stub with the declared auth padding removed *)
Definition strip_auth_pad (stub : bytes) (pad_length : option Z) : bytes :=
  let n := len stub in
  let n' := match pad_length with
            | Some p => if k_strip_test true p then k_strip_len n p else n
            | None => if k_strip_test false 0 then n else n
            end in
  slice None (Some n') stub.
