(* _rpc/_client.py: RpcClient._process_response -- which bytes of a reply are handed to the
   security context's unwrap, what is written back, and which replies are accepted. The guard,
   the trailer offset, the slice shapes and the rejection test are regenerated kernels. *)
From V Require Import Prelude.Base Prelude.PyInt Prelude.PySlice gen.K_client gen.C_client gen.C_rpc.
From V Require Import Model.Pdu Model.Request Model.RpcDispatch.

Definition unwrap_fn := bytes -> bytes -> bytes -> bytes -> bool -> res bytes.

(* bytearray slice assignment b[lo:hi] = v with CPython's index normalisation (hi < lo replaces nothing at lo) *)
Definition assign_slice (b : bytes) (lo hi : Z) (v : bytes) : bytes :=
  let n := len b in
  let a := norm n lo in
  let z := Z.max a (norm n hi) in
  firstn (Z.to_nat a) b ++ v ++ skipn (Z.to_nat z) b.

Record unwrap_args := { ua_header : bytes; ua_body : bytes; ua_trailer : bytes; ua_signature : bytes; ua_sign : bool }.

Definition unwrap_slices (hdr : pdu_header) (o0 : Z) (sign : bool) (resp : bytes) : unwrap_args :=
  let off := k_sec_trailer_offset (h_frag_len hdr) (h_auth_len hdr) in
  {| ua_header := slice None (Some o0) resp;
     ua_body := slice (Some o0) (Some off) resp;
     ua_trailer := slice (Some off) (Some (off + k_unwrap_trailer_len)) resp;
     ua_signature := slice (Some (off + k_unwrap_trailer_len)) None resp;
     ua_sign := sign |}.

(* the reply bytes after the unwrap step (or unchanged when the guard is false) *)
Definition unseal (unwrap : unwrap_fn) (auth : bool) (offs : option (Z * Z)) (sign : bool) (hdr : pdu_header) (resp : bytes)
  : res bytes :=
  match offs with
  | Some (o0, _) =>
    if k_unwrap_guard auth true (h_auth_len hdr) then
      let a := unwrap_slices hdr o0 sign resp in
      let* dec := unwrap (ua_header a) (ua_body a) (ua_trailer a) (ua_signature a) (ua_sign a) in
      Ok (assign_slice resp o0 (k_sec_trailer_offset (h_frag_len hdr) (h_auth_len hdr)) dec)
    else Ok resp
  | None => if k_unwrap_guard auth false (h_auth_len hdr) then Raise TypeError else Ok resp
  end.

(* _process_response for resp_type = Response: unseal, PDU.unpack (EVERY registered type is decoded first, RpcDispatch.pdu_unpack with
   the loop fuel S (length data) that Units_rpc.fuel_for uses), then the class checks in the order of the source (BindNak, Fault,
   `type(pdu_resp) is not resp_type`), then the rejection of an unsealed reply to a sealed request. *)
Definition process_response (unwrap : unwrap_fn) (auth : bool) (offs : option (Z * Z)) (sign : bool)
    (hdr : pdu_header) (resp : bytes) : res response :=
  let* clear := unseal unwrap auth offs sign hdr resp in
  let* (p, _ticks) := pdu_unpack (S (length clear)) clear in
  match p with
  | PBindNak _ => Raise ValueError
  | PFault _ => Raise ValueError
  | PResponse r =>
    if k_reject_unsealed auth (match offs with Some _ => true | None => false end) (h_auth_len hdr) then Raise ValueError
    else Ok r
  | _ => Raise ValueError
  end.

(* _process_response for an arbitrary resp_type (a PDU class := its packet type): what _send_pdu hands back during bind()
   (resp_type = BindAck / AlterContextResponse) as well as for a request.  Same order of checks: BindNak, Fault,
   `type(pdu_resp) is not resp_type`, unsealed reply to a sealed request. *)
Definition pdu_ptype (p : pdu) : Z :=
  match p with
  | PRequest _ => c_PT_REQUEST | PResponse _ => c_PT_RESPONSE | PFault _ => c_PT_FAULT
  | PBind _ => c_PT_BIND | PBindAck _ => c_PT_BIND_ACK | PBindNak _ => c_PT_BIND_NAK
  | PAlterContext _ => c_PT_ALTER_CONTEXT | PAlterContextResp _ => c_PT_ALTER_CONTEXT_RESP
  end.
Definition class_check (resp_type : Z) (p : pdu) : res pdu :=
  match p with
  | PBindNak _ => Raise ValueError
  | PFault _ => Raise ValueError
  | _ => if negb (pdu_ptype p =? resp_type) then Raise ValueError else Ok p
  end.
Definition process_pdu_as (resp_type : Z) (unwrap : unwrap_fn) (auth : bool) (offs : option (Z * Z)) (sign : bool)
    (hdr : pdu_header) (resp : bytes) : res pdu :=
  let* clear := unseal unwrap auth offs sign hdr resp in
  let* (p, _ticks) := pdu_unpack (S (length clear)) clear in
  let* q := class_check resp_type p in
  if k_reject_unsealed auth (match offs with Some _ => true | None => false end) (h_auth_len hdr) then Raise ValueError
  else Ok q.
