(* Data types shared by the model files. UUIDs are their 16 `bytes_le` bytes (wire order);
   Python str is a list of code points. *)
From V Require Export Prelude.Base.

Definition pystr := list Z.

Record envelope := {
  gke_version : Z; gke_flags : Z; gke_l0 : Z; gke_l1 : Z; gke_l2 : Z;
  gke_rkid : bytes;
  gke_kdf_alg : pystr; gke_kdf_params : bytes;
  gke_secret_alg : pystr; gke_secret_params : bytes;
  gke_priv_len : Z; gke_pub_len : Z;
  gke_domain : pystr; gke_forest : pystr;
  gke_l1_key : bytes; gke_l2_key : bytes }.

Record key_identifier := {
  kid_version : Z; kid_flags : Z; kid_l0 : Z; kid_l1 : Z; kid_l2 : Z;
  kid_rkid : bytes; kid_key_info : bytes; kid_domain : pystr; kid_forest : pystr }.

Definition is_public_key_flags (flags : Z) : bool := negb (Z.land flags 1 =? 0).
