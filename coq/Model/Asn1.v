(* _asn1.py: DER TLV packing, header reading, INTEGER / OID / BOOLEAN / string primitives, the
   ASN1Reader cursor (as functions view -> Ok (value, rest)) and the ASN1Writer (as a value tree).
   Thresholds, masks and shifts are the regenerated kernels of gen/K_asn1.v; tag numbers come from
   gen/C_asn1.v. Decoders are total on arbitrary byte lists and raise the exception class the Python
   raises. No proofs in this file. *)
From V Require Import Prelude.Base Prelude.PyInt Prelude.PySlice Prelude.PyStr gen.K_asn1 gen.C_asn1.

Record tag := mk_tag { t_class : Z; t_num : Z; t_cons : bool }.
Definition tag_eqb (a b : tag) : bool :=
  (t_class a =? t_class b) && (t_num a =? t_num b) && Bool.eqb (t_cons a) (t_cons b).
Definition universal_tag (n : Z) (c : bool) : tag := mk_tag c_class_universal n c.
Record header := mk_header { h_tag : tag; h_tlen : Z; h_len : Z }.

(* bytearray.append(v): ValueError unless 0 <= v < 256 *)
Definition byte_ok (z : Z) : res Z := if (0 <=? z) && (z <? 256) then Ok z else Raise ValueError.
(* iterations of a `while n: ... n >>= k` loop are bounded by the bit length *)
Definition bits_fuel (z : Z) : nat := S (Z.to_nat (Z.log2 z)).

(* ---- _pack_asn1_octet_number: base-128 digits, least significant first (the Python appends them in
   this order and reverses at the end); the continuation bit is set on every octet but the first
   appended one. A negative num never reaches 0 (>> is arithmetic): OutOfFuel. *)
Fixpoint b128_digits (fuel : nat) (num : Z) (first : bool) : res (list Z) :=
  if k_b128_more num then
    match fuel with
    | O => Raise OutOfFuel
    | S f =>
      let octet_value := k_b128_low num in
      let octet_value := if first then octet_value else k_b128_cont octet_value in
      let* r := b128_digits f (k_b128_shift num) false in Ok (octet_value :: r)
    end
  else Ok [].
Definition pack_octet_number (num : Z) : res bytes :=
  let* d := b128_digits (bits_fuel num) num true in Ok (rev d).

(* ---- _unpack_asn1_octet_number: returns (value, octets used); the _rest variant also returns the
   bytes after the number (= data[idx:]). *)
Fixpoint unpack_octet_number_rest (data : bytes) (i idx : Z) : res (Z * Z * bytes) :=
  match data with
  | [] => Raise NotEnoughData
  | element :: r =>
    let i' := k_b128_acc i element in
    if Z.land element 128 =? 0 then Ok (i', idx + 1, r) else unpack_octet_number_rest r i' (idx + 1)
  end.
Definition unpack_octet_number (data : bytes) : res (Z * Z) :=
  let* (i, idx, _) := unpack_octet_number_rest data 0 0 in Ok (i, idx).

(* ---- _pack_asn1 *)
Fixpoint len_octets (fuel : nat) (length : Z) : res (list Z) :=     (* least significant first *)
  if k_der_len_more length then
    match fuel with
    | O => Raise OutOfFuel
    | S f => let* r := len_octets f (k_der_len_shift length) in Ok (k_der_len_octet length :: r)
    end
  else Ok [].

Definition pack_ident (tag_class : Z) (constructed : bool) (tag_number : Z) : res bytes :=
  if k_der_class_bad tag_class then Raise ValueError else
  let io := k_der_ident_cons (k_der_ident_class tag_class) constructed in
  if k_der_low_tag tag_number then
    let* b := byte_ok (k_der_ident_low io tag_number) in Ok [b]
  else
    let* b := byte_ok (k_der_ident_high io) in
    let* n := pack_octet_number tag_number in Ok (b :: n).
Definition pack_length (length : Z) : res bytes :=
  if k_der_short_len length then let* b := byte_ok length in Ok [b]
  else
    let* lo := len_octets (bits_fuel length) length in
    let* b := byte_ok (k_der_len_first (len lo)) in Ok (b :: rev lo).
Definition pack_asn1 (tag_class : Z) (constructed : bool) (tag_number : Z) (data : bytes) : res bytes :=
  let* ident := pack_ident tag_class constructed tag_number in
  let* lenb := pack_length (len data) in
  Ok (ident ++ lenb ++ data).
Definition pack_tlv (t : tag) (data : bytes) : res bytes := pack_asn1 (t_class t) (t_cons t) (t_num t) data.

(* ---- _read_asn1_header *)
Definition universal_ok (n : Z) : bool := existsb (Z.eqb n) c_universal_numbers.   (* TypeTagNumber(n) *)
(* for idx in range(1, length_octets): n octets still to read, view = view[idx:] *)
Fixpoint read_len_octets (n : nat) (view : bytes) (length_octets idx length : Z) : res Z :=
  match n with
  | O => Ok length
  | S n' =>
    match view with
    | [] => Raise NotEnoughData
    | octet_val :: r => read_len_octets n' r length_octets (idx + 1) (k_hdr_len_acc length octet_val length_octets idx)
    end
  end.
Definition read_asn1_header (view : bytes) : res header :=
  match view with
  | [] => Raise NotEnoughData
  | octet1 :: r1 =>
    let tag_class := k_hdr_class octet1 in
    let constructed := negb (k_hdr_cons octet1 =? 0) in
    let tag_number := k_hdr_num octet1 in
    let* (tag_number, tag_octets, view2) :=
      if k_hdr_high tag_number
      then let* (n, c, rest) := unpack_octet_number_rest r1 0 0 in Ok (n, 1 + c, rest)
      else Ok (tag_number, 1, r1) in
    if (tag_class =? c_class_universal) && negb (universal_ok tag_number) then Raise ValueError else
    match view2 with
    | [] => Raise NotEnoughData
    | length :: r2 =>
      let t := mk_tag tag_class tag_number constructed in
      if k_hdr_indef length then Raise ValueError
      else if negb (k_hdr_long length =? 0) then
        let length_octets := k_hdr_len_octets 1 length in
        let* l := read_len_octets (Z.to_nat (length_octets - 1)) r2 length_octets 1 0 in
        Ok (mk_header t (tag_octets + length_octets) l)
      else Ok (mk_header t (tag_octets + 1) length)
    end
  end.

(* ---- _validate_tag: (value octets, consumed) *)
Definition validate_tag (view : bytes) (expected : option tag) (type_tag : tag) (hdr : option header) : res (bytes * Z) :=
  let* h := match hdr with Some h => Ok h | None => read_asn1_header view end in
  let expected := match expected with
                  | Some e => e
                  | None => match hdr with Some h' => h_tag h' | None => type_tag end
                  end in
  if negb (tag_eqb (h_tag h) expected) then Raise ValueError else
  let v := slice (Some (h_tlen h)) None view in
  if k_vt_short (len v) (h_len h) then Raise NotEnoughData else
  Ok (slice None (Some (h_len h)) v, h_tlen h + h_len h).

(* ---- INTEGER *)
Fixpoint int_mag (fuel : nat) (is_negative : bool) (limit value : Z) : res (list Z) :=   (* b_int before reverse() *)
  if k_int_more value limit then
    match fuel with
    | O => Raise OutOfFuel
    | S f =>
      let val := k_int_digit value in
      let val := if is_negative then k_int_compl val else val in
      let* r := int_mag f is_negative limit (k_int_shift value) in Ok (val :: r)
    end
  else Ok [k_int_top value is_negative].
Fixpoint int_incr (l : list Z) : list Z :=    (* for idx, val in enumerate(b_int): carry from the least significant octet *)
  match l with
  | [] => []
  | val :: r => if k_int_carry val then (val + 1) :: r else 0 :: int_incr r
  end.
Definition pack_int_content (value : Z) : res bytes :=
  let is_negative := k_int_is_neg value in
  let value := if is_negative then - value else value in
  let limit := if is_negative then k_int_limit_neg else k_int_limit_pos in
  let* l := int_mag (bits_fuel value) is_negative limit value in
  let l := if is_negative then int_incr l else l in
  let l := if is_negative && (last l 0 =? 127) then l ++ [255] else l in
  Ok (rev l).
Definition opt_tag (t : option tag) (d : tag) : tag := match t with Some x => x | None => d end.
Definition pack_integer (value : Z) (t : option tag) : res bytes :=
  let* c := pack_int_content value in pack_tlv (opt_tag t (universal_tag c_tag_integer false)) c.

(* reader: complement, add one with carry from the last octet towards the first, fold big-endian *)
Fixpoint int_carry (l : list Z) : list Z :=   (* l = reversed b_int *)
  match l with
  | [] => []
  | v :: r => if v =? 255 then 0 :: int_carry r else (v + 1) :: r
  end.
Definition read_int_content (raw : bytes) : res Z :=
  match raw with
  | [] => Raise ValueError
  | b0 :: _ =>
    let is_negative := negb (Z.land b0 128 =? 0) in
    let b_int := if is_negative then rev (int_carry (rev (map (fun x => 255 - x) raw))) else raw in
    let int_value := fold_left k_int_fold b_int 0 in
    Ok (if is_negative then k_int_negate int_value else int_value)
  end.

(* ---- OBJECT IDENTIFIER (arcs as integers; the dotted string is the Python-side representation) *)
Fixpoint oid_more_digits (fuel : nat) (cmp_data : Z) : res (list Z) :=
  if k_oid_more cmp_data then
    match fuel with
    | O => Raise OutOfFuel
    | S f => let c := k_oid_shift cmp_data in let* r := oid_more_digits f c in Ok (k_oid_cont c :: r)
    end
  else Ok [].
Definition oid_arc (cmp_data : Z) : res (list Z) :=      (* most significant first *)
  let* r := oid_more_digits (bits_fuel cmp_data) cmp_data in Ok (rev (k_oid_low cmp_data :: r)).
Fixpoint map_res {A B} (f : A -> res B) (l : list A) : res (list B) :=
  match l with [] => Ok [] | x :: r => let* y := f x in let* ys := map_res f r in Ok (y :: ys) end.
Definition encode_oid (arcs : list Z) : res bytes :=
  match arcs with
  | [] => Raise ValueError                 (* int("") *)
  | [a] => if a >? 39 then Raise ValueError else Raise IndexError   (* cmps[0] > 39 is tested before cmps[1] is indexed *)
  | a :: b :: rest =>
    if (a >? 39) || (b >? 39) then Raise ValueError else
    let* ds := map_res oid_arc ((40 * a + b) :: rest) in Ok (concat ds)
  end.
Fixpoint read_oid_arcs (fuel : nat) (raw : bytes) : res (list Z) :=
  match raw with
  | [] => Ok []
  | _ :: _ =>
    match fuel with
    | O => Raise OutOfFuel
    | S f => let* (v, _, rest) := unpack_octet_number_rest raw 0 0 in
             let* r := read_oid_arcs f rest in Ok (v :: r)
    end
  end.
Definition read_oid_content (raw : bytes) : res (list Z) :=
  match raw with
  | [] => Raise ValueError
  | first_element :: r =>
    let second_element := k_oid_second first_element in
    let* more := read_oid_arcs (length r) r in
    Ok ((first_element - second_element) / 40 :: second_element :: more)
  end.

(* ---- writers of the remaining primitives *)
Definition pack_boolean (v : bool) (t : option tag) : res bytes :=
  pack_tlv (opt_tag t (universal_tag c_tag_boolean false)) (if v then [255] else [0]).
Definition pack_enumerated (v : Z) (t : option tag) : res bytes :=
  pack_integer v (Some (opt_tag t (universal_tag c_tag_enumerated false))).
Definition pack_octet_string (b : bytes) (t : option tag) : res bytes :=
  pack_tlv (opt_tag t (universal_tag c_tag_octet_string false)) b.
Definition pack_object_identifier (arcs : list Z) (t : option tag) : res bytes :=
  let* c := encode_oid arcs in pack_tlv (opt_tag t (universal_tag c_tag_oid false)) c.
Definition pack_utf8_string (s : list Z) (t : option tag) : res bytes :=
  let* c := utf8_encode s in pack_tlv (opt_tag t (universal_tag c_tag_utf8 false)) c.
Definition pack_generalized_time (s : list Z) (t : option tag) : res bytes :=
  let* c := utf8_encode s in pack_tlv (opt_tag t (universal_tag c_tag_gentime false)) c.

(* ---- ASN1Reader: every read returns the value and the new view (view[consumed:]) *)
Definition reader_bool (view : bytes) : bool := negb (Nat.eqb (length view) 0).
Definition peek_header (view : bytes) : res header := read_asn1_header view.
Definition skip_value (view : bytes) (h : header) : bytes := slice (Some (h_tlen h + h_len h)) None view.
Definition get_remaining_data (view : bytes) : bytes * bytes := (view, []).
Definition advance (view : bytes) (consumed : Z) : bytes := slice (Some consumed) None view.

Definition read_raw (type_tag : tag) (view : bytes) (t : option tag) (h : option header) : res (bytes * bytes) :=
  let* (raw, consumed) := validate_tag view t type_tag h in Ok (raw, advance view consumed).
Definition read_octet_string := read_raw (universal_tag c_tag_octet_string false).
Definition read_sequence := read_raw (universal_tag c_tag_sequence true).
Definition read_set := read_raw (universal_tag c_tag_set true).
Definition read_boolean (view : bytes) (t : option tag) (h : option header) : res (bool * bytes) :=
  let* (raw, rest) := read_raw (universal_tag c_tag_boolean false) view t h in
  Ok (existsb (fun x => negb (x =? 0)) raw, rest).
Definition read_integer (view : bytes) (t : option tag) (h : option header) : res (Z * bytes) :=
  let* (raw, consumed) := validate_tag view t (universal_tag c_tag_integer false) h in
  let* v := read_int_content raw in Ok (v, advance view consumed).
Definition read_enumerated (view : bytes) (t : option tag) (h : option header) : res (Z * bytes) :=
  let t' := match t with
            | Some x => x
            | None => match h with Some h' => h_tag h' | None => universal_tag c_tag_enumerated false end
            end in
  read_integer view (Some t') h.
Definition read_object_identifier (view : bytes) (t : option tag) (h : option header) : res (list Z * bytes) :=
  let* (raw, consumed) := validate_tag view t (universal_tag c_tag_oid false) h in
  let* v := read_oid_content raw in Ok (v, advance view consumed).
Definition read_utf8_string (view : bytes) (t : option tag) (h : option header) : res (list Z * bytes) :=
  let* (raw, consumed) := validate_tag view t (universal_tag c_tag_utf8 false) h in
  let* v := utf8_decode raw in Ok (v, advance view consumed).
Definition read_generalized_time (view : bytes) (t : option tag) (h : option header) : res (list Z * bytes) :=
  let* (raw, consumed) := validate_tag view t (universal_tag c_tag_gentime false) h in
  let* v := utf8_decode raw in Ok (v, advance view consumed).

(* ---- ASN1Writer as a value tree: push_sequence / push_set = Cons, write_X = Prim, write_raw = Raw *)
Inductive asn1 :=
| Prim (t : tag) (content : bytes)
| Cons (t : tag) (children : list asn1)
| Raw (b : bytes).
Fixpoint encode (x : asn1) : res bytes :=
  match x with
  | Prim t c => pack_tlv t c
  | Cons t l =>
    let* body := (fix enc_list (l : list asn1) : res bytes :=
                    match l with
                    | [] => Ok []
                    | y :: r => let* a := encode y in let* b := enc_list r in Ok (a ++ b)
                    end) l in
    pack_tlv t body
  | Raw b => Ok b
  end.
Fixpoint encode_list (l : list asn1) : res bytes :=
  match l with [] => Ok [] | y :: r => let* a := encode y in let* b := encode_list r in Ok (a ++ b) end.

Definition seq_tag : tag := universal_tag c_tag_sequence true.
Definition set_tag : tag := universal_tag c_tag_set true.
Definition a_seq (l : list asn1) : asn1 := Cons seq_tag l.
Definition a_set (l : list asn1) : asn1 := Cons set_tag l.
(* typed leaves: content octets computed by the primitive encoders *)
Definition a_int (z : Z) (t : option tag) : res asn1 :=
  let* c := pack_int_content z in Ok (Prim (opt_tag t (universal_tag c_tag_integer false)) c).
Definition a_oid (arcs : list Z) : res asn1 :=
  let* c := encode_oid arcs in Ok (Prim (universal_tag c_tag_oid false) c).
Definition a_octets (b : bytes) (t : option tag) : asn1 := Prim (opt_tag t (universal_tag c_tag_octet_string false)) b.
Definition a_utf8 (s : list Z) : res asn1 :=
  let* c := utf8_encode s in Ok (Prim (universal_tag c_tag_utf8 false) c).
