(* Dispatch table of model units for the correspondence check (val -> val). *)
From Coq Require Import String.
From V Require Import Prelude.Base Prelude.Val Prelude.TrueDiv gen.Kernels.
From V Require Import Model.Interval.
Open Scope string_scope.

Definition u_interval (a : val) : val :=
  match a with
  | VI ns => let '(l0, l1, l2) := interval_of_time_ns ns in VL [VI l0; VI l1; VI l2]
  | _ => bad
  end.
Definition u_truediv (a : val) : val :=
  match a with
  | VL [VI x; VI y] => VL [VI (py_truediv_trunc x y); VI (py_truediv_ceil x y)]
  | _ => bad
  end.

Definition units : list (string * (val -> val)) :=
  [ ("interval", u_interval); ("truediv", u_truediv) ].

Fixpoint lookup (n : string) (l : list (string * (val -> val))) : option (val -> val) :=
  match l with
  | [] => None
  | (k, f) :: r => if String.eqb n k then Some f else lookup n r
  end.
Definition run (name : string) (arg : val) : val :=
  match lookup name units with Some f => f arg | None => VE KeyError end.
