(* _epm.py: tower floors (known / unknown protocols), build_tcpip_tower, EptMap, EptMapResult; and
   _client._process_ept_map_result.  A known floor keeps the raw lhs/rhs after unpack but packs from
   its typed fields; fl_lhs/fl_rhs are that raw cache.  FloorProtocol has a _missing_ hook (every
   octet is a member).  No proofs in this file. *)
From V Require Export Model.Bind.

Inductive floor_kind :=
| FK_Generic
| FK_TCP (port : Z)
| FK_IP (addr : Z)
| FK_RPC_CO (version_minor : Z)
| FK_UUID (u : bytes) (version version_minor : Z).

Record floor := { fl_kind : floor_kind; fl_protocol : Z; fl_lhs : bytes; fl_rhs : bytes }.

(* Floor.pack *)
Definition floor_generic_pack (protocol : Z) (lhs rhs : bytes) : bytes :=
  concat [ le 2 (len lhs + 1); le 1 protocol; lhs; le 2 (len rhs); rhs ].

Definition floor_protocol (f : floor) : Z :=
  match fl_kind f with
  | FK_Generic => fl_protocol f
  | FK_TCP _ => c_FLOOR_TCP | FK_IP _ => c_FLOOR_IP | FK_RPC_CO _ => c_FLOOR_RPC_CO | FK_UUID _ _ _ => c_FLOOR_UUID
  end.
Definition floor_lhs (f : floor) : bytes :=
  match fl_kind f with
  | FK_Generic => fl_lhs f
  | FK_UUID u v _ => u ++ le 2 v
  | _ => []
  end.
Definition floor_rhs (f : floor) : bytes :=
  match fl_kind f with
  | FK_Generic => fl_rhs f
  | FK_TCP port => be 2 port
  | FK_IP addr => be 4 addr
  | FK_RPC_CO vm => le 2 vm
  | FK_UUID _ _ vm => le 2 vm
  end.
Definition floor_pack (f : floor) : bytes := floor_generic_pack (floor_protocol f) (floor_lhs f) (floor_rhs f).

Definition floor_unpack (view : bytes) : res floor :=
  let lhs_len := le_val (slice None (Some 2) view) in
  let* proto := index view 2 in
  let lhs := slice (Some 3) (Some (lhs_len + 2)) view in
  let offset := k_floor_offset lhs_len in
  let rhs_len := le_val (slice (Some offset) (Some (offset + 2)) view) in
  let rhs := slice (Some (offset + 2)) (Some (offset + rhs_len + 2)) view in
  let* kind :=
    if proto =? c_FLOOR_TCP then Ok (FK_TCP (be_val rhs))
    else if proto =? c_FLOOR_IP then Ok (FK_IP (be_val rhs))
    else if proto =? c_FLOOR_RPC_CO then Ok (FK_RPC_CO (le_val rhs))
    else if proto =? c_FLOOR_UUID then
      let* u := uuid_of_bytes_le (slice None (Some 16) lhs) in
      Ok (FK_UUID u (le_val (slice (Some 16) (Some 18) lhs)) (le_val rhs))
    else Ok FK_Generic in
  Ok {| fl_kind := kind; fl_protocol := proto; fl_lhs := lhs; fl_rhs := rhs |}.

Definition floor_norm (f : floor) : floor :=
  {| fl_kind := fl_kind f; fl_protocol := floor_protocol f; fl_lhs := floor_lhs f; fl_rhs := floor_rhs f |}.

Definition wf_floor (f : floor) : bool :=
  in_range 2 (len (floor_lhs f) + 1) && in_range 2 (len (floor_rhs f)) && wfb (floor_lhs f) && wfb (floor_rhs f)
  && match fl_kind f with
     | FK_Generic => in_range 1 (fl_protocol f) && negb (mem (fl_protocol f) c_FLOOR_registry)
     | FK_TCP port => in_range 2 port
     | FK_IP addr => in_range 4 addr
     | FK_RPC_CO vm => in_range 2 vm
     | FK_UUID u v vm => wf_uuid u && in_range 2 v && in_range 2 vm
     end.

(* a known floor as its constructor leaves it: protocol = the class default, empty raw caches *)
Definition known_floor (k : floor_kind) : floor :=
  let f := {| fl_kind := k; fl_protocol := 0; fl_lhs := []; fl_rhs := [] |} in
  {| fl_kind := k; fl_protocol := floor_protocol f; fl_lhs := []; fl_rhs := [] |}.
Definition build_tcpip_tower (service data_rep : syntax_id) (port addr : Z) : list floor :=
  [ known_floor (FK_UUID (sy_uuid service) (sy_version service) (sy_version_minor service));
    known_floor (FK_UUID (sy_uuid data_rep) (sy_version data_rep) (sy_version_minor data_rep));
    known_floor (FK_RPC_CO 0); known_floor (FK_TCP port); known_floor (FK_IP addr) ].

(* the floor loop shared by EptMap.unpack and EptMapResult.unpack:
   for _ in range(floor_len): floor = Floor.unpack(view); view = view[len(lhs)+len(rhs)+5:]; tower.append(floor) *)
Definition floors_unpack (fuel : nat) (floor_len : Z) (view : bytes) : res ((bytes * list floor) * Z) :=
  for_range fuel floor_len
    (fun '(view, acc) =>
       let* f := floor_unpack view in
       Ok ((slice (Some (len (fl_lhs f) + len (fl_rhs f) + 5)) None view, acc ++ [f]), 0))
    (view, []) 0.

Definition tower_bytes (t : list floor) : bytes := concat [ le 2 (len t); concat (map floor_pack t) ].

Definition entry_handle_pack (h : option (Z * bytes)) : bytes :=
  match h with Some (a, u) => le 4 a ++ u | None => repeat 0 20 end.
Definition entry_handle_unpack (view : bytes) : res (option (Z * bytes)) :=
  let b_entry_handle := slice None (Some 20) view in
  if bytes_eqb b_entry_handle (repeat 0 20) then Ok None
  else let* u := uuid_of_bytes_le (slice (Some 4) (Some 20) view) in
       Ok (Some (le_val (slice None (Some 4) view), u)).
Definition wf_entry_handle (h : option (Z * bytes)) : bool :=
  match h with
  | Some (a, u) => in_range 4 a && wf_uuid u && negb (bytes_eqb (le 4 a ++ u) (repeat 0 20))
  | None => true
  end.

(* ---- EptMap ----------------------------------------------------------------------------------- *)
Record ept_map := { em_obj : option bytes; em_tower : list floor; em_entry_handle : option (Z * bytes); em_max_towers : Z }.

Definition ept_map_pack (m : ept_map) : bytes :=
  let b_tower := tower_bytes (em_tower m) in
  let tower_padding := k_eptmap_pack_pad (len b_tower) in
  concat [ [1; 0; 0; 0; 0; 0; 0; 0];
           match em_obj m with Some u => u | None => repeat 0 16 end;
           [2; 0; 0; 0; 0; 0; 0; 0];
           le 8 (len b_tower); le 4 (len b_tower); b_tower; repeat 0 (Z.to_nat tower_padding);
           entry_handle_pack (em_entry_handle m); le 4 (em_max_towers m) ].

Definition ept_map_unpack (fuel : nat) (view : bytes) : res (ept_map * Z) :=
  let b_obj := slice (Some 8) (Some 24) view in
  let* obj := if bytes_eqb b_obj (repeat 0 16) then Ok None
              else let* u := uuid_of_bytes_le b_obj in Ok (Some u) in
  let view := slice (Some 32) None view in
  let tower_length := le_val (slice None (Some 8) view) in
  let padding := k_eptmap_unpack_pad tower_length in
  let floor_len := le_val (slice (Some 12) (Some 14) view) in
  let view := slice (Some 14) None view in
  let* (s, ticks) := floors_unpack fuel floor_len view in
  let view := slice (Some padding) None (fst s) in
  let* entry_handle := entry_handle_unpack view in
  Ok ({| em_obj := obj; em_tower := snd s; em_entry_handle := entry_handle;
         em_max_towers := le_val (slice (Some 20) (Some 24) view) |}, ticks).

Definition ept_map_norm (m : ept_map) : ept_map :=
  {| em_obj := em_obj m; em_tower := map floor_norm (em_tower m); em_entry_handle := em_entry_handle m;
     em_max_towers := em_max_towers m |}.
Definition wf_ept_map (m : ept_map) : bool :=
  match em_obj m with Some u => wf_uuid u && negb (bytes_eqb u (repeat 0 16)) | None => true end
  && forallb wf_floor (em_tower m) && in_range 2 (len (em_tower m))
  && wf_entry_handle (em_entry_handle m) && in_range 4 (em_max_towers m).

(* ---- EptMapResult ----------------------------------------------------------------------------- *)
Record ept_map_result := { er_entry_handle : option (Z * bytes); er_towers : list (list floor); er_status : Z }.

(* b_tower of the enumerate loop: per tower max_count(8) length(4) bytes padding *)
Fixpoint towers_pack (n : Z) (idx : Z) (towers : list (list floor)) : bytes :=
  match towers with
  | [] => []
  | t :: r =>
    let b_t := tower_bytes t in
    let padding := k_eptres_pack_pad (len b_t) idx n in
    concat [ le 8 (len b_t); le 4 (len b_t); b_t; repeat 0 (Z.to_nat padding) ] ++ towers_pack n (idx + 1) r
  end.
Fixpoint referents_pack (idx : Z) (towers : list (list floor)) : bytes :=
  match towers with [] => [] | _ :: r => le 8 (idx + 3) ++ referents_pack (idx + 1) r end.

Definition ept_map_result_pack (m : ept_map_result) : bytes :=
  let n := len (er_towers m) in
  concat [ entry_handle_pack (er_entry_handle m); le 4 n; le 8 n; repeat 0 8; le 8 n;
           referents_pack 0 (er_towers m); towers_pack n 0 (er_towers m); le 4 (er_status m) ].

Definition ept_map_result_unpack (fuel : nat) (view : bytes) : res (ept_map_result * Z) :=
  let status := le_val (slice (Some (-4)) None view) in
  let* entry_handle := entry_handle_unpack view in
  let tower_count := le_val (slice (Some 40) (Some 48) view) in
  let tower_data_offset := k_referent_skip tower_count in
  if k_eptres_count_guard tower_data_offset (len view) then Raise ValueError else
  let view := slice (Some (48 + tower_data_offset)) None view in
  let* (s, ticks) := for_range fuel tower_count
      (fun '(view, towers) =>
         let tower_length := le_val (slice None (Some 8) view) in
         let padding := k_eptres_unpack_pad tower_length in
         let floor_len := le_val (slice (Some 12) (Some 14) view) in
         let view := slice (Some 14) None view in
         let* (fs, t) := floors_unpack fuel floor_len view in
         Ok ((slice (Some padding) None (fst fs), towers ++ [snd fs]), t))
      (view, []) 0 in
  Ok ({| er_entry_handle := entry_handle; er_towers := snd s; er_status := status |}, ticks).

Definition ept_map_result_norm (m : ept_map_result) : ept_map_result :=
  {| er_entry_handle := er_entry_handle m; er_towers := map (map floor_norm) (er_towers m); er_status := er_status m |}.
Definition wf_ept_map_result (m : ept_map_result) : bool :=
  wf_entry_handle (er_entry_handle m)
  && forallb (fun t => forallb wf_floor t && in_range 2 (len t) && in_range 4 (len (tower_bytes t))) (er_towers m)
  && in_range 4 (len (er_towers m)) && in_range 4 (er_status m).

(* ---- _client._process_ept_map_result ---------------------------------------------------------- *)
Definition floor_tcp_port (f : floor) : option Z := match fl_kind f with FK_TCP p => Some p | _ => None end.
Fixpoint first_tcp_port_tower (t : list floor) : option Z :=
  match t with [] => None | f :: r => match floor_tcp_port f with Some p => Some p | None => first_tcp_port_tower r end end.
Fixpoint first_tcp_port (towers : list (list floor)) : option Z :=
  match towers with [] => None | t :: r => match first_tcp_port_tower t with Some p => Some p | None => first_tcp_port r end end.

Definition process_ept_map_result (fuel : nat) (stub_data : bytes) : res (Z * Z) :=
  let* (map_response, ticks) := ept_map_result_unpack fuel stub_data in
  if k_ept_status_bad (er_status map_response) then Raise ValueError else
  match first_tcp_port (er_towers map_response) with
  | Some port => Ok (port, ticks)
  | None => Raise ValueError
  end.
