(* _crypto.py: the thin wrappers between the blob fields and the primitives (OID dispatch,
   GCM nonce read back from the DER parameters). *)
From V Require Import Prelude.Base gen.C_asn1.
From V Require Import Model.Crypto Model.Asn1 Model.Pkcs7 Model.Blob.

Definition cek_decrypt (c : Crypto) (algorithm : oid) (parameters : option bytes) (kek value : bytes) : res bytes :=
  if oid_eqb algorithm oid_aes256_wrap then kw_unwrap c kek value else Raise NotImplementedError.
Definition cek_encrypt (c : Crypto) (algorithm : oid) (parameters : option bytes) (kek value : bytes) : res bytes :=
  if oid_eqb algorithm oid_aes256_wrap then kw_wrap c kek value else Raise NotImplementedError.

(* cek_generate(algorithm): AESGCM.generate_key(256) then os.urandom(12); the two draws are arguments *)
Definition cek_generate (algorithm : oid) (rnd_cek rnd_iv : bytes) : res (bytes * bytes) :=
  if oid_eqb algorithm oid_aes256_wrap then Ok (rnd_cek, rnd_iv) else Raise NotImplementedError.

Definition gcm_iv_of_parameters (parameters : option bytes) : res bytes :=
  match truthy parameters with
  | None => Raise ValueError
  | Some p =>
    let* (r, _) := read_sequence p None None in
    let* (iv, _) := read_octet_string r None None in
    Ok iv
  end.
Definition content_decrypt (c : Crypto) (algorithm : oid) (parameters : option bytes) (cek value : bytes) : res bytes :=
  if oid_eqb algorithm oid_aes256_gcm then
    let* iv := gcm_iv_of_parameters parameters in gcm_dec c cek iv value
  else Raise NotImplementedError.
Definition content_encrypt (c : Crypto) (algorithm : oid) (parameters : option bytes) (cek value : bytes) : res bytes :=
  if oid_eqb algorithm oid_aes256_gcm then
    let* iv := gcm_iv_of_parameters parameters in gcm_enc c cek iv value
  else Raise NotImplementedError.
