(* The symbolic instance of the Crypto record: every primitive returns a tagged,
   length-prefixed serialisation of its inputs (a free term algebra over bytes). The Python
   harness monkeypatches `cryptography` with the same functions (vlib/sym.py), so byte equality
   of outputs means the implementation performed the same derivation *tree* as the model. *)
From V Require Import Prelude.Base Prelude.PyInt Model.Crypto.

Fixpoint bytes_eqb (a b : bytes) : bool :=
  match a, b with
  | [], [] => true
  | x :: a', y :: b' => (x =? y) && bytes_eqb a' b'
  | _, _ => false
  end.
Lemma bytes_eqb_eq a b : bytes_eqb a b = true <-> a = b.
Proof.
  revert b; induction a as [|x a IH]; intros [|y b]; cbn; split; intros H; try congruence; try discriminate.
  - apply andb_true_iff in H as [H1 H2]. apply IH in H2. f_equal; [lia|assumption].
  - injection H as -> ->. rewrite Z.eqb_refl. cbn. now apply IH.
Qed.

Definition symfield (f : bytes) : bytes := be 4 (len f) ++ f.
Definition symterm (tag : Z) (fields : list bytes) : bytes :=
  165 :: tag :: concat (map symfield fields).

Fixpoint sym_fields (fuel : nat) (bs : bytes) : option (list bytes) :=
  match bs with
  | [] => Some []
  | _ =>
    match fuel with
    | O => None
    | S f =>
      if len bs <? 4 then None else
      let n := be_val (firstn 4 bs) in
      let r := skipn 4 bs in
      if len r <? n then None else
      match sym_fields f (skipn (Z.to_nat n) r) with
      | Some l => Some (firstn (Z.to_nat n) r :: l)
      | None => None
      end
    end
  end.
Definition sym_parse (tag : Z) (bs : bytes) : option (list bytes) :=
  match bs with
  | 165 :: t :: r => if t =? tag then sym_fields (length r) r else None
  | _ => None
  end.

Definition hash_b (h : hash) : bytes := [hash_id h].

Definition sym_kdf (h : hash) (secret label context : bytes) (length : Z) : bytes :=
  symterm 1 [hash_b h; secret; label; context; be 4 length].
Definition sym_concat_kdf (h : hash) (shared otherinfo : bytes) (length : Z) : bytes :=
  symterm 2 [hash_b h; shared; otherinfo; be 4 length].
Definition sym_kw_wrap (k x : bytes) : res bytes := Ok (symterm 3 [k; x]).
Definition sym_kw_unwrap (k w : bytes) : res bytes :=
  match sym_parse 3 w with
  | Some [k'; x] => if bytes_eqb k k' then Ok x else Raise InvalidUnwrap
  | _ => Raise InvalidUnwrap
  end.
Definition sym_gcm_enc (k n p : bytes) : res bytes := Ok (symterm 4 [k; n; p]).
Definition sym_gcm_dec (k n ct : bytes) : res bytes :=
  match sym_parse 4 ct with
  | Some [k'; n'; p] => if bytes_eqb k k' && bytes_eqb n n' then Ok p else Raise InvalidTag
  | _ => Raise InvalidTag
  end.

(* Toy commutative "curve": the group (Z/q)^* with q = 2^61 - 1; a point is (g^d, 7 g^d + id). *)
Fixpoint powmod_pos (b : Z) (e : positive) (m : Z) : Z :=
  match e with
  | xH => b mod m
  | xO e' => let r := powmod_pos b e' m in (r * r) mod m
  | xI e' => let r := powmod_pos b e' m in ((r * r) mod m * b) mod m
  end.
Definition modpow (b e m : Z) : Z :=
  match e with Z0 => 1 mod m | Zpos p => powmod_pos b p m | Zneg _ => 0 end.

Definition sym_q : Z := 2305843009213693951.
Definition sym_g : Z := 3.
Definition sym_point_ok (cv : curve) (Q : Z * Z) : bool :=
  let '(x, y) := Q in (0 <? x) && (x <? sym_q) && (y =? (7 * x + curve_id cv) mod sym_q).
Definition sym_ec_pub (cv : curve) (d : Z) : res (Z * Z) :=
  if d <=? 0 then Raise ValueError else
  let x := modpow sym_g d sym_q in Ok (x, (7 * x + curve_id cv) mod sym_q).
Definition sym_ec_dh (cv : curve) (d : Z) (Q : Z * Z) : res bytes :=
  if d <=? 0 then Raise ValueError else
  if negb (sym_point_ok cv Q) then Raise ValueError else
  Ok (be 8 (modpow (fst Q) d sym_q)).

Definition sym : Crypto := {|
  kdf := sym_kdf; concat_kdf := sym_concat_kdf;
  kw_wrap := sym_kw_wrap; kw_unwrap := sym_kw_unwrap;
  gcm_enc := sym_gcm_enc; gcm_dec := sym_gcm_dec;
  ec_pub := sym_ec_pub; ec_dh := sym_ec_dh |}.
