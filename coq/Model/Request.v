(* _rpc/_request.py: Request and Response PDUs. See Model/Pdu.v for the conventions.
   UUIDs are their 16 bytes_le octets; uuid.UUID(bytes_le=b) raises ValueError unless len(b) = 16.
   No proofs in this file. *)
From V Require Export Model.Pdu.

Definition uuid_of_bytes_le (b : bytes) : res bytes :=
  if len b =? 16 then Ok b else Raise ValueError.
Definition wf_uuid (u : bytes) : bool := (len u =? 16) && wfb u.

(* ---- Request ---------------------------------------------------------------------------------- *)
Record request := {
  rq_header : pdu_header; rq_sec_trailer : option sec_trailer;
  rq_alloc_hint : Z; rq_context_id : Z; rq_opnum : Z; rq_obj : option bytes; rq_stub_data : bytes }.

Definition request_body (m : request) : bytes :=
  concat [ le 4 (rq_alloc_hint m); le 2 (rq_context_id m); le 2 (rq_opnum m);
           match rq_obj m with Some u => u | None => [] end;
           rq_stub_data m ].
Definition request_pack (m : request) : bytes :=
  pdu_header_pack (rq_header m) ++ request_body m ++ opt_sec_trailer_pack (rq_sec_trailer m).

Definition request_unpack (view : bytes) (header : pdu_header) (st : option sec_trailer) : res request :=
  let alloc_hint := le_val (slice None (Some 4) view) in
  let context_id := le_val (slice (Some 4) (Some 6) view) in
  let opnum := le_val (slice (Some 6) (Some 8) view) in
  let view := slice (Some 8) None view in
  let* (obj, view) :=
    if negb (k_req_obj_mask (h_packet_flags header) c_PFC_OBJECT_UUID =? 0) then
      let* u := uuid_of_bytes_le (slice None (Some 16) view) in
      Ok (Some u, slice (Some 16) None view)
    else Ok (None, view) in
  Ok {| rq_header := header; rq_sec_trailer := st; rq_alloc_hint := alloc_hint; rq_context_id := context_id;
        rq_opnum := opnum; rq_obj := obj; rq_stub_data := view |}.

(* the object UUID is on the wire iff PFC_OBJECT_UUID is set in the header *)
Definition wf_request (m : request) : bool :=
  wf_pdu_header (rq_header m) && (h_packet_type (rq_header m) =? c_PT_REQUEST)
  && wf_lengths (rq_header m) (len (request_pack m)) (rq_sec_trailer m)
  && in_range 4 (rq_alloc_hint m) && in_range 2 (rq_context_id m) && in_range 2 (rq_opnum m)
  && match rq_obj m with
     | Some u => wf_uuid u && negb (Z.land (h_packet_flags (rq_header m)) c_PFC_OBJECT_UUID =? 0)
     | None => Z.land (h_packet_flags (rq_header m)) c_PFC_OBJECT_UUID =? 0
     end
  && wfb (rq_stub_data m).

(* ---- Response --------------------------------------------------------------------------------- *)
Record response := {
  rs_header : pdu_header; rs_sec_trailer : option sec_trailer;
  rs_alloc_hint : Z; rs_context_id : Z; rs_cancel_count : Z; rs_stub_data : bytes }.

Definition response_body (m : response) : bytes :=
  concat [ le 4 (rs_alloc_hint m); le 2 (rs_context_id m); le 1 (rs_cancel_count m); [0]; rs_stub_data m ].
Definition response_pack (m : response) : bytes :=
  pdu_header_pack (rs_header m) ++ response_body m ++ opt_sec_trailer_pack (rs_sec_trailer m).

Definition response_unpack (view : bytes) (header : pdu_header) (st : option sec_trailer) : res response :=
  let alloc_hint := le_val (slice None (Some 4) view) in
  let context_id := le_val (slice (Some 4) (Some 6) view) in
  let* cancel_count := index view 6 in
  Ok {| rs_header := header; rs_sec_trailer := st; rs_alloc_hint := alloc_hint; rs_context_id := context_id;
        rs_cancel_count := cancel_count; rs_stub_data := slice (Some 8) None view |}.

Definition wf_response (m : response) : bool :=
  wf_pdu_header (rs_header m) && (h_packet_type (rs_header m) =? c_PT_RESPONSE)
  && wf_lengths (rs_header m) (len (response_pack m)) (rs_sec_trailer m)
  && in_range 4 (rs_alloc_hint m) && in_range 2 (rs_context_id m) && in_range 1 (rs_cancel_count m)
  && wfb (rs_stub_data m).
