(* area rpc: dispatch table of model units for the correspondence check (val -> val).
   Value shapes (mirrored by vlib/props/c12.py):
     data_rep   [bo ch fp]            header  [ver vmin ptype pflags data_rep frag auth call]
     trailer    n | [type level pad ctx auth]
     syntax     [uuid ver vmin]       ctx_elem [id abstract [transfer..]]      ctx_result [result reason uuid ver]
     request    [hdr st alloc ctx opnum obj|n stub]      response [hdr st alloc ctx cancel stub]
     fault      [hdr st alloc ctx cancel status flags stub]
     bind       [hdr st xmit recv assoc [ctx_elem..]]    bind_ack [hdr st xmit recv assoc sec_addr(str) [ctx_result..]]
     bind_nak   [hdr st reason [[a b]..]]                pdu [packet_type msg]
     command    [kind command flags value typed..]  kind 0 generic | 1 bitmask [bits] | 2 pcontext [if ts] | 3 header2 [pt dr call ctx op]
     floor      [kind protocol lhs rhs typed..]     kind 0 generic | 1 tcp [port] | 2 ip [addr] | 3 rpc_co [vm] | 4 uuid [u ver vm]
     ept_map    [obj|n [floor..] handle|n max_towers]    ept_map_result [handle|n [[floor..]..] status]   handle [n uuid] *)
From Coq Require Import String.
From V Require Import Prelude.Base Prelude.Val Spec.Ndr64Epm.
From V Require Import Model.Pdu Model.Request Model.Bind Model.Verification Model.RpcDispatch Model.Epm.

Fixpoint omap {A} (f : val -> option A) (l : list val) : option (list A) :=
  match l with
  | [] => Some []
  | v :: r => match f v, omap f r with Some a, Some m => Some (a :: m) | _, _ => None end
  end.
Definition vlist {A} (f : A -> val) (l : list A) : val := VL (map f l).

(* ---- to val ---- *)
Definition v_dr (d : data_rep) : val := VL [VI (dr_byte_order d); VI (dr_character d); VI (dr_floating_point d)].
Definition v_hdr (h : pdu_header) : val :=
  VL [VI (h_version h); VI (h_version_minor h); VI (h_packet_type h); VI (h_packet_flags h); v_dr (h_data_rep h);
      VI (h_frag_len h); VI (h_auth_len h); VI (h_call_id h)].
Definition v_st1 (s : sec_trailer) : val :=
  VL [VI (st_type s); VI (st_level s); VI (st_pad_length s); VI (st_context_id s); VB (st_auth_value s)].
Definition v_st (s : option sec_trailer) : val := vopt v_st1 s.
Definition v_sy (s : syntax_id) : val := VL [VB (sy_uuid s); VI (sy_version s); VI (sy_version_minor s)].
Definition v_ce (c : context_element) : val := VL [VI (ce_context_id c); v_sy (ce_abstract_syntax c); vlist v_sy (ce_transfer_syntaxes c)].
Definition v_cr (r : context_result) : val := VL [VI (cr_result r); VI (cr_reason r); VB (cr_syntax r); VI (cr_syntax_version r)].
Definition v_request (m : request) : val :=
  VL [v_hdr (rq_header m); v_st (rq_sec_trailer m); VI (rq_alloc_hint m); VI (rq_context_id m); VI (rq_opnum m);
      vopt VB (rq_obj m); VB (rq_stub_data m)].
Definition v_response (m : response) : val :=
  VL [v_hdr (rs_header m); v_st (rs_sec_trailer m); VI (rs_alloc_hint m); VI (rs_context_id m); VI (rs_cancel_count m); VB (rs_stub_data m)].
Definition v_fault (m : fault) : val :=
  VL [v_hdr (f_header m); v_st (f_sec_trailer m); VI (f_alloc_hint m); VI (f_context_id m); VI (f_cancel_count m);
      VI (f_status m); VI (f_flags m); VB (f_stub_data m)].
Definition v_bind (m : bind_msg) : val :=
  VL [v_hdr (b_header m); v_st (b_sec_trailer m); VI (b_max_xmit_frag m); VI (b_max_recv_frag m); VI (b_assoc_group m);
      vlist v_ce (b_contexts m)].
Definition v_bind_ack (m : bind_ack) : val :=
  VL [v_hdr (ba_header m); v_st (ba_sec_trailer m); VI (ba_max_xmit_frag m); VI (ba_max_recv_frag m); VI (ba_assoc_group m);
      VS (ba_sec_addr m); vlist v_cr (ba_results m)].
Definition v_bind_nak (m : bind_nak) : val :=
  VL [v_hdr (bn_header m); v_st (bn_sec_trailer m); VI (bn_reject_reason m);
      vlist (fun v => VL [VI (fst v); VI (snd v)]) (bn_versions m)].
Definition v_pdu (p : pdu) : val :=
  match p with
  | PRequest m => VL [VI c_PT_REQUEST; v_request m] | PResponse m => VL [VI c_PT_RESPONSE; v_response m]
  | PFault m => VL [VI c_PT_FAULT; v_fault m] | PBind m => VL [VI c_PT_BIND; v_bind m]
  | PBindAck m => VL [VI c_PT_BIND_ACK; v_bind_ack m] | PBindNak m => VL [VI c_PT_BIND_NAK; v_bind_nak m]
  | PAlterContext m => VL [VI c_PT_ALTER_CONTEXT; v_bind m] | PAlterContextResp m => VL [VI c_PT_ALTER_CONTEXT_RESP; v_bind_ack m]
  end.
Definition v_cmd (c : command) : val :=
  let base k := [VI k; VI (cmd_command c); VI (cmd_flags c); VB (cmd_value c)] in
  match cmd_kind_of c with
  | CK_Generic => VL (base 0)
  | CK_Bitmask bits => VL (base 1 ++ [VI bits])
  | CK_PContext i t => VL (base 2 ++ [v_sy i; v_sy t])
  | CK_Header2 pt dr call ctx op => VL (base 3 ++ [VI pt; v_dr dr; VI call; VI ctx; VI op])
  end.
Definition v_floor (f : floor) : val :=
  let base k := [VI k; VI (fl_protocol f); VB (fl_lhs f); VB (fl_rhs f)] in
  match fl_kind f with
  | FK_Generic => VL (base 0)
  | FK_TCP p => VL (base 1 ++ [VI p])
  | FK_IP a => VL (base 2 ++ [VI a])
  | FK_RPC_CO vm => VL (base 3 ++ [VI vm])
  | FK_UUID u v vm => VL (base 4 ++ [VB u; VI v; VI vm])
  end.
Definition v_handle (h : option (Z * bytes)) : val := vopt (fun p => VL [VI (fst p); VB (snd p)]) h.
Definition v_ept_map (m : ept_map) : val :=
  VL [vopt VB (em_obj m); vlist v_floor (em_tower m); v_handle (em_entry_handle m); VI (em_max_towers m)].
Definition v_ept_map_result (m : ept_map_result) : val :=
  VL [v_handle (er_entry_handle m); vlist (vlist v_floor) (er_towers m); VI (er_status m)].

(* ---- of val ---- *)
Definition o_dr (v : val) : option data_rep :=
  match v with VL [VI a; VI b; VI c] => Some {| dr_byte_order := a; dr_character := b; dr_floating_point := c |} | _ => None end.
Definition o_hdr (v : val) : option pdu_header :=
  match v with
  | VL [VI a; VI b; VI c; VI d; dr; VI e; VI f; VI g] =>
    match o_dr dr with
    | Some dr => Some {| h_version := a; h_version_minor := b; h_packet_type := c; h_packet_flags := d; h_data_rep := dr;
                         h_frag_len := e; h_auth_len := f; h_call_id := g |}
    | None => None end
  | _ => None end.
Definition o_st (v : val) : option (option sec_trailer) :=
  match v with
  | VN => Some None
  | VL [VI a; VI b; VI c; VI d; VB e] =>
    Some (Some {| st_type := a; st_level := b; st_pad_length := c; st_context_id := d; st_auth_value := e |})
  | _ => None end.
Definition o_sy (v : val) : option syntax_id :=
  match v with VL [VB u; VI a; VI b] => Some {| sy_uuid := u; sy_version := a; sy_version_minor := b |} | _ => None end.
Definition o_ce (v : val) : option context_element :=
  match v with
  | VL [VI a; s; VL ts] =>
    match o_sy s, omap o_sy ts with
    | Some s, Some ts => Some {| ce_context_id := a; ce_abstract_syntax := s; ce_transfer_syntaxes := ts |}
    | _, _ => None end
  | _ => None end.
Definition o_cr (v : val) : option context_result :=
  match v with
  | VL [VI a; VI b; VB u; VI c] => Some {| cr_result := a; cr_reason := b; cr_syntax := u; cr_syntax_version := c |}
  | _ => None end.
Definition o_optb (v : val) : option (option bytes) :=
  match v with VN => Some None | VB b => Some (Some b) | _ => None end.
Definition o_request (v : val) : option request :=
  match v with
  | VL [h; s; VI a; VI b; VI c; o; VB d] =>
    match o_hdr h, o_st s, o_optb o with
    | Some h, Some s, Some o => Some {| rq_header := h; rq_sec_trailer := s; rq_alloc_hint := a; rq_context_id := b;
                                        rq_opnum := c; rq_obj := o; rq_stub_data := d |}
    | _, _, _ => None end
  | _ => None end.
Definition o_response (v : val) : option response :=
  match v with
  | VL [h; s; VI a; VI b; VI c; VB d] =>
    match o_hdr h, o_st s with
    | Some h, Some s => Some {| rs_header := h; rs_sec_trailer := s; rs_alloc_hint := a; rs_context_id := b;
                                rs_cancel_count := c; rs_stub_data := d |}
    | _, _ => None end
  | _ => None end.
Definition o_fault (v : val) : option fault :=
  match v with
  | VL [h; s; VI a; VI b; VI c; VI d; VI e; VB g] =>
    match o_hdr h, o_st s with
    | Some h, Some s => Some {| f_header := h; f_sec_trailer := s; f_alloc_hint := a; f_context_id := b;
                                f_cancel_count := c; f_status := d; f_flags := e; f_stub_data := g |}
    | _, _ => None end
  | _ => None end.
Definition o_bind (v : val) : option bind_msg :=
  match v with
  | VL [h; s; VI a; VI b; VI c; VL cs] =>
    match o_hdr h, o_st s, omap o_ce cs with
    | Some h, Some s, Some cs => Some {| b_header := h; b_sec_trailer := s; b_max_xmit_frag := a; b_max_recv_frag := b;
                                         b_assoc_group := c; b_contexts := cs |}
    | _, _, _ => None end
  | _ => None end.
Definition o_bind_ack (v : val) : option bind_ack :=
  match v with
  | VL [h; s; VI a; VI b; VI c; VS sa; VL rs] =>
    match o_hdr h, o_st s, omap o_cr rs with
    | Some h, Some s, Some rs => Some {| ba_header := h; ba_sec_trailer := s; ba_max_xmit_frag := a; ba_max_recv_frag := b;
                                         ba_assoc_group := c; ba_sec_addr := sa; ba_results := rs |}
    | _, _, _ => None end
  | _ => None end.
Definition o_pair (v : val) : option (Z * Z) := match v with VL [VI a; VI b] => Some (a, b) | _ => None end.
Definition o_bind_nak (v : val) : option bind_nak :=
  match v with
  | VL [h; s; VI a; VL vs] =>
    match o_hdr h, o_st s, omap o_pair vs with
    | Some h, Some s, Some vs => Some {| bn_header := h; bn_sec_trailer := s; bn_reject_reason := a; bn_versions := vs |}
    | _, _, _ => None end
  | _ => None end.
Definition o_cmd (v : val) : option command :=
  match v with
  | VL (VI k :: VI c :: VI f :: VB value :: typed) =>
    let mk kind := Some {| cmd_kind_of := kind; cmd_command := c; cmd_flags := f; cmd_value := value |} in
    match k, typed with
    | 0, [] => mk CK_Generic
    | 1, [VI bits] => mk (CK_Bitmask bits)
    | 2, [i; t] => match o_sy i, o_sy t with Some i, Some t => mk (CK_PContext i t) | _, _ => None end
    | 3, [VI pt; dr; VI call; VI ctx; VI op] => match o_dr dr with Some dr => mk (CK_Header2 pt dr call ctx op) | None => None end
    | _, _ => None
    end
  | _ => None end.
Definition o_floor (v : val) : option floor :=
  match v with
  | VL (VI k :: VI p :: VB lhs :: VB rhs :: typed) =>
    let mk kind := Some {| fl_kind := kind; fl_protocol := p; fl_lhs := lhs; fl_rhs := rhs |} in
    match k, typed with
    | 0, [] => mk FK_Generic
    | 1, [VI port] => mk (FK_TCP port)
    | 2, [VI addr] => mk (FK_IP addr)
    | 3, [VI vm] => mk (FK_RPC_CO vm)
    | 4, [VB u; VI ver; VI vm] => mk (FK_UUID u ver vm)
    | _, _ => None
    end
  | _ => None end.
Definition o_tower (v : val) : option (list floor) := match v with VL fs => omap o_floor fs | _ => None end.
Definition o_handle (v : val) : option (option (Z * bytes)) :=
  match v with VN => Some None | VL [VI a; VB u] => Some (Some (a, u)) | _ => None end.
Definition o_ept_map (v : val) : option ept_map :=
  match v with
  | VL [o; VL fs; h; VI mt] =>
    match o_optb o, omap o_floor fs, o_handle h with
    | Some o, Some fs, Some h => Some {| em_obj := o; em_tower := fs; em_entry_handle := h; em_max_towers := mt |}
    | _, _, _ => None end
  | _ => None end.
Definition o_ept_map_result (v : val) : option ept_map_result :=
  match v with
  | VL [h; VL ts; VI st] =>
    match o_handle h, omap o_tower ts with
    | Some h, Some ts => Some {| er_entry_handle := h; er_towers := ts; er_status := st |}
    | _, _ => None end
  | _ => None end.

Definition fuel_for (b : bytes) : nat := S (length b).
Definition drop_ticks {A} (f : A -> val) (r : res (A * Z)) : val := vres (fun p => f (fst p)) r.

(* round trip observed the way the property observes it: packed bytes, decoded fields, re-packed bytes *)
Definition rt {A} (pack : A -> bytes) (unpack : nat -> bytes -> res A) (tov : A -> val) (m : A) : val :=
  let b := pack m in
  match unpack (fuel_for b) b with
  | Ok m' => VL [VB b; tov m'; VB (pack m')]
  | Raise e => VL [VB b; VE e]
  end.

Definition pdu_pack (p : pdu) : res bytes :=
  match p with
  | PRequest m => Ok (request_pack m) | PResponse m => Ok (response_pack m) | PFault m => Ok (fault_pack m)
  | PBind m | PAlterContext m => Ok (bind_pack m)
  | PBindAck m | PAlterContextResp m => bind_ack_pack m
  | PBindNak m => Ok (bind_nak_pack m)
  end.
Definition o_pdu (v : val) : option pdu :=
  match v with
  | VL [VI pt; m] =>
    if pt =? c_PT_REQUEST then option_map PRequest (o_request m)
    else if pt =? c_PT_RESPONSE then option_map PResponse (o_response m)
    else if pt =? c_PT_FAULT then option_map PFault (o_fault m)
    else if pt =? c_PT_BIND then option_map PBind (o_bind m)
    else if pt =? c_PT_BIND_ACK then option_map PBindAck (o_bind_ack m)
    else if pt =? c_PT_BIND_NAK then option_map PBindNak (o_bind_nak m)
    else if pt =? c_PT_ALTER_CONTEXT then option_map PAlterContext (o_bind m)
    else if pt =? c_PT_ALTER_CONTEXT_RESP then option_map PAlterContextResp (o_bind_ack m)
    else None
  | _ => None end.

Definition u_pdu_unpack (a : val) : val :=
  match a with VB b => drop_ticks v_pdu (pdu_unpack (fuel_for b) b) | _ => bad end.
Definition u_pdu_roundtrip (a : val) : val :=
  match o_pdu a with
  | Some p =>
    match pdu_pack p with
    | Ok b =>
      match pdu_unpack (fuel_for b) b with
      | Ok (p', _) => VL [VB b; v_pdu p'; vres VB (pdu_pack p')]
      | Raise e => VL [VB b; VE e]
      end
    | Raise e => VE e
    end
  | None => bad end.
Definition u_header_unpack (a : val) : val := match a with VB b => vres v_hdr (pdu_header_unpack b) | _ => bad end.
Definition u_sectrailer_unpack (a : val) : val := match a with VB b => vres v_st1 (sec_trailer_unpack b) | _ => bad end.
Definition u_sectrailer_roundtrip (a : val) : val :=
  match o_st a with
  | Some (Some s) => rt sec_trailer_pack (fun _ => sec_trailer_unpack) v_st1 s
  | _ => bad end.
Definition u_cmd_unpack (a : val) : val := match a with VB b => vres v_cmd (command_unpack b) | _ => bad end.
Definition u_cmd_roundtrip (a : val) : val :=
  match o_cmd a with Some c => rt command_pack (fun _ => command_unpack) v_cmd c | None => bad end.
Definition u_vt_unpack (a : val) : val :=
  match a with VB b => drop_ticks (vlist v_cmd) (verification_trailer_unpack (fuel_for b) b) | _ => bad end.
Definition strip {A} (f : nat -> bytes -> res (A * Z)) (fuel : nat) (b : bytes) : res A :=
  match f fuel b with Ok (a, _) => Ok a | Raise e => Raise e end.
Definition u_vt_roundtrip (a : val) : val :=
  match a with
  | VL cs => match omap o_cmd cs with
             | Some cs => rt verification_trailer_pack (strip verification_trailer_unpack) (vlist v_cmd) cs
             | None => bad end
  | _ => bad end.
Definition u_floor_unpack (a : val) : val := match a with VB b => vres v_floor (floor_unpack b) | _ => bad end.
Definition u_floor_roundtrip (a : val) : val :=
  match o_floor a with Some f => rt floor_pack (fun _ => floor_unpack) v_floor f | None => bad end.
Definition u_eptmap_unpack (a : val) : val :=
  match a with VB b => drop_ticks v_ept_map (ept_map_unpack (fuel_for b) b) | _ => bad end.
Definition u_eptmap_roundtrip (a : val) : val :=
  match o_ept_map a with Some m => rt ept_map_pack (strip ept_map_unpack) v_ept_map m | None => bad end.
Definition u_eptres_unpack (a : val) : val :=
  match a with VB b => drop_ticks v_ept_map_result (ept_map_result_unpack (fuel_for b) b) | _ => bad end.
Definition u_eptres_roundtrip (a : val) : val :=
  match o_ept_map_result a with Some m => rt ept_map_result_pack (strip ept_map_result_unpack) v_ept_map_result m | None => bad end.
Definition u_epm_process (a : val) : val :=
  match a with VB b => vres (fun p => VI (fst p)) (process_ept_map_result (fuel_for b) b) | _ => bad end.
(* reference NDR64 reply (Spec) and what the client makes of it *)
Definition o_sfloor (v : val) : option spec_floor := match v with VL [VI p; VB l; VB r] => Some (p, l, r) | _ => None end.
Definition o_stower (v : val) : option (list spec_floor) := match v with VL fs => omap o_sfloor fs | _ => None end.
Definition u_epm_reply (a : val) : val :=
  match a with
  | VL [h; VI mt; VL ts; VI st] =>
    match o_handle h, omap o_stower ts with
    | Some h, Some ts =>
      let b := ndr64_eptmap_reply h mt ts st in
      VL [VB b; vres (fun p => VI (fst p)) (process_ept_map_result (fuel_for b) b);
          drop_ticks v_ept_map_result (ept_map_result_unpack (fuel_for b) b)]
    | _, _ => bad end
  | _ => bad end.
Definition u_epm_tower (a : val) : val :=
  match a with
  | VL [s; d; VI port; VI addr] =>
    match o_sy s, o_sy d with
    | Some s, Some d => let t := build_tcpip_tower s d port addr in VL [vlist v_floor t; VB (tower_bytes t)]
    | _, _ => bad end
  | _ => bad end.
Definition u_btfn (a : val) : val := match a with VI f => v_sy (bind_time_feature_negotiation f) | _ => bad end.

Open Scope string_scope.
Definition units : list (string * (val -> val)) :=
  [ ("echo", fun v => v);
    ("rpc.pdu.unpack", u_pdu_unpack); ("rpc.pdu.roundtrip", u_pdu_roundtrip);
    ("rpc.header.unpack", u_header_unpack);
    ("rpc.sectrailer.unpack", u_sectrailer_unpack); ("rpc.sectrailer.roundtrip", u_sectrailer_roundtrip);
    ("rpc.cmd.unpack", u_cmd_unpack); ("rpc.cmd.roundtrip", u_cmd_roundtrip);
    ("rpc.vt.unpack", u_vt_unpack); ("rpc.vt.roundtrip", u_vt_roundtrip);
    ("epm.floor.unpack", u_floor_unpack); ("epm.floor.roundtrip", u_floor_roundtrip);
    ("epm.map.unpack", u_eptmap_unpack); ("epm.map.roundtrip", u_eptmap_roundtrip);
    ("epm.result.unpack", u_eptres_unpack); ("epm.result.roundtrip", u_eptres_roundtrip);
    ("epm.process", u_epm_process); ("epm.reply", u_epm_reply); ("epm.tower", u_epm_tower); ("rpc.btfn", u_btfn) ].

Fixpoint lookup (n : string) (l : list (string * (val -> val))) : option (val -> val) :=
  match l with
  | [] => None
  | (k, f) :: r => if String.eqb n k then Some f else lookup n r
  end.
Definition run (name : string) (arg : val) : val :=
  match lookup name units with Some f => f arg | None => VE KeyError end.
