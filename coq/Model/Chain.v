(* _gkdi.compute_kdf_context / compute_l1_key / compute_l2_key. The control skeleton of
   compute_l2_key is the regenerated kernel k_compute_l2_key; here it is instantiated with
   K := res bytes so that exceptions raised while building a KDF context propagate. *)
From V Require Import Prelude.Base Prelude.PyInt Prelude.Loops gen.Kernels gen.Consts.
From V Require Import Model.Crypto Model.Types.

Definition compute_kdf_context (rkid : bytes) (l0 l1 l2 : Z) : res bytes :=
  let* b0 := to_bytes_le_signed 4 l0 in
  let* b1 := to_bytes_le_signed 4 l1 in
  let* b2 := to_bytes_le_signed 4 l2 in
  Ok (rkid ++ b0 ++ b1 ++ b2).

Definition compute_l1_key (c : Crypto) (h : hash) (target_sd rkid : bytes) (l0 : Z) (root_key : bytes) : res bytes :=
  let* ctx0 := compute_kdf_context rkid l0 (-1) (-1) in
  let l0_seed := kdf c h root_key c_KDS_SERVICE_LABEL ctx0 64 in
  let* ctx1 := compute_kdf_context rkid l0 31 (-1) in
  Ok (kdf c h l0_seed c_KDS_SERVICE_LABEL (ctx1 ++ target_sd) 64).

Definition kdfK (c : Crypto) (h : hash) (rkid : bytes) (l0 : Z) (k : res bytes) (a b : Z) : res bytes :=
  let* key := k in
  let* ctx := compute_kdf_context rkid l0 a b in
  Ok (kdf c h key c_KDS_SERVICE_LABEL ctx 64).

Definition L2_FUEL : nat := 100.

Definition compute_l2_key (c : Crypto) (h : hash) (request_l1 request_l2 : Z) (e : envelope) : res bytes :=
  match k_compute_l2_key (kdfK c h (gke_rkid e) (gke_l0 e)) L2_FUEL request_l1 request_l2
          (gke_l1 e) (gke_l2 e) (Ok (gke_l1_key e)) (Ok (gke_l2_key e)) with
  | Ok r => r
  | Raise x => Raise x
  end.
