(* area gkdi: dispatch table of model units for the correspondence checks of C11 and C03. *)
From Coq Require Import String.
From V Require Import Prelude.Base Prelude.Val.
From V Require Import Model.Types Model.Crypto Model.KeyId Model.Gkdi Model.GkdiView Spec.GkdiLayout.

Definition on {A} (dec : val -> option A) (f : A -> val) (a : val) : val :=
  match dec a with Some x => f x | None => bad end.
Definition onb (f : bytes -> val) (a : val) : val := match a with VB b => f b | _ => bad end.
Definition ons (f : list Z -> val) (a : val) : val := match a with VS s => f s | _ => bad end.

Definition u_getkey_result (a : val) : val :=
  match a with
  | VL [VB stub; VN] => vres val_of_env (process_get_key_result stub None)
  | VL [VB stub; VI p] => vres val_of_env (process_get_key_result stub (Some p))
  | _ => bad
  end.
Definition u_ndr_request (a : val) : val :=
  match getkey_of_val a with
  | Some g => vobytes (ndr64_getkey_request (gk_target_sd g) (gk_root_key_id g) (gk_l0 g) (gk_l1 g) (gk_l2 g))
  | None => bad
  end.
(* the reference reply fed to the model decoder *)
Definition u_ndr_reply (a : val) : val :=
  match a with
  | VL [VB env; VI hres] =>
    match ndr64_getkey_reply env hres with
    | Some b => VL [VB b; vres val_of_env (GetKey_unpack_response b)]
    | None => VN
    end
  | _ => bad
  end.

Open Scope string_scope.
Definition units : list (string * (val -> val)) :=
  [ ("echo", fun v => v);
    ("keyid.pack", on kid_of_val (fun k => vres VB (KeyIdentifier_pack k)));
    ("keyid.unpack", onb (fun b => vres val_of_kid (KeyIdentifier_unpack b)));
    ("keyid.layout", on kid_of_val (fun k => vobytes (layout KeyIdentifier_table (spec_of_kid k))));
    ("gke.pack", on env_of_val (fun e => vres VB (GroupKeyEnvelope_pack e)));
    ("gke.unpack", onb (fun b => vres val_of_env (GroupKeyEnvelope_unpack b)));
    ("gke.layout", on env_of_val (fun e => vobytes (layout GroupKeyEnvelope_table (spec_of_env e))));
    ("getkey.pack", on getkey_of_val (fun g => vres VB (GetKey_pack g)));
    ("getkey.unpack", onb (fun b => vres val_of_getkey (GetKey_unpack b)));
    ("getkey.ndr", u_ndr_request);
    ("getkey.resp", onb (fun b => vres val_of_env (GetKey_unpack_response b)));
    ("getkey.reply", u_ndr_reply);
    ("getkey.result", u_getkey_result);
    ("kdfp.pack", ons (fun s => vres VB (KDFParameters_pack s)));
    ("kdfp.unpack", onb (fun b => vres VS (KDFParameters_unpack b)));
    ("kdfp.layout", ons (fun s => vobytes (layout KDFParameters_table s)));
    ("kdfp.hash", ons (fun s => vres (fun h => VI (hash_id h)) (hash_algorithm s)));
    ("ffp.pack", on ffp_of_val (fun p => vres VB (FFCDHParameters_pack p)));
    ("ffp.unpack", onb (fun b => vres val_of_ffp (FFCDHParameters_unpack b)));
    ("ffp.layout", on ffp_of_val (fun p => vobytes (layout FFCDHParameters_table (spec_of_ffp p))));
    ("ffk.pack", on ffk_of_val (fun k => vres VB (FFCDHKey_pack k)));
    ("ffk.unpack", onb (fun b => vres val_of_ffk (FFCDHKey_unpack b)));
    ("ffk.layout", on ffk_of_val (fun k => vobytes (layout FFCDHKey_table (spec_of_ffk k))));
    ("eck.pack", on eck_of_val (fun k => vres VB (ECDHKey_pack k)));
    ("eck.unpack", onb (fun b => vres val_of_eck (ECDHKey_unpack b)));
    ("eck.layout", on eck_of_val (fun k => vobytes (layout ECDHKey_table (spec_of_eck k)))) ].

Fixpoint lookup (n : string) (l : list (string * (val -> val))) : option (val -> val) :=
  match l with
  | [] => None
  | (k, f) :: r => if String.eqb n k then Some f else lookup n r
  end.
Definition run (name : string) (arg : val) : val :=
  match lookup name units with Some f => f arg | None => VE KeyError end.
