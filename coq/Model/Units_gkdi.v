(* area gkdi: dispatch table of model units for the correspondence checks of C11 and C03. *)
From Coq Require Import String.
From V Require Import Prelude.Base Prelude.Val.
From V Require Import Model.Types Model.Crypto Model.Sym Model.KeyId Model.Gkdi Model.GkdiView Model.Kek Spec.GkdiLayout.

Definition on {A} (dec : val -> option A) (f : A -> val) (a : val) : val :=
  match dec a with Some x => f x | None => bad end.
Definition onb (f : bytes -> val) (a : val) : val := match a with VB b => f b | _ => bad end.
Definition ons (f : list Z -> val) (a : val) : val := match a with VS s => f s | _ => bad end.

Definition u_getkey_result (a : val) : val :=
  match a with
  | VL [VB stub; VN] => vres val_of_env (process_get_key_result stub None)
  | VL [VB stub; VI p] => vres val_of_env (process_get_key_result stub (Some p))
  | _ => bad
  end.
Definition u_ndr_request (a : val) : val :=
  match getkey_of_val a with
  | Some g => vobytes (ndr64_getkey_request (gk_target_sd g) (gk_root_key_id g) (gk_l0 g) (gk_l1 g) (gk_l2 g))
  | None => bad
  end.
(* the reference reply fed to the model decoder *)
Definition u_ndr_reply (a : val) : val :=
  match a with
  | VL [VB env; VI hres] =>
    match ndr64_getkey_reply env hres with
    | Some b => VL [VB b; vres val_of_env (GetKey_unpack_response b)]
    | None => VN
    end
  | _ => bad
  end.

(* ---- C03: KEK derivation under the symbolic crypto ---- *)
Definition hash_of_id (i : Z) : option hash :=
  if i =? 1 then Some SHA1 else if i =? 2 then Some SHA256 else if i =? 3 then Some SHA384
  else if i =? 4 then Some SHA512 else None.
Definition u_kek_get (a : val) : val :=
  match a with
  | VL [ev; kv] =>
    match env_of_val ev, kid_of_val kv with
    | Some e, Some k => vres VB (get_kek sym e k)
    | _, _ => bad
    end
  | _ => bad
  end.
Definition val_of_new (r : bytes * key_identifier) : val := VL [VB (fst r); val_of_kid (snd r)].
Definition u_kek_new (a : val) : val :=
  match a with
  | VL [ev; VB rnd] =>
    match env_of_val ev with
    | Some e => VL [vres val_of_new (new_kek_rnd sym e rnd); vres VI (new_kek_rnd_len e)]
    | None => bad
    end
  | _ => bad
  end.
(* both sides: new_kek on the encrypting side's envelope, get_kek on the seed-holding side *)
Definition u_kek_agree (a : val) : val :=
  match a with
  | VL [ev_enc; ev_dec; VB rnd] =>
    match env_of_val ev_enc, env_of_val ev_dec with
    | Some ee, Some ed =>
      match new_kek_rnd sym ee rnd with
      | Ok (kek, kid) => VL [VB kek; val_of_kid kid; vres VB (get_kek sym ed kid)]
      | Raise x => VE x
      end
    | _, _ => bad
    end
  | _ => bad
  end.
Definition u_kek_compute (a : val) : val :=
  match a with
  | VL [VI hid; VS alg; VB priv; VB pub] =>
    match hash_of_id hid with
    | Some h => vres VB (compute_kek sym h alg [] priv pub)
    | None => bad
    end
  | VL [VI hid; VS alg; VB sp; VB priv; VB pub] =>      (* with the group's secret_parameters *)
    match hash_of_id hid with
    | Some h => vres VB (compute_kek sym h alg sp priv pub)
    | None => bad
    end
  | _ => bad
  end.
Definition u_kek_from_pub (a : val) : val :=
  match a with
  | VL [VI hid; VB seed; VS alg; VB pub; VI plen] =>
    match hash_of_id hid with
    | Some h => vres VB (compute_kek_from_public_key sym h seed alg [] pub plen)
    | None => bad
    end
  | VL [VI hid; VB seed; VS alg; VB sp; VB pub; VI plen] =>
    match hash_of_id hid with
    | Some h => vres VB (compute_kek_from_public_key sym h seed alg sp pub plen)
    | None => bad
    end
  | _ => bad
  end.
Definition u_kek_pubkey (a : val) : val :=
  match a with
  | VL [VS alg; VB priv; VB peer] => vres VB (compute_public_key sym alg [] priv peer)
  | _ => bad
  end.

Open Scope string_scope.
Definition units : list (string * (val -> val)) :=
  [ ("echo", fun v => v);
    ("keyid.pack", on kid_of_val (fun k => vres VB (KeyIdentifier_pack k)));
    ("keyid.unpack", onb (fun b => vres val_of_kid (KeyIdentifier_unpack b)));
    ("keyid.layout", on kid_of_val (fun k => vobytes (layout KeyIdentifier_table (spec_of_kid k))));
    ("gke.pack", on env_of_val (fun e => vres VB (GroupKeyEnvelope_pack e)));
    ("gke.unpack", onb (fun b => vres val_of_env (GroupKeyEnvelope_unpack b)));
    ("gke.layout", on env_of_val (fun e => vobytes (layout GroupKeyEnvelope_table (spec_of_env e))));
    ("getkey.pack", on getkey_of_val (fun g => vres VB (GetKey_pack g)));
    ("getkey.unpack", onb (fun b => vres val_of_getkey (GetKey_unpack b)));
    ("getkey.ndr", u_ndr_request);
    ("getkey.resp", onb (fun b => vres val_of_env (GetKey_unpack_response b)));
    ("getkey.reply", u_ndr_reply);
    ("getkey.result", u_getkey_result);
    ("kdfp.pack", ons (fun s => vres VB (KDFParameters_pack s)));
    ("kdfp.unpack", onb (fun b => vres VS (KDFParameters_unpack b)));
    ("kdfp.layout", ons (fun s => vobytes (layout KDFParameters_table s)));
    ("kdfp.hash", ons (fun s => vres (fun h => VI (hash_id h)) (hash_algorithm s)));
    ("ffp.pack", on ffp_of_val (fun p => vres VB (FFCDHParameters_pack p)));
    ("ffp.unpack", onb (fun b => vres val_of_ffp (FFCDHParameters_unpack b)));
    ("ffp.layout", on ffp_of_val (fun p => vobytes (layout FFCDHParameters_table (spec_of_ffp p))));
    ("ffk.pack", on ffk_of_val (fun k => vres VB (FFCDHKey_pack k)));
    ("ffk.unpack", onb (fun b => vres val_of_ffk (FFCDHKey_unpack b)));
    ("ffk.layout", on ffk_of_val (fun k => vobytes (layout FFCDHKey_table (spec_of_ffk k))));
    ("eck.pack", on eck_of_val (fun k => vres VB (ECDHKey_pack k)));
    ("eck.unpack", onb (fun b => vres val_of_eck (ECDHKey_unpack b)));
    ("eck.layout", on eck_of_val (fun k => vobytes (layout ECDHKey_table (spec_of_eck k))));
    ("kek.get", u_kek_get); ("kek.new", u_kek_new); ("kek.agree", u_kek_agree);
    ("kek.compute", u_kek_compute); ("kek.from_pub", u_kek_from_pub); ("kek.pubkey", u_kek_pubkey) ].

Fixpoint lookup (n : string) (l : list (string * (val -> val))) : option (val -> val) :=
  match l with
  | [] => None
  | (k, f) :: r => if String.eqb n k then Some f else lookup n r
  end.
Definition run (name : string) (arg : val) : val :=
  match lookup name units with Some f => f arg | None => VE KeyError end.
