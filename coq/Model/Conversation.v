(* _client.py: _sync_get_key / _async_get_key -- the whole GetKey conversation, composed from the models of the
   pieces it calls (no re-modelling): Handshake.bind_run / process_bind_result (RpcClient.bind, C15),
   Framing.send_request (RpcClient.request: _create_request + _prepare_pdu, C13), Recv.sync_recv_pdu / async_recv_pdu
   (_send_pdu's read loops, C14), Seal.process_response (_process_response, C16), Epm.process_ept_map_result (C18),
   Gkdi.GetKey_pack / process_get_key_result (C11).  New here: the order of the steps, which static data goes where
   (contexts, ept_map stub, opnums, verification trailer: constants regenerated from the library in gen/C_online.v), the
   argument tuples of the four public functions (identity kernels of gen/K_online.v), and the fixed fields of the Bind /
   AlterContext PDUs (_create_bind, _create_alter_context, AuthenticationProvider.step).
   The peer is a script: replies to the two binds (Handshake.reply) and the two RESPONSE PDUs as byte streams.
   No proofs in this file. *)
From V Require Import Prelude.Base Prelude.PyInt Prelude.PySlice.
From V Require Import gen.K_client gen.C_client gen.C_rpc gen.C_gkdi gen.K_online gen.C_online.
From V Require Import Model.Pdu Model.Request Model.Bind Model.Verification Model.Epm.
From V Require Import Model.Handshake Model.Framing Model.Seal Model.Recv.
From V Require Import Model.Types Model.Gkdi.

(* ---- static data of _client.py, as structured values; Proofs/C17Consts.v proves that they pack to the byte strings the
        library's own objects pack to (c_onl_epm_contexts, c_onl_isd_contexts, c_onl_ept_map_stub, c_onl_vt) ---- *)
Definition NDR_syntax : syntax_id := {| sy_uuid := c_NDR_uuid; sy_version := c_NDR_version; sy_version_minor := c_NDR_version_minor |}.
Definition NDR64_syntax : syntax_id := {| sy_uuid := c_NDR64_uuid; sy_version := c_NDR64_version; sy_version_minor := c_NDR64_version_minor |}.
Definition EPM_syntax : syntax_id := {| sy_uuid := c_EPM_uuid; sy_version := c_EPM_version; sy_version_minor := c_EPM_version_minor |}.
Definition ISD_KEY_syntax : syntax_id :=
  {| sy_uuid := c_onl_ISD_KEY_uuid; sy_version := c_onl_ISD_KEY_version; sy_version_minor := c_onl_ISD_KEY_version_minor |}.

Definition epm_contexts : list context_element :=
  [ {| ce_context_id := 0; ce_abstract_syntax := EPM_syntax; ce_transfer_syntaxes := [NDR64_syntax] |} ].
Definition isd_key_contexts : list context_element :=
  [ {| ce_context_id := 0; ce_abstract_syntax := ISD_KEY_syntax; ce_transfer_syntaxes := [NDR64_syntax] |};
    {| ce_context_id := 1; ce_abstract_syntax := ISD_KEY_syntax; ce_transfer_syntaxes := [bind_time_feature_negotiation 0] |} ].
Definition ept_map_isd_key : ept_map :=
  {| em_obj := None; em_tower := build_tcpip_tower ISD_KEY_syntax NDR_syntax c_onl_ept_tower_port 0;
     em_entry_handle := None; em_max_towers := c_onl_ept_max_towers |}.
Definition verification_trailer : list command :=
  [ {| cmd_kind_of := CK_PContext ISD_KEY_syntax NDR64_syntax; cmd_command := c_CMD_PCONTEXT;
       cmd_flags := c_SEC_VT_COMMAND_END; cmd_value := [] |} ].

Definition context_ids (cs : list context_element) : list Z := map ce_context_id cs.

(* ---- the Bind / AlterContext PDUs behind Handshake's abstract `sent` records ---- *)
(* AuthenticationProvider.step: SecTrailer(type=provider, level=PKT_PRIVACY, pad_length=0, context_id=0, auth_value=token) *)
Definition step_trailer (pv : provider) (tok : bytes) : sec_trailer :=
  {| st_type := pv_type pv; st_level := k_onl_step_level c_PKT_PRIVACY; st_pad_length := k_onl_step_pad;
     st_context_id := k_onl_step_ctx; st_auth_value := tok |}.

(* the context elements with the given ids, in the order of the ids *)
Definition select_contexts (all : list context_element) (ids : list Z) : list context_element :=
  flat_map (fun i => filter (fun c => ce_context_id c =? i) all) ids.

Definition bind_pdu_of_sent (pv : provider) (all : list context_element) (p : sent) : bind_msg :=
  match p with
  | SBind fl tk ids =>
    {| b_header := create_pdu_header c_PT_BIND (match tk with Some t => len t | None => 0 end) k_onl_bind_call_id fl;
       b_sec_trailer := match tk with Some t => Some (step_trailer pv t) | None => None end;
       b_max_xmit_frag := k_onl_bind_max_xmit; b_max_recv_frag := k_onl_bind_max_recv; b_assoc_group := k_onl_bind_assoc;
       b_contexts := select_contexts all ids |}
  | SAlter fl tk ids =>
    {| b_header := create_pdu_header c_PT_ALTER_CONTEXT (len tk) k_onl_alter_call_id fl;
       b_sec_trailer := Some (step_trailer pv tk);
       b_max_xmit_frag := k_onl_alter_max_xmit; b_max_recv_frag := k_onl_alter_max_recv; b_assoc_group := k_onl_alter_assoc;
       b_contexts := select_contexts all ids |}
  end.

(* ---- one rpc.request(...) : frame and send, read one PDU from the stream, _process_response ---- *)
Inductive flavour := Sync | Async.

Definition recv_pdu (f : flavour) (reply_stream : bytes) (sch : list Z) : res bytes :=
  match f with
  | Sync => match sync_recv_pdu {| stream := reply_stream; sched := sch |} with
            | (Ok (pdu, _), _) => Ok pdu
            | (Raise e, _) => Raise e
            end
  | Async => let* (pdu, _) := async_recv_pdu reply_stream in Ok pdu
  end.

Definition is_some {A} (o : option A) : bool := match o with Some _ => true | None => false end.

Definition receive_response (f : flavour) (unwrap : unwrap_fn) (auth : option provider) (offs : option (Z * Z))
    (sign_header : bool) (reply_stream : bytes) (sch : list Z) : res response :=
  let* pdu := recv_pdu f reply_stream sch in
  let* hdr := pdu_header_unpack (firstn 16 pdu) in
  process_response unwrap (is_some auth) offs sign_header hdr pdu.

Definition rpc_request (f : flavour) (wrap : wrap_fn) (unwrap : unwrap_fn) (auth : option provider) (sign_header : bool)
    (context_id opnum : Z) (stub : bytes) (vt : option bytes) (reply_stream : bytes) (sch : list Z)
  : res (bytes * option wrap_args) * res response :=
  match send_request wrap auth sign_header context_id opnum stub vt with
  | Raise e => (Raise e, Raise e)
  | Ok sent_req =>
    (Ok sent_req,
     receive_response f unwrap auth (snd (create_request auth context_id opnum stub vt)) sign_header reply_stream sch)
  end.

(* ---- the peer as a script, and what the client is observed to do ---- *)
Record dc_script := {
  ds_epm_srv : list reply;        (* replies to the bind on the endpoint-mapper connection *)
  ds_ept_stream : bytes;          (* what that connection delivers after the ept_map request *)
  ds_isd_srv : list reply;        (* replies to the bind / alter_context PDUs on the ISD_KEY connection *)
  ds_getkey_stream : bytes;       (* what that connection delivers after the GetKey request *)
  ds_sched : list Z }.            (* TCP segmentation of the two streams (sync flavour) *)

Record transcript := {
  tr_epm_binds : list bind_msg;                         (* PDUs of the first bind() *)
  tr_ept_request : option (bytes * option wrap_args);   (* the ept_map REQUEST on the wire *)
  tr_port : option Z;                                   (* port the second connection goes to *)
  tr_isd_binds : list bind_msg;                         (* Bind + AlterContext PDUs of the second bind() *)
  tr_steps : list (option bytes);                       (* arguments handed to the provider's step() *)
  tr_sign : bool;                                       (* header signing in force for the request *)
  tr_getkey_request : option (bytes * option wrap_args) (* the GetKey REQUEST: wire and what was handed to wrap *)
}.
Definition tr0 : transcript :=
  {| tr_epm_binds := []; tr_ept_request := None; tr_port := None; tr_isd_binds := []; tr_steps := []; tr_sign := false;
     tr_getkey_request := None |}.
Definition tr_epm (t : transcript) (b : list bind_msg) : transcript :=
  {| tr_epm_binds := b; tr_ept_request := tr_ept_request t; tr_port := tr_port t; tr_isd_binds := tr_isd_binds t;
     tr_steps := tr_steps t; tr_sign := tr_sign t; tr_getkey_request := tr_getkey_request t |}.
Definition tr_ept (t : transcript) (r : option (bytes * option wrap_args)) : transcript :=
  {| tr_epm_binds := tr_epm_binds t; tr_ept_request := r; tr_port := tr_port t; tr_isd_binds := tr_isd_binds t;
     tr_steps := tr_steps t; tr_sign := tr_sign t; tr_getkey_request := tr_getkey_request t |}.
Definition tr_set_port (t : transcript) (p : Z) : transcript :=
  {| tr_epm_binds := tr_epm_binds t; tr_ept_request := tr_ept_request t; tr_port := Some p; tr_isd_binds := tr_isd_binds t;
     tr_steps := tr_steps t; tr_sign := tr_sign t; tr_getkey_request := tr_getkey_request t |}.
Definition tr_isd (t : transcript) (b : list bind_msg) (st : list (option bytes)) (sg : bool) : transcript :=
  {| tr_epm_binds := tr_epm_binds t; tr_ept_request := tr_ept_request t; tr_port := tr_port t; tr_isd_binds := b;
     tr_steps := st; tr_sign := sg; tr_getkey_request := tr_getkey_request t |}.
Definition tr_getkey (t : transcript) (r : option (bytes * option wrap_args)) : transcript :=
  {| tr_epm_binds := tr_epm_binds t; tr_ept_request := tr_ept_request t; tr_port := tr_port t; tr_isd_binds := tr_isd_binds t;
     tr_steps := tr_steps t; tr_sign := tr_sign t; tr_getkey_request := r |}.

Definition ok_opt {A} (r : res A) : option A := match r with Ok a => Some a | Raise _ => None end.

(* get_key = GetKey(target_sd, root_key_id, l0, l1, l2): positional arguments as the flavour's call site passes them *)
Definition getkey_of (f : flavour) (target_sd : bytes) (root_key_id : option bytes) (l0 l1 l2 : Z) : getkey :=
  match f with
  | Sync => {| gk_target_sd := k_onl_getkey_arg0 target_sd;
               gk_root_key_id := match root_key_id with Some r => Some (k_onl_getkey_arg1 r) | None => None end;
               gk_l0 := k_onl_getkey_arg2 l0; gk_l1 := k_onl_getkey_arg3 l1; gk_l2 := k_onl_getkey_arg4 l2 |}
  | Async => {| gk_target_sd := k_onl_agetkey_arg0 target_sd;
                gk_root_key_id := match root_key_id with Some r => Some (k_onl_agetkey_arg1 r) | None => None end;
                gk_l0 := k_onl_agetkey_arg2 l0; gk_l1 := k_onl_agetkey_arg3 l1; gk_l2 := k_onl_agetkey_arg4 l2 |}
  end.

(* the GetKey request on the authenticated connection:
   rpc.request(context_id, get_key.opnum, get_key.pack(), verification_trailer=_VERIFICATION_TRAILER) *)
Definition isd_request (f : flavour) (wrap : wrap_fn) (unwrap : unwrap_fn) (pv : provider) (sign_header : bool)
    (g : getkey) (reply_stream : bytes) (sch : list Z) : res (bytes * option wrap_args) * res response :=
  match GetKey_pack g with
  | Raise e => (Raise e, Raise e)
  | Ok stub => rpc_request f wrap unwrap (Some pv) sign_header c_onl_isd_ctx_id c_onl_getkey_opnum stub (Some c_onl_vt)
                 reply_stream sch
  end.

(* the second half: connection to the ISD_KEY port *)
Definition isd_key_phase (f : flavour) (wrap : wrap_fn) (unwrap : unwrap_fn) (pv : provider) (legs : list leg)
    (dc : dc_script) (g : getkey) (t : transcript) : res envelope * transcript :=
  let ids := context_ids isd_key_contexts in
  let context_id := c_onl_isd_ctx_id in
  let '(r, s) := bind_run true legs (ds_isd_srv dc) ids in
  let t := tr_isd t (map (bind_pdu_of_sent pv isd_key_contexts) (trace s)) (steps s) (sign s) in
  match r with
  | Raise e => (Raise e, t)
  | Ok results =>
    match process_bind_result ids results context_id with
    | Raise e => (Raise e, t)
    | Ok _ =>
      let '(sent_req, resp) := isd_request f wrap unwrap pv (sign s) g (ds_getkey_stream dc) (ds_sched dc) in
      let t := tr_getkey t (ok_opt sent_req) in
      match resp with
      | Raise e => (Raise e, t)
      | Ok rsp =>
        (* _process_get_key_result(resp) *)
        (process_get_key_result (rs_stub_data rsp)
           (match rs_sec_trailer rsp with Some st => Some (st_pad_length st) | None => None end), t)
      end
    end
  end.

(* _sync_get_key / _async_get_key (server, target_sd, root_key_id, l0, l1, l2, username, password, auth_protocol):
   pv / legs stand for the AuthenticationProvider built from (username, password, server, auth_protocol) *)
Definition get_key_conversation (f : flavour) (wrap : wrap_fn) (unwrap : unwrap_fn) (pv : provider) (legs : list leg)
    (dc : dc_script) (target_sd : bytes) (root_key_id : option bytes) (l0 l1 l2 : Z) : res envelope * transcript :=
  let ids := context_ids epm_contexts in
  let context_id := c_onl_epm_ctx_id in
  let '(r, s) := bind_run false [] (ds_epm_srv dc) ids in
  let t := tr_epm tr0 (map (bind_pdu_of_sent pv epm_contexts) (trace s)) in
  match r with
  | Raise e => (Raise e, t)
  | Ok results =>
    match process_bind_result ids results context_id with
    | Raise e => (Raise e, t)
    | Ok _ =>
      let req_ctx := match f with Sync => k_onl_sync_epm_ctx context_id | Async => k_onl_async_epm_ctx context_id end in
      let '(sent_req, resp) := rpc_request f wrap unwrap None (sign s) req_ctx c_onl_ept_map_opnum c_onl_ept_map_stub None
                                 (ds_ept_stream dc) (ds_sched dc) in
      let t := tr_ept t (ok_opt sent_req) in
      match resp with
      | Raise e => (Raise e, t)
      | Ok rsp =>
        match process_ept_map_result (S (length (rs_stub_data rsp))) (rs_stub_data rsp) with
        | Raise e => (Raise e, t)
        | Ok (isd_key_port, _) =>
          isd_key_phase f wrap unwrap pv legs dc (getkey_of f target_sd root_key_id l0 l1 l2) (tr_set_port t isd_key_port)
        end
      end
    end
  end.

(* ---- the call sites in the four public functions (cache miss) ---- *)
(* ncrypt_unprotect_secret / async_ncrypt_unprotect_secret:
   _sync_get_key(server, target_sd, blob.key_identifier.root_key_identifier, .l0, .l1, .l2, username=..., ...) *)
Definition unprotect_get_key (f : flavour) (wrap : wrap_fn) (unwrap : unwrap_fn) (pv : provider) (legs : list leg)
    (dc : dc_script) (target_sd : bytes) (kid : key_identifier) : res envelope * transcript :=
  match f with
  | Sync => get_key_conversation Sync wrap unwrap pv legs dc (k_onl_unprot_arg1 target_sd) (Some (k_onl_unprot_arg2 (kid_rkid kid)))
              (k_onl_unprot_arg3 (kid_l0 kid)) (k_onl_unprot_arg4 (kid_l1 kid)) (k_onl_unprot_arg5 (kid_l2 kid))
  | Async => get_key_conversation Async wrap unwrap pv legs dc (k_onl_aunprot_arg1 target_sd) (Some (k_onl_aunprot_arg2 (kid_rkid kid)))
               (k_onl_aunprot_arg3 (kid_l0 kid)) (k_onl_aunprot_arg4 (kid_l1 kid)) (k_onl_aunprot_arg5 (kid_l2 kid))
  end.

(* ncrypt_protect_secret / async_ncrypt_protect_secret: _sync_get_key(server, sd, root_key_identifier, l0, l1, l2, ...) with
   l0 = l1 = l2 = -1 (the three closed kernels) *)
Definition protect_get_key (f : flavour) (wrap : wrap_fn) (unwrap : unwrap_fn) (pv : provider) (legs : list leg)
    (dc : dc_script) (sd : bytes) (root_key_identifier : option bytes) : res envelope * transcript :=
  match f with
  | Sync => get_key_conversation Sync wrap unwrap pv legs dc (k_onl_prot_arg1 sd)
              (match root_key_identifier with Some r => Some (k_onl_prot_arg2 r) | None => None end)
              k_onl_prot_arg3 k_onl_prot_arg4 k_onl_prot_arg5
  | Async => get_key_conversation Async wrap unwrap pv legs dc (k_onl_aprot_arg1 sd)
               (match root_key_identifier with Some r => Some (k_onl_aprot_arg2 r) | None => None end)
               k_onl_aprot_arg3 k_onl_aprot_arg4 k_onl_aprot_arg5
  end.
