(* area cache: the KeyCache model instantiated with symbolic KDF terms (K := res bytes). *)
From Coq Require Import String.
From V Require Import Prelude.Base Prelude.Val Prelude.PySlice gen.Kernels gen.K_cache.
From V Require Import Model.Crypto Model.Sym Model.Types Model.Chain Model.Cache Spec.GkdiSpec.

Definition KK := res bytes.
Record tables := { t_sds : list bytes; t_rkids : list bytes }.
Definition tab (l : list bytes) (i : Z) : bytes := nth (Z.to_nat i) l [].

Definition hash_of_id (i : Z) : hash :=
  if i =? 1 then SHA1 else if i =? 2 then SHA256 else if i =? 3 then SHA384 else SHA512.

Definition RKD := (bytes * Z)%type.   (* root key data, hash id *)

Section Inst.
Variable T : tables.
Variable h : Z.     (* the hash every key of this run uses *)
Definition ukdf (rk l0 : Z) (k : KK) (a b : Z) : KK := kdfK sym (hash_of_id h) (tab (t_rkids T) rk) l0 k a b.
Definition ul1seed (d : RKD) (rk sd l0 : Z) : KK :=
  compute_l1_key sym (hash_of_id (snd d)) (tab (t_sds T) sd) (tab (t_rkids T) rk) l0 (fst d).
Definition unokey : KK := Ok [].

(* the reference domain controller: conforming envelopes from the true root key *)
Variable true_root : RKD.
Variable dc_rk : Z.
Variable dc_now : Z * Z * Z.
Variable dc_pub : bool.
Definition udc (sd : Z) (rko : option Z) (l0 l1 l2 : Z) : cenv (K := KK) :=
  let rk := match rko with Some r => r | None => dc_rk end in
  let '(p0, p1, p2) := if l0 =? (-1) then dc_now else (l0, l1, l2) in
  let top := ul1seed true_root rk sd p0 in
  let k1 := K1 (ukdf rk p0) top in
  let k2 := K2 (ukdf rk p0) top in
  if dc_pub then {| c_rk := rk; c_l0 := p0; c_l1 := p1; c_l2 := p2; c_pub := true; c_k1 := unokey; c_k2 := Ok [80; 85; 66] |}
  else {| c_rk := rk; c_l0 := p0; c_l1 := p1; c_l2 := p2; c_pub := false;
          c_k1 := if p2 =? 31 then k1 p1 else if 0 <? p1 then k1 (p1 - 1) else unokey;
          c_k2 := k2 p1 p2 |}.

Definition urun := run_events (K := KK) (RK := RKD) ukdf ul1seed unokey udc.

(* the key a blob at (rk, sd, l0, l1, l2) was really protected with *)
Definition true_key (sd rk l0 l1 l2 : Z) : KK :=
  K2 (ukdf rk l0) (ul1seed true_root rk sd l0) l1 l2.
End Inst.

Definition kk_eqb (a b : KK) : bool :=
  match a, b with Ok x, Ok y => bytes_eqb x y | _, _ => false end.

Definition call_of_val (v : val) : option (event (RK := RKD)) :=
  match v with
  | VL [VI 0; VI rk; VB key; VI hid] => Some (Start (CLoad rk (key, hid)))
  | VL [VI 1; VI sd; VI rk; VI l0; VI l1; VI l2] => Some (Start (CUnprotect sd rk l0 l1 l2))
  | VL [VI 2; VI sd; VI rk; VI l0; VI l1; VI l2] => Some (Start (CProtect sd (Some rk) l0 l1 l2))
  | VL [VI 2; VI sd; VN; VI l0; VI l1; VI l2] => Some (Start (CProtect sd None l0 l1 l2))
  | VL [VI 3; VI i] => Some (Finish (Z.to_nat i))
  | _ => None
  end.
Fixpoint events_of_vals (l : list val) : option (list event) :=
  match l with
  | [] => Some []
  | v :: r => match call_of_val v, events_of_vals r with Some a, Some m => Some (a :: m) | _, _ => None end
  end.
Fixpoint bytes_list_of_vals (l : list val) : option (list bytes) :=
  match l with
  | [] => Some []
  | VB b :: r => match bytes_list_of_vals r with Some m => Some (b :: m) | None => None end
  | _ => None
  end.

(* [sds; rkids; hash; [true root key]; dc_rk; [now0;now1;now2]; dc_pub; events]
   -> per completed call, in completion order: [key-or-error; l0; l1; l2; pub; rpcs] ; then pending count *)
Definition u_cache_run (a : val) : val :=
  match a with
  | VL [VI _flavour; VL sds; VL rkids; VI h; VB rootkey; VI dcrk; VL [VI n0; VI n1; VI n2]; VI pub; VL evs] =>
    match bytes_list_of_vals sds, bytes_list_of_vals rkids, events_of_vals evs with
    | Some s, Some r, Some es =>
      let T := {| t_sds := s; t_rkids := r |} in
      let w := urun T h (rootkey, h) dcrk (n0, n1, n2) (negb (pub =? 0)) es in
      VL [VL (map (fun o => let '(l0, l1, l2) := o_pos o in
                     VL [match o_key o with Ok (Ok k) => VB k | Ok (Raise e) => VE e | Raise e => VE e end;
                         VI l0; VI l1; VI l2; vbool (o_pub o); VI (o_rpcs o)]) (w_out w));
          VI (len (w_pending w))]
    | _, _, _ => bad
    end
  | _ => bad
  end.
(* [sds; rkids; hash; rootkey; sd; rk; l0; l1; l2] -> the true chain key of that position *)
Definition u_true_key (a : val) : val :=
  match a with
  | VL [VL sds; VL rkids; VI h; VB rootkey; VI sd; VI rk; VI l0; VI l1; VI l2] =>
    match bytes_list_of_vals sds, bytes_list_of_vals rkids with
    | Some s, Some r => vres VB (true_key {| t_sds := s; t_rkids := r |} h (rootkey, h) sd rk l0 l1 l2)
    | _, _ => bad
    end
  | _ => bad
  end.

Open Scope string_scope.
Definition units : list (string * (val -> val)) :=
  [ ("cache.run", u_cache_run); ("cache.true_key", u_true_key) ].

Fixpoint lookup (n : string) (l : list (string * (val -> val))) : option (val -> val) :=
  match l with
  | [] => None
  | (k, f) :: r => if String.eqb n k then Some f else lookup n r
  end.
Definition run (name : string) (arg : val) : val :=
  match lookup name units with Some f => f arg | None => VE KeyError end.
