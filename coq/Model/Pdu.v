(* _rpc/_pdu.py: DataRep, PDUHeader, SecTrailer, the common part of PDU.unpack (header, fragment cut,
   security trailer) and Fault.  Function-for-function after the Python; decoders are faithful on
   arbitrary bytes (memoryview slicing clamps, view[i] raises IndexError, IntEnum lookup raises
   ValueError, IntFlag accepts every octet, int.from_bytes accepts short input).
   Encoders are `concat [fields]` like the b"".join([...]) in the source; `le w z` is
   z.to_bytes(w, "little") for 0 <= z < 256^w (outside that range Python raises OverflowError; the
   wf_* predicates state the ranges and every statement about pack is made under them).
   Enum domains, the dispatch keys and the flag masks come from gen/C_rpc.v and gen/K_rpc.v.
   No proofs in this file. *)
From V Require Export Prelude.Base Prelude.PyInt Prelude.PySlice.
From V Require Export gen.K_rpc gen.C_rpc.

(* ---- enum lookup: IntEnum(value) succeeds exactly on the declared members --------------------- *)
Definition mem (x : Z) (l : list Z) : bool := existsb (Z.eqb x) l.
Definition enum_lookup (members : list Z) (x : Z) : res Z :=
  if mem x members then Ok x else Raise ValueError.
Definition in_range (w : nat) (z : Z) : bool := (0 <=? z) && (z <? P w).

(* ---- DataRep ---------------------------------------------------------------------------------- *)
Record data_rep := { dr_byte_order : Z; dr_character : Z; dr_floating_point : Z }.

Definition data_rep_pack (d : data_rep) : bytes :=
  concat [ le 1 (k_datarep_first_octet (dr_byte_order d) (dr_character d));
           le 1 (dr_floating_point d);
           [0; 0] ].

Definition data_rep_unpack (view : bytes) : res data_rep :=
  let* b0 := index view 0 in
  let* byte_order := enum_lookup c_IntegerRep_values (Z.shiftr (Z.land b0 240) 4) in
  let* character := enum_lookup c_CharacterRep_values (Z.land b0 15) in
  let* b1 := index view 1 in
  let* floating_point := enum_lookup c_FloatingPointRep_values b1 in
  Ok {| dr_byte_order := byte_order; dr_character := character; dr_floating_point := floating_point |}.

Definition wf_data_rep (d : data_rep) : bool :=
  mem (dr_byte_order d) c_IntegerRep_values && mem (dr_character d) c_CharacterRep_values
  && mem (dr_floating_point d) c_FloatingPointRep_values.

Definition data_rep_default : data_rep := {| dr_byte_order := 1; dr_character := 0; dr_floating_point := 0 |}.

(* ---- PDUHeader -------------------------------------------------------------------------------- *)
Record pdu_header := {
  h_version : Z; h_version_minor : Z; h_packet_type : Z; h_packet_flags : Z; h_data_rep : data_rep;
  h_frag_len : Z; h_auth_len : Z; h_call_id : Z }.

Definition pdu_header_pack (h : pdu_header) : bytes :=
  concat [ le 1 (h_version h); le 1 (h_version_minor h); le 1 (h_packet_type h); le 1 (h_packet_flags h);
           data_rep_pack (h_data_rep h);
           le 2 (h_frag_len h); le 2 (h_auth_len h); le 4 (h_call_id h) ].

Definition pdu_header_unpack (view : bytes) : res pdu_header :=
  let* version := index view 0 in
  let* version_minor := index view 1 in
  let* b2 := index view 2 in
  let* packet_type := enum_lookup c_PacketType_values b2 in
  let* packet_flags := index view 3 in              (* PacketFlags is an IntFlag: every octet is accepted *)
  let* data_rep := data_rep_unpack (slice (Some 4) (Some 8) view) in
  Ok {| h_version := version; h_version_minor := version_minor; h_packet_type := packet_type;
        h_packet_flags := packet_flags; h_data_rep := data_rep;
        h_frag_len := le_val (slice (Some 8) (Some 10) view);
        h_auth_len := le_val (slice (Some 10) (Some 12) view);
        h_call_id := le_val (slice (Some 12) (Some 16) view) |}.

Definition wf_pdu_header (h : pdu_header) : bool :=
  in_range 1 (h_version h) && in_range 1 (h_version_minor h) && mem (h_packet_type h) c_PacketType_values
  && in_range 1 (h_packet_flags h) && wf_data_rep (h_data_rep h)
  && in_range 2 (h_frag_len h) && in_range 2 (h_auth_len h) && in_range 4 (h_call_id h).

(* ---- SecTrailer ------------------------------------------------------------------------------- *)
Record sec_trailer := { st_type : Z; st_level : Z; st_pad_length : Z; st_context_id : Z; st_auth_value : bytes }.

Definition sec_trailer_pack (s : sec_trailer) : bytes :=
  concat [ le 1 (st_type s); le 1 (st_level s); le 1 (st_pad_length s); [0];
           le 4 (st_context_id s); st_auth_value s ].

Definition sec_trailer_unpack (view : bytes) : res sec_trailer :=
  let* b0 := index view 0 in
  let* type := enum_lookup c_SecurityProvider_values b0 in
  let* b1 := index view 1 in
  let* level := enum_lookup c_AuthenticationLevel_values b1 in
  let* pad_length := index view 2 in
  Ok {| st_type := type; st_level := level; st_pad_length := pad_length;
        st_context_id := le_val (slice (Some 4) (Some 8) view);
        st_auth_value := slice (Some 8) None view |}.

Definition wf_sec_trailer (s : sec_trailer) : bool :=
  mem (st_type s) c_SecurityProvider_values && mem (st_level s) c_AuthenticationLevel_values
  && in_range 1 (st_pad_length s) && in_range 4 (st_context_id s) && wfb (st_auth_value s).

(* `self.sec_trailer.pack() if self.sec_trailer else b""` (a dataclass instance is always truthy) *)
Definition opt_sec_trailer_pack (s : option sec_trailer) : bytes :=
  match s with Some t => sec_trailer_pack t | None => [] end.

(* ---- PDU.unpack up to the registry dispatch --------------------------------------------------- *)
(* header = PDUHeader.unpack(view); view = view[16:frag_len]; if header.auth_len: trailer from the
   last auth_len + 8 octets of the fragment, body = what is in front of it. *)
Definition pdu_split (data : bytes) : res (bytes * pdu_header * option sec_trailer) :=
  let* header := pdu_header_unpack data in
  let view := slice (Some 16) (Some (h_frag_len header)) data in
  if k_pdu_has_trailer (h_auth_len header) then
    let* st := sec_trailer_unpack (slice (Some (- (h_auth_len header + 8))) None view) in
    Ok (slice None (Some (- (h_auth_len header + 8))) view, header, Some st)
  else Ok (view, header, None).

(* _PACKET_TYPE_REGISTRY[header.packet_type]: KeyError for a valid PacketType nobody registered *)
Definition registry_lookup (packet_type : Z) : res Z :=
  if mem packet_type c_PDU_registry then Ok packet_type else Raise KeyError.

(* consistency of the header's length fields with the message it heads (what RpcClient._prepare_pdu
   and the server establish): frag_len is the length of the packed PDU, auth_len the length of the
   auth value, and a trailer is present iff auth_len is non-zero. *)
Definition wf_lengths (h : pdu_header) (total : Z) (s : option sec_trailer) : bool :=
  (h_frag_len h =? total) &&
  match s with
  | Some t => (h_auth_len h =? len (st_auth_value t)) && (0 <? h_auth_len h) && wf_sec_trailer t
  | None => h_auth_len h =? 0
  end.

(* ---- Fault ------------------------------------------------------------------------------------ *)
Record fault := {
  f_header : pdu_header; f_sec_trailer : option sec_trailer;
  f_alloc_hint : Z; f_context_id : Z; f_cancel_count : Z; f_status : Z; f_flags : Z; f_stub_data : bytes }.

Definition fault_body (m : fault) : bytes :=
  concat [ le 4 (f_alloc_hint m); le 2 (f_context_id m); le 1 (f_cancel_count m); le 1 (f_flags m);
           le 4 (f_status m); [0; 0; 0; 0]; f_stub_data m ].
Definition fault_pack (m : fault) : bytes :=
  pdu_header_pack (f_header m) ++ fault_body m ++ opt_sec_trailer_pack (f_sec_trailer m).

Definition fault_unpack (view : bytes) (header : pdu_header) (st : option sec_trailer) : res fault :=
  let alloc_hint := le_val (slice None (Some 4) view) in
  let context_id := le_val (slice (Some 4) (Some 6) view) in
  let* cancel_count := index view 6 in
  let* flags := index view 7 in                      (* FaultFlags is an IntFlag *)
  Ok {| f_header := header; f_sec_trailer := st; f_alloc_hint := alloc_hint; f_context_id := context_id;
        f_cancel_count := cancel_count; f_status := le_val (slice (Some 8) (Some 12) view);
        f_flags := flags; f_stub_data := slice (Some 16) None view |}.

Definition wf_fault (m : fault) : bool :=
  wf_pdu_header (f_header m) && (h_packet_type (f_header m) =? c_PT_FAULT)
  && wf_lengths (f_header m) (len (fault_pack m)) (f_sec_trailer m)
  && in_range 4 (f_alloc_hint m) && in_range 2 (f_context_id m) && in_range 1 (f_cancel_count m)
  && in_range 4 (f_status m) && in_range 1 (f_flags m) && wfb (f_stub_data m).
