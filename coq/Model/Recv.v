(* _rpc/_client.py: how SyncRpcClient._send_pdu / AsyncRpcClient._send_pdu read one reply PDU
   from the transport. The transport is the byte stream still to come plus a schedule of TCP
   segment sizes; recv(n) returns between 1 and n bytes, or b"" only at end of stream. *)
From V Require Import Prelude.Base Prelude.PyInt Prelude.PySlice.

Record transport := { stream : bytes; sched : list Z }.

(* socket.recv(n) / recv_into(view of n bytes), n > 0 *)
Definition recv (n : Z) (t : transport) : bytes * transport :=
  match stream t with
  | [] => ([], t)
  | _ =>
    let chunk := match sched t with [] => n | c :: _ => Z.max 1 c end in
    let k := Z.to_nat (Z.min n chunk) in
    (firstn k (stream t), {| stream := skipn k (stream t); sched := tl (sched t) |})
  end.

(* the read-exactly loop (header loop and body loop have this shape): returns the result and
   the number of recv calls made *)
Fixpoint recv_exactly (fuel : nat) (need : Z) (acc : bytes) (t : transport) (reads : nat)
  : res (bytes * transport) * nat :=
  if need <=? 0 then (Ok (acc, t), reads) else
  match fuel with
  | O => (Raise OutOfFuel, reads)
  | S f =>
    let '(d, t') := recv need t in
    match d with
    | [] => (Raise EOFError, S reads)
    | _ => recv_exactly f (need - len d) (acc ++ d) t' (S reads)
    end
  end.

(* the part of PDUHeader.unpack that can fail on a 16-byte header, and frag_len *)
Definition known_ptype (p : Z) : bool := ((0 <=? p) && (p <=? 15)) || ((17 <=? p) && (p <=? 19)).
Definition header_frag_len (h : bytes) : res Z :=
  let* ptype := index h 2 in
  let* drep0 := index h 4 in
  let* drep1 := index h 5 in
  if negb (known_ptype ptype) then Raise ValueError else
  if negb (Z.shiftr (Z.land drep0 240) 4 <=? 1) then Raise ValueError else
  if negb (Z.land drep0 15 <=? 1) then Raise ValueError else
  if negb (drep1 <=? 3) then Raise ValueError else
  Ok (le_val (slice (Some 8) (Some 10) h)).

Definition RECV_FUEL (t : transport) : nat := S (length (stream t)).

(* SyncRpcClient._send_pdu after sendall: returns the reassembled PDU bytes *)
Definition sync_recv_pdu (t : transport) : res (bytes * transport) * nat :=
  match recv_exactly (RECV_FUEL t) 16 [] t 0 with
  | (Raise e, r) => (Raise e, r)
  | (Ok (header, t1), r) =>
    match header_frag_len header with
    | Raise e => (Raise e, r)
    | Ok frag_len =>
      if frag_len <? 16 then (Raise ValueError, r)   (* view[:16] = header on a shorter bytearray *)
      else
        match recv_exactly (RECV_FUEL t1) (frag_len - 16) [] t1 r with
        | (Raise e, r') => (Raise e, r')
        | (Ok (body, t2), r') => (Ok (header ++ body, t2), r')
        end
    end
  end.

(* asyncio.StreamReader.readexactly(n): exactly n bytes or IncompleteReadError; n < 0 is ValueError *)
Definition readexactly (n : Z) (s : bytes) : res (bytes * bytes) :=
  if n <? 0 then Raise ValueError else
  if len s <? n then Raise IncompleteRead else Ok (firstn (Z.to_nat n) s, skipn (Z.to_nat n) s).

Definition async_recv_pdu (s : bytes) : res (bytes * bytes) :=
  let* (header, s1) := readexactly 16 s in
  let* frag_len := header_frag_len header in
  let* (body, s2) := readexactly (frag_len - 16) s1 in
  Ok (header ++ body, s2).
