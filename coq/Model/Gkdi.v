(* _gkdi.py: GetKey.pack/unpack/unpack_response, KDFParameters, FFCDHParameters, FFCDHKey,
   ECDHKey, GroupKeyEnvelope.pack/unpack and _client._process_get_key_result. Function for
   function after the Python; decoders faithful on arbitrary input (slice clamping, short
   int.from_bytes, exception classes). No proofs here (Proofs/Gkdi*.v). *)
From Coq Require Import String Ascii.
From V Require Import Prelude.Base Prelude.PyInt Prelude.PySlice Prelude.PyStr.
From V Require Import gen.C_gkdi gen.K_gkdi Model.Types Model.Crypto Model.KeyId.

(* Python str literals as code point lists *)
Definition ascii_str (s : string) : pystr :=
  List.map (fun a => Z.of_N (N_of_ascii a)) (list_ascii_of_string s).
Definition str_eqb (a b : pystr) : bool := beqb a b.
Definition zeros (n : Z) : bytes := repeat 0 (Z.to_nat n).   (* b"\x00" * n  (n <= 0 gives b"") *)

(* int.to_bytes(length, "big") with an int length: negative length is a ValueError *)
Definition to_bytes_be_z (n v : Z) : res bytes :=
  if n <? 0 then Raise ValueError else to_bytes_be (Z.to_nat n) v.

(* ------------------------------------------------------------------ GetKey *)
Record getkey := { gk_target_sd : bytes; gk_root_key_id : option bytes; gk_l0 : Z; gk_l1 : Z; gk_l2 : Z }.

Definition GetKey_fields (g : getkey) : res (list bytes) :=
  let* target_sd_len := to_bytes_le 8 (len (gk_target_sd g)) in
  let b_root_key := match gk_root_key_id g with
                    | Some rk => c_GETKEY_REFERENT ++ rk
                    | None => c_GETKEY_NULLPTR
                    end in
  let* f_l0 := to_bytes_le_signed 4 (gk_l0 g) in
  let* f_l1 := to_bytes_le_signed 4 (gk_l1 g) in
  let* f_l2 := to_bytes_le_signed 4 (gk_l2 g) in
  Ok [ target_sd_len; target_sd_len; gk_target_sd g; zeros ((- len (gk_target_sd g)) mod 8);
       b_root_key; f_l0; f_l1; f_l2 ].
Definition GetKey_pack (g : getkey) : res bytes := let* fs := GetKey_fields g in Ok (concat fs).

Definition GetKey_unpack (data : bytes) : res getkey :=
  let view := data in
  let target_sd_len := le_val (slice None (Some 4) view) in
  let target_sd := slice (Some 16) (Some (16 + target_sd_len)) view in
  let padding := k_getkey_unpack_pad target_sd_len in
  let view := slice (Some (16 + target_sd_len + padding)) None view in
  let root_key_referent := slice None (Some 8) view in
  let* (root_key_id, view) :=
    (if beqb root_key_referent c_GETKEY_NULLPTR then Ok (None, slice (Some 8) None view)
     else let* u := uuid_of_bytes_le (slice (Some 8) (Some 24) view) in Ok (Some u, slice (Some 24) None view)) in
  let l0_key_id := le_val_signed (slice None (Some 4) view) in
  let l1_key_id := le_val_signed (slice (Some 4) (Some 8) view) in
  let l2_key_id := le_val_signed (slice (Some 8) (Some 12) view) in
  Ok {| gk_target_sd := target_sd; gk_root_key_id := root_key_id;
        gk_l0 := l0_key_id; gk_l1 := l1_key_id; gk_l2 := l2_key_id |}.

(* ------------------------------------------------------------------ KDFParameters *)
Definition KDFParameters_pack (hash_name : pystr) : res bytes :=
  let* b_hash_name := encode_utf16z hash_name in
  let* f_len := to_bytes_le 4 (len b_hash_name) in
  Ok (concat [ c_KDF_PARAMS_MAGIC0; f_len; c_KDF_PARAMS_MAGIC1; b_hash_name ]).

Definition KDFParameters_unpack (data : bytes) : res pystr :=
  let view := data in
  if negb (beqb (slice None (Some 8) view) c_KDF_PARAMS_MAGIC0) || negb (beqb (slice (Some 12) (Some 16) view) c_KDF_PARAMS_MAGIC1)
  then Raise ValueError else
  let hash_length := le_val (slice (Some 8) (Some 12) view) in
  utf16le_decode (slice (Some 16) (Some (16 + hash_length - 2)) view).

Definition hash_algorithm (hash_name : pystr) : res hash :=
  if str_eqb hash_name (ascii_str "SHA1") then Ok SHA1
  else if str_eqb hash_name (ascii_str "SHA256") then Ok SHA256
  else if str_eqb hash_name (ascii_str "SHA384") then Ok SHA384
  else if str_eqb hash_name (ascii_str "SHA512") then Ok SHA512
  else Raise NotImplementedError.

(* ------------------------------------------------------------------ FFCDHParameters *)
Record ffcdh_params := { ffp_key_length : Z; ffp_field_order : Z; ffp_generator : Z }.

Definition FFCDHParameters_pack (p : ffcdh_params) : res bytes :=
  let* b_field_order := to_bytes_be_z (ffp_key_length p) (ffp_field_order p) in
  let* b_generator := to_bytes_be_z (ffp_key_length p) (ffp_generator p) in
  let* f_len := to_bytes_le 4 (12 + len b_field_order + len b_generator) in
  let* f_kl := to_bytes_le 4 (ffp_key_length p) in
  Ok (concat [ f_len; c_FFCDH_PARAMS_MAGIC; f_kl; b_field_order; b_generator ]).

Definition FFCDHParameters_unpack (data : bytes) : res ffcdh_params :=
  let view := data in
  if negb (beqb (slice (Some 4) (Some 8) view) c_FFCDH_PARAMS_MAGIC) then Raise ValueError else
  let key_length := le_val (slice (Some 8) (Some 12) view) in
  let field_order := slice (Some 12) (Some (12 + key_length)) view in
  let generator := slice (Some (12 + key_length)) (Some (12 + key_length + key_length)) view in
  Ok {| ffp_key_length := key_length; ffp_field_order := be_val field_order; ffp_generator := be_val generator |}.

(* ------------------------------------------------------------------ FFCDHKey *)
Record ffcdh_key := { ffk_key_length : Z; ffk_field_order : Z; ffk_generator : Z; ffk_public_key : Z }.

Definition FFCDHKey_pack (k : ffcdh_key) : res bytes :=
  let* b_field_order := to_bytes_be_z (ffk_key_length k) (ffk_field_order k) in
  let* b_generator := to_bytes_be_z (ffk_key_length k) (ffk_generator k) in
  let* b_pub_key := to_bytes_be_z (ffk_key_length k) (ffk_public_key k) in
  let* f_kl := to_bytes_le 4 (ffk_key_length k) in
  Ok (concat [ c_FFCDH_KEY_MAGIC; f_kl; b_field_order; b_generator; b_pub_key ]).

Definition FFCDHKey_unpack (data : bytes) : res ffcdh_key :=
  let view := data in
  if negb (beqb (slice None (Some 4) view) c_FFCDH_KEY_MAGIC) then Raise ValueError else
  let key_length := le_val (slice (Some 4) (Some 8) view) in
  if k_ffcdhkey_short (len view) key_length then Raise ValueError else
  let field_order := slice (Some 8) (Some (8 + key_length)) view in
  let view := slice (Some (8 + key_length)) None view in
  let generator := slice None (Some key_length) view in
  let view := slice (Some key_length) None view in
  let public_key := slice None (Some key_length) view in
  Ok {| ffk_key_length := key_length; ffk_field_order := be_val field_order;
        ffk_generator := be_val generator; ffk_public_key := be_val public_key |}.

(* ------------------------------------------------------------------ ECDHKey *)
Record ecdh_key := { eck_curve_name : pystr; eck_key_length : Z; eck_x : Z; eck_y : Z }.

Definition curve_of_name (n : pystr) : option curve :=
  if str_eqb n (ascii_str "P256") then Some P256
  else if str_eqb n (ascii_str "P384") then Some P384
  else if str_eqb n (ascii_str "P521") then Some P521 else None.
Definition curve_name (c : curve) : pystr :=
  match c with P256 => ascii_str "P256" | P384 => ascii_str "P384" | P521 => ascii_str "P521" end.
Definition curve_magic (c : curve) : bytes :=
  match c with P256 => c_ECDH_P256_MAGIC | P384 => c_ECDH_P384_MAGIC | P521 => c_ECDH_P521_MAGIC end.
Definition curve_hash (c : curve) : hash := match c with P256 => SHA256 | P384 => SHA384 | P521 => SHA512 end.
(* ECDHKey.curve_and_hash: KeyError on an unknown name *)
Definition curve_and_hash (k : ecdh_key) : res (curve * hash) :=
  match curve_of_name (eck_curve_name k) with Some c => Ok (c, curve_hash c) | None => Raise KeyError end.

Definition ECDHKey_pack (k : ecdh_key) : res bytes :=
  let* b_x := to_bytes_be_z (eck_key_length k) (eck_x k) in
  let* b_y := to_bytes_be_z (eck_key_length k) (eck_y k) in
  match curve_of_name (eck_curve_name k) with
  | None => Raise ValueError
  | Some c =>
    let* f_kl := to_bytes_le 4 (eck_key_length k) in
    Ok (concat [ curve_magic c; f_kl; b_x; b_y ])
  end.

(* the ids of the unpack dictionary: 0x314B4345, 0x334B4345, 0x354B4345 *)
Definition curve_of_id (curve_id : Z) : option curve :=
  if curve_id =? 827016005 then Some P256
  else if curve_id =? 860570437 then Some P384
  else if curve_id =? 894124869 then Some P521 else None.

Definition ECDHKey_unpack (data : bytes) : res ecdh_key :=
  let view := data in
  let curve_id := le_val (slice None (Some 4) view) in
  match curve_of_id curve_id with
  | None => Raise ValueError
  | Some c =>
    let length := le_val (slice (Some 4) (Some 8) view) in
    let x := slice (Some 8) (Some (8 + length)) view in
    let view := slice (Some (8 + length)) None view in
    let y := slice None (Some length) view in
    Ok {| eck_curve_name := curve_name c; eck_key_length := length; eck_x := be_val x; eck_y := be_val y |}
  end.

(* ------------------------------------------------------------------ GroupKeyEnvelope *)
Definition gke_is_public_key (e : envelope) : bool := is_public_key_flags (gke_flags e).

Definition GroupKeyEnvelope_fields (e : envelope) : res (list bytes) :=
  let* b_kdf_algorithm := encode_utf16z (gke_kdf_alg e) in
  let* b_secret_algorithm := encode_utf16z (gke_secret_alg e) in
  let* b_domain_name := encode_utf16z (gke_domain e) in
  let* b_forest_name := encode_utf16z (gke_forest e) in
  let* f_version := to_bytes_le 4 (gke_version e) in
  let* f_flags := to_bytes_le 4 (gke_flags e) in
  let* f_l0 := to_bytes_le 4 (gke_l0 e) in
  let* f_l1 := to_bytes_le 4 (gke_l1 e) in
  let* f_l2 := to_bytes_le 4 (gke_l2 e) in
  let* f_kdf_alg_len := to_bytes_le 4 (len b_kdf_algorithm) in
  let* f_kdf_par_len := to_bytes_le 4 (len (gke_kdf_params e)) in
  let* f_sec_alg_len := to_bytes_le 4 (len b_secret_algorithm) in
  let* f_sec_par_len := to_bytes_le 4 (len (gke_secret_params e)) in
  let* f_priv_len := to_bytes_le 4 (gke_priv_len e) in
  let* f_pub_len := to_bytes_le 4 (gke_pub_len e) in
  let* f_l1_key_len := to_bytes_le 4 (len (gke_l1_key e)) in
  let* f_l2_key_len := to_bytes_le 4 (len (gke_l2_key e)) in
  let* f_domain_len := to_bytes_le 4 (len b_domain_name) in
  let* f_forest_len := to_bytes_le 4 (len b_forest_name) in
  Ok [ f_version; c_GKE_MAGIC; f_flags; f_l0; f_l1; f_l2; gke_rkid e;
       f_kdf_alg_len; f_kdf_par_len; f_sec_alg_len; f_sec_par_len; f_priv_len; f_pub_len;
       f_l1_key_len; f_l2_key_len; f_domain_len; f_forest_len;
       b_kdf_algorithm; gke_kdf_params e; b_secret_algorithm; gke_secret_params e;
       b_domain_name; b_forest_name; gke_l1_key e; gke_l2_key e ].
Definition GroupKeyEnvelope_pack (e : envelope) : res bytes :=
  let* fs := GroupKeyEnvelope_fields e in Ok (concat fs).

Definition GroupKeyEnvelope_unpack (data : bytes) : res envelope :=
  let view := data in
  let version := le_val (slice None (Some 4) view) in
  if negb (beqb (slice (Some 4) (Some 8) view) c_GKE_MAGIC) then Raise ValueError else
  let flags := le_val (slice (Some 8) (Some 12) view) in
  let l0_index := le_val (slice (Some 12) (Some 16) view) in
  let l1_index := le_val (slice (Some 16) (Some 20) view) in
  let l2_index := le_val (slice (Some 20) (Some 24) view) in
  let* root_key_identifier := uuid_of_bytes_le (slice (Some 24) (Some 40) view) in
  let kdf_algo_len := le_val (slice (Some 40) (Some 44) view) in
  let kdf_para_len := le_val (slice (Some 44) (Some 48) view) in
  let sec_algo_len := le_val (slice (Some 48) (Some 52) view) in
  let sec_para_len := le_val (slice (Some 52) (Some 56) view) in
  let priv_key_len := le_val (slice (Some 56) (Some 60) view) in
  let publ_key_len := le_val (slice (Some 60) (Some 64) view) in
  let l1_key_len := le_val (slice (Some 64) (Some 68) view) in
  let l2_key_len := le_val (slice (Some 68) (Some 72) view) in
  let domain_len := le_val (slice (Some 72) (Some 76) view) in
  let forest_len := le_val (slice (Some 76) (Some 80) view) in
  let view := slice (Some 80) None view in
  let* kdf_algo := utf16le_decode (slice None (Some (kdf_algo_len - 2)) view) in
  let view := slice (Some kdf_algo_len) None view in
  let kdf_param := slice None (Some kdf_para_len) view in
  let view := slice (Some kdf_para_len) None view in
  let* secret_algo := utf16le_decode (slice None (Some (sec_algo_len - 2)) view) in
  let view := slice (Some sec_algo_len) None view in
  let secret_param := slice None (Some sec_para_len) view in
  let view := slice (Some sec_para_len) None view in
  let* domain := utf16le_decode (slice None (Some (domain_len - 2)) view) in
  let view := slice (Some domain_len) None view in
  let* forest := utf16le_decode (slice None (Some (forest_len - 2)) view) in
  let view := slice (Some forest_len) None view in
  let l1_key := slice None (Some l1_key_len) view in
  let view := slice (Some l1_key_len) None view in
  let l2_key := slice None (Some l2_key_len) view in
  Ok {| gke_version := version; gke_flags := flags; gke_l0 := l0_index; gke_l1 := l1_index; gke_l2 := l2_index;
        gke_rkid := root_key_identifier; gke_kdf_alg := kdf_algo; gke_kdf_params := kdf_param;
        gke_secret_alg := secret_algo; gke_secret_params := secret_param;
        gke_priv_len := priv_key_len; gke_pub_len := publ_key_len; gke_domain := domain; gke_forest := forest;
        gke_l1_key := l1_key; gke_l2_key := l2_key |}.

(* ------------------------------------------------------------------ GetKey.unpack_response *)
Definition GetKey_unpack_response (data : bytes) : res envelope :=
  let view := data in
  let hresult := le_val (slice (Some (-4)) None view) in
  let view := slice None (Some (-4)) view in
  if k_getkey_resp_fail hresult then Raise ValueError else
  let key_length := le_val (slice None (Some 4) view) in
  let view := slice (Some 8) None view in
  GroupKeyEnvelope_unpack (slice (Some 16) (Some (16 + key_length)) view).

(* _client._process_get_key_result: response.stub_data, response.sec_trailer (None or its pad_length) *)
Definition process_get_key_result (stub_data : bytes) (sec_trailer : option Z) : res envelope :=
  let pad_length := k_strip_len0 (len stub_data) in
  let pad_length :=
    if k_strip_test (match sec_trailer with Some _ => true | None => false end)
                    (match sec_trailer with Some p => p | None => 0 end)
    then k_strip_sub pad_length (match sec_trailer with Some p => p | None => 0 end)
    else pad_length in
  let raw_resp := slice None (Some pad_length) stub_data in
  GetKey_unpack_response raw_resp.
