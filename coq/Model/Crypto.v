(* The cryptographic primitives the library calls, as an explicit record of functions (the
   real ones live in the `cryptography` package and are trusted, not verified). *)
From V Require Export Prelude.Base Prelude.PyInt.

Inductive hash := SHA1 | SHA256 | SHA384 | SHA512.
Inductive curve := P256 | P384 | P521.

Definition hash_eqb (a b : hash) : bool :=
  match a, b with SHA1, SHA1 | SHA256, SHA256 | SHA384, SHA384 | SHA512, SHA512 => true | _, _ => false end.
Definition hash_id (h : hash) : Z := match h with SHA1 => 1 | SHA256 => 2 | SHA384 => 3 | SHA512 => 4 end.
Definition curve_id (c : curve) : Z := match c with P256 => 1 | P384 => 2 | P521 => 3 end.
Definition digest_size (h : hash) : Z := match h with SHA1 => 20 | SHA256 => 32 | SHA384 => 48 | SHA512 => 64 end.

Record Crypto := {
  (* SP800-108 counter-mode HMAC KDF as configured by _crypto.kdf: hash, secret, label, context, length *)
  kdf : hash -> bytes -> bytes -> bytes -> Z -> bytes;
  (* SP800-56A single-step KDF (ConcatKDFHash): hash, shared secret, otherinfo, length *)
  concat_kdf : hash -> bytes -> bytes -> Z -> bytes;
  kw_wrap : bytes -> bytes -> res bytes;       (* RFC 3394: kek, key *)
  kw_unwrap : bytes -> bytes -> res bytes;     (* kek, wrapped *)
  gcm_enc : bytes -> bytes -> bytes -> res bytes;   (* key, nonce, plaintext (no AAD) -> ct||tag *)
  gcm_dec : bytes -> bytes -> bytes -> res bytes;
  ec_pub : curve -> Z -> res (Z * Z);          (* derive_private_key(d).public_key().public_numbers() *)
  ec_dh : curve -> Z -> Z * Z -> res bytes     (* private d, peer point -> shared secret bytes *)
}.

(* What the correctness theorems assume of the primitives (C01, C03): *)
Record CryptoLaws (c : Crypto) : Prop := {
  kw_roundtrip : forall k x w, kw_wrap c k x = Ok w -> kw_unwrap c k w = Ok x;
  gcm_roundtrip : forall k n p ct, gcm_enc c k n p = Ok ct -> gcm_dec c k n ct = Ok p;
  ec_commutes : forall cv a b A B, ec_pub c cv a = Ok A -> ec_pub c cv b = Ok B ->
                                   ec_dh c cv a B = ec_dh c cv b A;
  kw_unwrap_errors : forall k w e, kw_unwrap c k w = Raise e -> e = InvalidUnwrap \/ e = ValueError;
  gcm_dec_errors : forall k n ct e, gcm_dec c k n ct = Raise e -> e = InvalidTag \/ e = ValueError;
  kw_wrap_errors : forall k x e, kw_wrap c k x = Raise e -> e = ValueError;
  gcm_enc_errors : forall k n p e, gcm_enc c k n p = Raise e -> e = ValueError \/ e = OverflowError;
  ec_pub_errors : forall cv d e, ec_pub c cv d = Raise e -> e = ValueError;
  ec_dh_errors : forall cv d Q e, ec_dh c cv d Q = Raise e -> e = ValueError
}.

(* The ideal-primitive idealisation used by C04 / C16 only: decryption succeeds only on
   images of encryption under the same key (INT-CTXT as a logical premise). *)
Record IdealLaws (c : Crypto) : Prop := {
  kw_ideal : forall k w x, kw_unwrap c k w = Ok x -> kw_wrap c k x = Ok w;
  gcm_ideal : forall k n ct p, gcm_dec c k n ct = Ok p -> gcm_enc c k n p = Ok ct;
  kw_inj : forall k k' x x' w, kw_wrap c k x = Ok w -> kw_wrap c k' x' = Ok w -> k = k' /\ x = x';
  gcm_inj : forall k k' n n' p p' ct, gcm_enc c k n p = Ok ct -> gcm_enc c k' n' p' = Ok ct -> k = k' /\ n = n' /\ p = p'
}.
