(* _client.py: KeyCache (_get_key / _store_key / load_key) and the way the four public
   functions use it, at the granularity the cache property needs: which envelope a call works
   with, which L2 key it derives from it, and whether it contacts the domain controller.
   Keys are an abstract type K (instantiated with symbolic KDF terms in the correspondence);
   compute_l2_key is the regenerated kernel. Cover / store tests, the root envelope position
   and the overwrite-vs-setdefault shape of _get_key are regenerated kernels as well. *)
From V Require Import Prelude.Base Prelude.Loops gen.Kernels gen.K_cache.

Section Cache.
Context {K RK : Type}.
Context (kdf : Z -> Z -> K -> Z -> Z -> K).   (* kdf rkid l0 key a b: the KDF context carries the root key id and L0 *)
Context (l1seed : RK -> Z -> Z -> Z -> K).   (* compute_l1_key root_key_data rkid sd l0 *)
Context (nokey : K).                         (* b"" *)

(* what the cache property needs of a GroupKeyEnvelope *)
Record cenv := { c_rk : Z; c_l0 : Z; c_l1 : Z; c_l2 : Z; c_pub : bool; c_k1 : K; c_k2 : K }.

Definition tkey := (Z * Z * Z)%type.   (* (root key id, security descriptor, L0) *)
Definition tkey_eqb (a b : tkey) : bool :=
  let '(a1, a2, a3) := a in let '(b1, b2, b3) := b in (a1 =? b1) && (a2 =? b2) && (a3 =? b3).

Record cache := { roots : list (Z * RK); seeds : list (tkey * cenv) }.
Definition empty_cache : cache := {| roots := []; seeds := [] |}.

Fixpoint find_root (l : list (Z * RK)) (rk : Z) : option RK :=
  match l with [] => None | (k, v) :: r => if k =? rk then Some v else find_root r rk end.
Fixpoint find_seed (l : list (tkey * cenv)) (t : tkey) : option cenv :=
  match l with [] => None | (k, v) :: r => if tkey_eqb k t then Some v else find_seed r t end.
Definition set_seed (c : cache) (t : tkey) (e : cenv) : cache :=
  {| roots := roots c; seeds := (t, e) :: seeds c |}.

Definition load_key (c : cache) (rk : Z) (data : RK) : cache :=
  {| roots := (rk, data) :: roots c; seeds := seeds c |}.

Definition get_key (c : cache) (sd rk l0 l1 l2 : Z) : option cenv * cache :=
  let seed := find_seed (seeds c) (rk, sd, l0) in
  let hit := match seed with
             | Some e => k_cache_covers true (c_l1 e) l1 (c_l2 e) l2
             | None => k_cache_covers false 0 l1 0 l2
             end in
  if hit then (seed, c) else
  match find_root (roots c) rk with
  | Some data =>
    let gke := {| c_rk := rk; c_l0 := l0; c_l1 := k_root_env_l1; c_l2 := k_root_env_l2;
                  c_pub := negb (Z.land k_root_env_flags 1 =? 0);
                  c_k1 := l1seed data rk sd l0; c_k2 := nokey |} in
    if k_cache_root_overwrites then (Some gke, set_seed c (rk, sd, l0) gke)
    else match seed with
         | Some e => (Some e, c)                 (* dict.setdefault keeps the existing entry *)
         | None => (Some gke, set_seed c (rk, sd, l0) gke)
         end
  | None => (None, c)
  end.

Definition store_key (c : cache) (sd : Z) (e : cenv) : cache :=
  let t := (c_rk e, sd, c_l0 e) in
  let go := match find_seed (seeds c) t with
            | Some x => k_cache_store true (c_l1 e) (c_l1 x) (c_l2 e) (c_l2 x)
            | None => k_cache_store false (c_l1 e) 0 (c_l2 e) 0
            end in
  if go then set_seed c t e else c.

Definition L2FUEL : nat := 100.
Definition derive (e : cenv) (l1 l2 : Z) : res K :=
  k_compute_l2_key (kdf (c_rk e) (c_l0 e)) L2FUEL l1 l2 (c_l1 e) (c_l2 e) (c_k1 e) (c_k2 e).

(* the domain controller: GetKey(sd, optional rkid, l0, l1, l2) -> envelope *)
Context (dc : Z -> option Z -> Z -> Z -> Z -> cenv).

(* result of one public call: the key material it ends up using and the number of GetKey RPCs *)
Record outcome := { o_key : res K; o_pos : Z * Z * Z; o_pub : bool; o_rpcs : Z }.

(* the part of ncrypt_unprotect_secret after the RPC decision *)
Definition unprotect_finish (c : cache) (sd l0 l1 l2 : Z) (e : cenv) (rpcs : Z) : outcome * cache :=
  let c' := if c_pub e then c else store_key c sd e in
  let key := if c_pub e then Raise ValueError        (* get_kek: not authorised *)
             else if negb (c_l0 e =? l0) then Raise ValueError
             else derive e l1 l2 in
  ({| o_key := key; o_pos := (l0, l1, l2); o_pub := c_pub e; o_rpcs := rpcs |}, c').

Definition unprotect (c : cache) (sd rk l0 l1 l2 : Z) : outcome * cache :=
  match get_key c sd rk l0 l1 l2 with
  | (Some e, c1) => unprotect_finish c1 sd l0 l1 l2 e 0
  | (None, c1) => unprotect_finish c1 sd l0 l1 l2 (dc sd (Some rk) l0 l1 l2) 1
  end.

(* _get_protection_gke_from_cache: Some (Ok env) | Some (Raise _) when compute_l2_key raises | None *)
Definition protection_gke (c : cache) (sd : Z) (rko : option Z) (l0 l1 l2 : Z) : option (res cenv) * cache :=
  match rko with
  | None => (None, c)
  | Some rk =>
    match get_key c sd rk l0 l1 l2 with
    | (None, c1) => (None, c1)
    | (Some e, c1) =>
      match derive e l1 l2 with
      | Raise x => (Some (Raise x), c1)
      | Ok k => (Some (Ok {| c_rk := rk; c_l0 := l0; c_l1 := l1; c_l2 := l2; c_pub := c_pub e; c_k1 := nokey; c_k2 := k |}), c1)
      end
    end
  end.

Definition protect_finish (c : cache) (sd : Z) (e : cenv) (rpcs : Z) : outcome * cache :=
  let c' := if c_pub e then c else store_key c sd e in
  (* new_kek uses the envelope's own L2 key field (nonce mode) / the public key it carries *)
  ({| o_key := Ok (c_k2 e); o_pos := (c_l0 e, c_l1 e, c_l2 e); o_pub := c_pub e; o_rpcs := rpcs |}, c').

(* (l0, l1, l2) is the position computed from the clock *)
Definition protect (c : cache) (sd : Z) (rko : option Z) (l0 l1 l2 : Z) : outcome * cache :=
  match protection_gke c sd rko l0 l1 l2 with
  | (Some (Raise x), c1) => ({| o_key := Raise x; o_pos := (l0, l1, l2); o_pub := false; o_rpcs := 0 |}, c1)
  | (Some (Ok e), c1) => protect_finish c1 sd e 0
  | (None, c1) => protect_finish c1 sd (dc sd rko (-1) (-1) (-1)) 1
  end.

(* ---- histories, including interleavings of async calls that share the cache ---- *)
Inductive call :=
| CLoad (rk : Z) (data : RK)
| CUnprotect (sd rk l0 l1 l2 : Z)
| CProtect (sd : Z) (rko : option Z) (l0 l1 l2 : Z).

(* an async call runs atomically up to its `await _async_get_key(...)`; a pending call remembers what it asked for *)
Inductive pending :=
| PUnprotect (sd l0 l1 l2 : Z) (e : cenv)
| PProtect (sd : Z) (e : cenv).

Inductive event := Start (c : call) | Finish (i : nat).   (* Finish i: the i-th pending RPC completes *)

Record world := { w_cache : cache; w_pending : list pending; w_out : list outcome }.
Definition init_world : world := {| w_cache := empty_cache; w_pending := []; w_out := [] |}.

Fixpoint remove_nth {A} (n : nat) (l : list A) : list A :=
  match n, l with O, _ :: r => r | S n', x :: r => x :: remove_nth n' r | _, [] => [] end.

Definition step (w : world) (ev : event) : world :=
  match ev with
  | Start (CLoad rk data) => {| w_cache := load_key (w_cache w) rk data; w_pending := w_pending w; w_out := w_out w |}
  | Start (CUnprotect sd rk l0 l1 l2) =>
    match get_key (w_cache w) sd rk l0 l1 l2 with
    | (Some e, c1) => let '(o, c2) := unprotect_finish c1 sd l0 l1 l2 e 0 in
                      {| w_cache := c2; w_pending := w_pending w; w_out := w_out w ++ [o] |}
    | (None, c1) => {| w_cache := c1; w_pending := w_pending w ++ [PUnprotect sd l0 l1 l2 (dc sd (Some rk) l0 l1 l2)]; w_out := w_out w |}
    end
  | Start (CProtect sd rko l0 l1 l2) =>
    match protection_gke (w_cache w) sd rko l0 l1 l2 with
    | (Some (Raise x), c1) => {| w_cache := c1; w_pending := w_pending w;
                                 w_out := w_out w ++ [{| o_key := Raise x; o_pos := (l0, l1, l2); o_pub := false; o_rpcs := 0 |}] |}
    | (Some (Ok e), c1) => let '(o, c2) := protect_finish c1 sd e 0 in
                           {| w_cache := c2; w_pending := w_pending w; w_out := w_out w ++ [o] |}
    | (None, c1) => {| w_cache := c1; w_pending := w_pending w ++ [PProtect sd (dc sd rko (-1) (-1) (-1))]; w_out := w_out w |}
    end
  | Finish i =>
    match nth_error (w_pending w) i with
    | None => w
    | Some (PUnprotect sd l0 l1 l2 e) =>
      let '(o, c2) := unprotect_finish (w_cache w) sd l0 l1 l2 e 1 in
      {| w_cache := c2; w_pending := remove_nth i (w_pending w); w_out := w_out w ++ [o] |}
    | Some (PProtect sd e) =>
      let '(o, c2) := protect_finish (w_cache w) sd e 1 in
      {| w_cache := c2; w_pending := remove_nth i (w_pending w); w_out := w_out w ++ [o] |}
    end
  end.

Definition run_events (evs : list event) : world := fold_left step evs init_world.
End Cache.
