(* area online (C17): the GetKey conversation of the four public functions as one model unit (val -> val).
   Security context of the model run: the identity context (body unchanged, zero signature of the announced size) -- the
   reference DC reports what it saw after its own unwrap, so toy and real NTLM runs compare against the same model text. *)
From Coq Require Import String.
From V Require Import Prelude.Base Prelude.Val gen.C_client gen.C_online.
From V Require Import Model.Types Model.Pdu Model.Request Model.Bind Model.Handshake Model.Framing Model.Seal.
From V Require Import Model.Gkdi Model.GkdiView Model.Conversation.
From V Require Model.SecDesc.

Fixpoint zs_of_vals (l : list val) : option (list Z) :=
  match l with
  | [] => Some []
  | VI z :: r => match zs_of_vals r with Some m => Some (z :: m) | None => None end
  | _ => None
  end.
Definition opt_bytes_of_val (v : val) : option (option bytes) :=
  match v with VB b => Some (Some b) | VN => Some None | _ => None end.
Fixpoint legs_of_vals (l : list val) : option (list leg) :=
  match l with
  | [] => Some []
  | VL [VB t; VI c] :: r =>
    match legs_of_vals r with Some m => Some ({| leg_token := t; leg_complete := negb (c =? 0) |} :: m) | None => None end
  | _ => None
  end.
Definition reply_of_val (v : val) : option reply :=
  match v with
  | VL [VI k; VL rs; VI fl; tk] =>
    match zs_of_vals rs, opt_bytes_of_val tk with
    | Some rs', Some tk' =>
      if k =? 0 then Some (RBindAck rs' fl tk') else if k =? 1 then Some (RAlterResp rs' fl tk')
      else if k =? 2 then Some RBindNak else if k =? 3 then Some RFault else if k =? 4 then Some RResponse else None
    | _, _ => None
    end
  | _ => None
  end.
Fixpoint replies_of_vals (l : list val) : option (list reply) :=
  match l with
  | [] => Some []
  | v :: r => match reply_of_val v, replies_of_vals r with Some a, Some m => Some (a :: m) | _, _ => None end
  end.

Definition val_of_syntax (s : syntax_id) : val := VL [VB (sy_uuid s); VI (sy_version s); VI (sy_version_minor s)].
Definition val_of_context (c : context_element) : val :=
  VL [VI (ce_context_id c); val_of_syntax (ce_abstract_syntax c); VL (map val_of_syntax (ce_transfer_syntaxes c))].
Definition val_of_sec (s : option sec_trailer) : val :=
  match s with
  | Some t => VL [VI (st_type t); VI (st_level t); VI (st_pad_length t); VI (st_context_id t); VB (st_auth_value t)]
  | None => VN
  end.
Definition val_of_bind (m : bind_msg) : val :=
  let h := b_header m in
  VL [VI (h_packet_type h); VI (h_packet_flags h); VI (h_call_id h); VI (h_auth_len h);
      VI (b_max_xmit_frag m); VI (b_max_recv_frag m); VI (b_assoc_group m);
      VL (map val_of_context (b_contexts m)); val_of_sec (b_sec_trailer m)].
(* a sealed request as the peer sees it after unwrapping: header, plaintext region, trailer header, signature size, sign flag *)
Definition val_of_request (sig_len : Z) (r : option (bytes * option wrap_args)) : val :=
  match r with
  | Some (wire, Some a) => VL [VB (wa_header a); VB (wa_body a); VB (wa_trailer a); VI (len wire - len (wa_header a) - len (wa_body a) - len (wa_trailer a)); vbool (wa_sign a)]
  | Some (wire, None) => VB wire
  | None => VN
  end.

Definition id_wrap (sig_len : Z) : wrap_fn := fun _ b _ _ => (b, repeat 0 (Z.to_nat sig_len)).
Definition id_unwrap : unwrap_fn := fun _ b _ _ _ => Ok b.

Definition val_of_transcript (sig_len : Z) (rt : res envelope * transcript) : val :=
  let '(r, t) := rt in
  VL [ VL (map val_of_bind (tr_epm_binds t)); val_of_request sig_len (tr_ept_request t); vopt VI (tr_port t);
       VL (map val_of_bind (tr_isd_binds t)); VL (map (vopt VB) (tr_steps t));
       match tr_getkey_request t with Some _ => vbool (tr_sign t) | None => VN end;
       val_of_request sig_len (tr_getkey_request t); vres val_of_env r;
       (* expected outcome of the public call under the conforming-DC hypothesis (C01-C03 give the rest): it succeeds and the
          data round-trips iff the conversation delivered an envelope; otherwise the conversation's error surfaces *)
       match r with Ok _ => VI 1 | Raise e => VE e end ].

(* [flavour; op; [ptype; sig_len; legs]; [epm_srv; ept_stream; isd_srv; getkey_stream; sched]; sid; rk|None; l0; l1; l2; harness configuration (ignored)]
   flavour 0 = sync, 1 = async, 2 = both (a pair of transcripts) *)
Definition conversation1 (f : flavour) (a : val) : val :=
  match a with
  | VL [VI _fl; VI op; VL [VI ptype; VI sig_len; VL legs]; VL [VL epm_srv; VB ept_stream; VL isd_srv; VB getkey_stream; VL sch];
        VS sid; rk; VI l0; VI l1; VI l2; _cfg] =>
    match legs_of_vals legs, replies_of_vals epm_srv, replies_of_vals isd_srv, zs_of_vals sch, opt_bytes_of_val rk with
    | Some lg, Some es, Some isv, Some sc, Some rko =>
      let pv := {| pv_type := ptype; pv_sig_len := sig_len |} in
      let dc := {| ds_epm_srv := es; ds_ept_stream := ept_stream; ds_isd_srv := isv; ds_getkey_stream := getkey_stream; ds_sched := sc |} in
      (* blob.protection_descriptor.get_target_sd() / descriptor.get_target_sd() happen before anything is sent *)
      match SecDesc.get_target_sd sid with
      | Raise e => VE e
      | Ok target_sd =>
        if op =? 0 then
          match rko with
          | Some rkid =>
            let kid := {| kid_version := 1; kid_flags := 0; kid_l0 := l0; kid_l1 := l1; kid_l2 := l2; kid_rkid := rkid;
                          kid_key_info := []; kid_domain := []; kid_forest := [] |} in
            val_of_transcript sig_len (unprotect_get_key f (id_wrap sig_len) id_unwrap pv lg dc target_sd kid)
          | None => bad
          end
        else val_of_transcript sig_len (protect_get_key f (id_wrap sig_len) id_unwrap pv lg dc target_sd rko)
      end
    | _, _, _, _, _ => bad
    end
  | _ => bad
  end.
Definition u_conversation (a : val) : val :=
  match a with
  | VL (VI fl :: _) =>
    if fl =? 0 then conversation1 Sync a else if fl =? 1 then conversation1 Async a
    else VL [conversation1 Sync a; conversation1 Async a]
  | _ => bad
  end.

(* the static data, for a direct comparison with the library's objects: [epm contexts; isd contexts; ept_map stub; vt] *)
Definition u_static (_ : val) : val :=
  VL [ VL (map val_of_context epm_contexts); VL (map val_of_context isd_key_contexts);
       VB (Model.Epm.ept_map_pack ept_map_isd_key); VB (Model.Verification.verification_trailer_pack verification_trailer) ].

Open Scope string_scope.
Definition units : list (string * (val -> val)) :=
  [ ("conversation", u_conversation); ("static", u_static) ].

Fixpoint lookup (n : string) (l : list (string * (val -> val))) : option (val -> val) :=
  match l with
  | [] => None
  | (k, f) :: r => if String.eqb n k then Some f else lookup n r
  end.
Definition run (name : string) (arg : val) : val :=
  match lookup name units with Some f => f arg | None => VE KeyError end.
