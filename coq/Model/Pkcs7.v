(* _pkcs7.py: the RFC 5652 subset used by DPAPI-NG, function-for-function on top of Model/Asn1.v.
   pack methods build the node they append to the writer (value tree, see Asn1.asn1); unpack methods
   are reader functions view -> Ok (value, view after the read). OIDs are arc lists. No proofs here. *)
From V Require Import Prelude.Base Prelude.PyInt Prelude.PySlice Prelude.PyStr gen.K_asn1 gen.C_asn1 Model.Asn1.

Definition oid := list Z.
Fixpoint oid_eqb (a b : oid) : bool :=
  match a, b with
  | [], [] => true
  | x :: a', y :: b' => (x =? y) && oid_eqb a' b'
  | _, _ => false
  end.

(* dotted-decimal text of the regenerated OID constants -> arcs *)
Fixpoint oid_of_str_aux (s : list Z) (cur : Z) (acc : list Z) : list Z :=
  match s with
  | [] => rev (cur :: acc)
  | c :: r => if c =? 46 then oid_of_str_aux r 0 (cur :: acc) else oid_of_str_aux r (10 * cur + (c - 48)) acc
  end.
Definition oid_of_str (s : list Z) : oid := oid_of_str_aux s 0 [].

Definition oid_enveloped_data : oid := oid_of_str c_oid_enveloped_data.
Definition oid_data : oid := oid_of_str c_oid_data.

Record algorithm_identifier := { alg_oid : oid; alg_params : option bytes }.
Record other_key_attribute := { oka_id : oid; oka_attr : option bytes }.
Record kek_identifier := { kekid_key_identifier : bytes; kekid_date : option (list Z); kekid_other : option other_key_attribute }.
Record kek_recipient_info := { kri_version : Z; kri_kekid : kek_identifier; kri_alg : algorithm_identifier; kri_encrypted_key : bytes }.
Record encrypted_content_info := { eci_content_type : oid; eci_alg : algorithm_identifier; eci_content : option bytes }.
Record enveloped_data := { ed_version : Z; ed_recipient_infos : list kek_recipient_info; ed_eci : encrypted_content_info }.
Record content_info := { ci_content_type : oid; ci_content : bytes }.

Definition ctx_tag (n : Z) (constructed : bool) : tag := mk_tag c_class_context n constructed.
(* `if self.x:` on Optional[bytes] / Optional[str]: None and the empty value are both false *)
Definition truthy {A} (o : option (list A)) : option (list A) :=
  match o with Some (x :: r) => Some (x :: r) | _ => None end.
Definition raw_if (o : option bytes) : list asn1 := match truthy o with Some b => [Raw b] | None => [] end.

(* ---- pack *)
Definition AlgorithmIdentifier_pack (a : algorithm_identifier) : res asn1 :=
  let* o := a_oid (alg_oid a) in Ok (a_seq (o :: raw_if (alg_params a))).
Definition OtherKeyAttribute_pack (a : other_key_attribute) : res asn1 :=
  let* o := a_oid (oka_id a) in Ok (a_seq (o :: raw_if (oka_attr a))).
Definition a_gentime (s : list Z) : res asn1 :=
  let* c := utf8_encode s in Ok (Prim (universal_tag c_tag_gentime false) c).
Definition KEKIdentifier_pack (k : kek_identifier) : res asn1 :=
  let* d := match truthy (kekid_date k) with Some s => let* x := a_gentime s in Ok [x] | None => Ok [] end in
  let* o := match kekid_other k with Some a => let* x := OtherKeyAttribute_pack a in Ok [x] | None => Ok [] end in
  Ok (a_seq (a_octets (kekid_key_identifier k) None :: d ++ o)).
Definition KEKRecipientInfo_pack (r : kek_recipient_info) : res asn1 :=
  let* v := a_int (kri_version r) None in
  let* k := KEKIdentifier_pack (kri_kekid r) in
  let* a := AlgorithmIdentifier_pack (kri_alg r) in
  Ok (Cons (ctx_tag c_kekri_choice true) [v; k; a; a_octets (kri_encrypted_key r) None]).
Definition EncryptedContentInfo_pack (e : encrypted_content_info) : res asn1 :=
  let* o := a_oid (eci_content_type e) in
  let* a := AlgorithmIdentifier_pack (eci_alg e) in
  Ok (a_seq (o :: a :: match truthy (eci_content e) with Some c => [a_octets c (Some (ctx_tag k_eci_content_tagnum false))] | None => [] end)).
Definition EnvelopedData_pack (e : enveloped_data) : res asn1 :=
  let* v := a_int (ed_version e) None in
  let* ris := map_res KEKRecipientInfo_pack (ed_recipient_infos e) in
  let* c := EncryptedContentInfo_pack (ed_eci e) in
  Ok (a_seq [v; a_set ris; c]).
Definition ContentInfo_pack (c : content_info) : res asn1 :=
  let* o := a_oid (ci_content_type c) in
  Ok (a_seq [o; a_octets (ci_content c) (Some (ctx_tag k_ci_content_tagnum true))]).

(* ---- unpack *)
Definition AlgorithmIdentifier_unpack (view : bytes) : res (algorithm_identifier * bytes) :=
  let* (r, view') := read_sequence view None None in
  let* (algorithm, r) := read_object_identifier r None None in
  let parameters := if reader_bool r then Some r else None in
  Ok ({| alg_oid := algorithm; alg_params := parameters |}, view').
Definition OtherKeyAttribute_unpack (view : bytes) (h : option header) : res (other_key_attribute * bytes) :=
  let* (r, view') := read_sequence view None h in
  let* (key_attr_id, r) := read_object_identifier r None None in
  let key_attr := if reader_bool r then Some r else None in
  Ok ({| oka_id := key_attr_id; oka_attr := key_attr |}, view').
Definition KEKIdentifier_unpack (view : bytes) : res (kek_identifier * bytes) :=
  let* (r, view') := read_sequence view None None in
  let* (key_identifier, r) := read_octet_string r None None in
  let* h := peek_header r in
  let* (date, r, h) :=
    if (t_class (h_tag h) =? c_class_universal) && (t_num (h_tag h) =? c_tag_gentime)
    then let* (d, r') := read_generalized_time r None (Some h) in
         let* h' := peek_header r' in Ok (Some d, r', h')
    else Ok (None, r, h) in
  let* other :=
    if (t_class (h_tag h) =? c_class_universal) && (t_num (h_tag h) =? c_tag_sequence)
    then let* (o, _) := OtherKeyAttribute_unpack r (Some h) in Ok (Some o)
    else Ok None in
  Ok ({| kekid_key_identifier := key_identifier; kekid_date := date; kekid_other := other |}, view').
Definition KEKRecipientInfo_unpack (view : bytes) (h : option header) : res (kek_recipient_info * bytes) :=
  let* (r, view') := read_sequence view None h in
  let* (version, r) := read_integer r None None in
  let* (kekid, r) := KEKIdentifier_unpack r in
  let* (alg, r) := AlgorithmIdentifier_unpack r in
  let* (encrypted_key, r) := read_octet_string r None None in
  Ok ({| kri_version := version; kri_kekid := kekid; kri_alg := alg; kri_encrypted_key := encrypted_key |}, view').
Definition RecipientInfo_unpack (view : bytes) : res (kek_recipient_info * bytes) :=
  let* h := peek_header view in
  if (t_class (h_tag h) =? c_class_context) && (t_num (h_tag h) =? c_kekri_choice)
  then KEKRecipientInfo_unpack view (Some h)
  else Raise NotImplementedError.
Fixpoint RecipientInfos_unpack (fuel : nat) (view : bytes) : res (list kek_recipient_info) :=   (* while reader: ... *)
  if reader_bool view then
    match fuel with
    | O => Raise OutOfFuel
    | S f => let* (info, view') := RecipientInfo_unpack view in
             let* more := RecipientInfos_unpack f view' in Ok (info :: more)
    end
  else Ok [].
Definition EncryptedContentInfo_unpack (view : bytes) : res (encrypted_content_info * bytes) :=
  let* (r, view') := read_sequence view None None in
  let* (content_type, r) := read_object_identifier r None None in
  let* (alg, r) := AlgorithmIdentifier_unpack r in
  let* enc_content :=
    if reader_bool r then let* (c, _) := read_octet_string r (Some (ctx_tag k_eci_content_tagnum_r false)) None in Ok (Some c) else Ok None in
  Ok ({| eci_content_type := content_type; eci_alg := alg; eci_content := enc_content |}, view').
Definition EnvelopedData_unpack (data : bytes) : res enveloped_data :=
  let* (r, _) := read_sequence data None None in
  let* (version, r) := read_integer r None None in
  if k_ed_version_bad version then Raise NotImplementedError else
  let* (ris_view, r) := read_set r None None in
  let* recipient_infos := RecipientInfos_unpack (length ris_view) ris_view in
  let* (enc_content, _) := EncryptedContentInfo_unpack r in
  Ok {| ed_version := version; ed_recipient_infos := recipient_infos; ed_eci := enc_content |}.
Definition ContentInfo_unpack (data : bytes) (h : option header) : res content_info :=
  let* (r, _) := read_sequence data None h in
  let* (content_type, r) := read_object_identifier r None None in
  let* (content, _) := read_octet_string r (Some (ctx_tag k_ci_content_tagnum_r true)) None in
  Ok {| ci_content_type := content_type; ci_content := content |}.
