(* _blob.KeyIdentifier.pack / unpack (the key identifier stored in the CMS KEKIdentifier of a
   DPAPI-NG blob; same header shape as the MS-GKDI group key envelope). The decoder is faithful
   on arbitrary input bytes: Python slice clamping, int.from_bytes of short slices, uuid.UUID
   rejecting anything but 16 bytes (ValueError), strict UTF-16-LE decoding (UnicodeDecodeError is
   a ValueError), the `len - 2` slice that drops the NUL terminator (negative bound when len < 2).
   No proofs here (see Proofs/GkdiKeyId.v). *)
From V Require Import Prelude.Base Prelude.PyInt Prelude.PySlice Prelude.PyStr.
From V Require Import gen.C_gkdi Model.Types.

(* bytes equality (b1 == b2 / b1 != b2 on bytes objects) *)
Fixpoint beqb (a b : bytes) : bool :=
  match a, b with
  | [], [] => true
  | x :: a', y :: b' => (x =? y) && beqb a' b'
  | _, _ => false
  end.

(* uuid.UUID(bytes_le=b): ValueError unless len(b) == 16; a UUID is its bytes_le on the Coq side *)
Definition uuid_of_bytes_le (b : bytes) : res bytes :=
  if len b =? 16 then Ok b else Raise ValueError.

(* (s + "\0").encode("utf-16-le") *)
Definition encode_utf16z (s : pystr) : res bytes := utf16le_encode (s ++ [0]).

Definition KeyIdentifier_fields (k : key_identifier) : res (list bytes) :=
  let* b_domain_name := encode_utf16z (kid_domain k) in
  let* b_forest_name := encode_utf16z (kid_forest k) in
  let* f_version := to_bytes_le 4 (kid_version k) in
  let* f_flags := to_bytes_le 4 (kid_flags k) in
  let* f_l0 := to_bytes_le 4 (kid_l0 k) in
  let* f_l1 := to_bytes_le 4 (kid_l1 k) in
  let* f_l2 := to_bytes_le 4 (kid_l2 k) in
  let* f_key_info_len := to_bytes_le 4 (len (kid_key_info k)) in
  let* f_domain_len := to_bytes_le 4 (len b_domain_name) in
  let* f_forest_len := to_bytes_le 4 (len b_forest_name) in
  Ok [ f_version; c_KEYID_MAGIC; f_flags; f_l0; f_l1; f_l2; kid_rkid k;
       f_key_info_len; f_domain_len; f_forest_len;
       kid_key_info k; b_domain_name; b_forest_name ].

Definition KeyIdentifier_pack (k : key_identifier) : res bytes :=
  let* fs := KeyIdentifier_fields k in Ok (concat fs).

Definition KeyIdentifier_unpack (data : bytes) : res key_identifier :=
  let view := data in
  let version := le_val (slice None (Some 4) view) in
  if negb (beqb (slice (Some 4) (Some 8) view) c_KEYID_MAGIC) then Raise ValueError else
  let flags := le_val (slice (Some 8) (Some 12) view) in
  let l0_index := le_val (slice (Some 12) (Some 16) view) in
  let l1_index := le_val (slice (Some 16) (Some 20) view) in
  let l2_index := le_val (slice (Some 20) (Some 24) view) in
  let* root_key_identifier := uuid_of_bytes_le (slice (Some 24) (Some 40) view) in
  let key_info_len := le_val (slice (Some 40) (Some 44) view) in
  let domain_len := le_val (slice (Some 44) (Some 48) view) in
  let forest_len := le_val (slice (Some 48) (Some 52) view) in
  let view := slice (Some 52) None view in
  let key_info := slice None (Some key_info_len) view in
  let view := slice (Some key_info_len) None view in
  let* domain := utf16le_decode (slice None (Some (domain_len - 2)) view) in
  let view := slice (Some domain_len) None view in
  let* forest := utf16le_decode (slice None (Some (forest_len - 2)) view) in
  Ok {| kid_version := version; kid_flags := flags; kid_l0 := l0_index; kid_l1 := l1_index;
        kid_l2 := l2_index; kid_rkid := root_key_identifier; kid_key_info := key_info;
        kid_domain := domain; kid_forest := forest |}.

(* KeyIdentifier.is_public_key : bool(self.flags & 1) *)
Definition kid_is_public_key (k : key_identifier) : bool := is_public_key_flags (kid_flags k).
