(* A toy security context used only to make the framing / sealing models executable in the
   correspondence check (Python mirror: vlib/toyctx.py): the body is XOR-ed with 0x5A, the
   signature is an Adler-like checksum over what the context is asked to protect, mixed with a
   sequence number. It keeps lengths, detects every single-bit change and replays; it is NOT a
   cryptographic object and no theorem depends on it. *)
From V Require Import Prelude.Base Prelude.PyInt.

Definition toy_enc (body : bytes) : bytes := map (fun b => Z.lxor b 90) body.

Fixpoint toy_sums (data : bytes) (i s1 s2 : Z) : Z * Z :=
  match data with
  | [] => (s1, s2)
  | b :: r => toy_sums r (i + 1) ((s1 + b) mod 65521) ((s2 + i * (b + 1)) mod 65521)
  end.
Fixpoint cycle_take (n : nat) (base cur : bytes) : bytes :=
  match n with
  | O => []
  | S n' => match cur with
            | [] => match base with [] => [] | x :: r => x :: cycle_take n' base r end
            | x :: r => x :: cycle_take n' base r
            end
  end.
Definition toy_sig (seq : Z) (sign : bool) (header sealed trailer : bytes) (sig_len : Z) : bytes :=
  let data := (if sign then header else []) ++ sealed ++ (if sign then trailer else []) in
  let '(s1, s2) := toy_sums data 1 ((1 + seq) mod 65521) 0 in
  let base := be 4 s1 ++ be 4 s2 ++ be 4 (len data) ++ be 4 ((seq * 7 + 3) mod 4294967296) in
  cycle_take (Z.to_nat sig_len) base base.

Definition toy_wrap (seq sig_len : Z) (header body trailer : bytes) (sign : bool) : bytes * bytes :=
  let sealed := toy_enc body in (sealed, toy_sig seq sign header sealed trailer sig_len).

Fixpoint beq (a b : bytes) : bool :=
  match a, b with [], [] => true | x :: a', y :: b' => (x =? y) && beq a' b' | _, _ => false end.
(* unwrap: verify the signature over the received (still sealed) body, then decrypt; a bad
   signature is the context's integrity error (surfaced by pyspnego as an exception that is not a ValueError) *)
Definition toy_unwrap (seq : Z) (header body trailer signature : bytes) (sign : bool) : res bytes :=
  if beq signature (toy_sig seq sign header body trailer (len signature)) && negb (len signature =? 0)
  then Ok (toy_enc body) else Raise InvalidTag.
