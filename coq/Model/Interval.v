(* _client._get_protection_gke_from_cache: clock -> (L0, L1, L2). The arithmetic is the
   regenerated kernel; nothing here is written by hand. *)
From V Require Import Prelude.Base gen.Kernels.

Definition interval_of_time_ns (ns : Z) : Z * Z * Z :=
  let t := k_now ns in (k_l0 t, k_l1 t, k_l2 t).
