(* area core: dispatch table of model units for the correspondence check (val -> val). *)
From Coq Require Import String.
From V Require Import Prelude.Base Prelude.Val Prelude.TrueDiv gen.Kernels.
From V Require Import Model.Interval Model.Crypto Model.Sym Model.Types Model.Chain Model.Dns.

Definition hash_of_id (i : Z) : option hash :=
  if i =? 1 then Some SHA1 else if i =? 2 then Some SHA256 else if i =? 3 then Some SHA384
  else if i =? 4 then Some SHA512 else None.
Definition mk_env (l0 l1 l2 : Z) (rkid k1 k2 : bytes) : envelope :=
  {| gke_version := 1; gke_flags := 2; gke_l0 := l0; gke_l1 := l1; gke_l2 := l2; gke_rkid := rkid;
     gke_kdf_alg := []; gke_kdf_params := []; gke_secret_alg := []; gke_secret_params := [];
     gke_priv_len := 512; gke_pub_len := 2048; gke_domain := []; gke_forest := [];
     gke_l1_key := k1; gke_l2_key := k2 |}.

Definition u_interval (a : val) : val :=
  match a with
  | VI ns => let '(l0, l1, l2) := interval_of_time_ns ns in VL [VI l0; VI l1; VI l2]
  | _ => bad
  end.
(* [first instant read; step]: the library reads the clock once, so only the first instant matters *)
Definition u_interval_first (a : val) : val :=
  match a with
  | VL [VI ns; VI _step] => let '(l0, l1, l2) := interval_of_time_ns ns in VL [VI l0; VI l1; VI l2]
  | _ => bad
  end.
Definition u_truediv (a : val) : val :=
  match a with
  | VL [VI x; VI y] => VL [VI (py_truediv_trunc x y); VI (py_truediv_ceil x y)]
  | _ => bad
  end.

Definition u_chain_l2 (a : val) : val :=
  match a with
  | VL [VI hid; VI r1; VI r2; VI e1; VI e2; VI l0; VB rkid; VB k1; VB k2] =>
    match hash_of_id hid with
    | Some h => vres VB (compute_l2_key sym h r1 r2 (mk_env l0 e1 e2 rkid k1 k2))
    | None => bad
    end
  | _ => bad
  end.
Definition u_chain_l1 (a : val) : val :=
  match a with
  | VL [VI hid; VB sd; VB rkid; VI l0; VB rk] =>
    match hash_of_id hid with
    | Some h => vres VB (compute_l1_key sym h sd rkid l0 rk)
    | None => bad
    end
  | _ => bad
  end.

Definition srv_of_val (v : val) : option srv :=
  match v with
  | VL [VS t; VI p; VI w; VI pr] => Some {| srv_target := t; srv_port := p; srv_weight := w; srv_priority := pr |}
  | _ => None
  end.
Fixpoint srvs_of_vals (l : list val) : option (list srv) :=
  match l with
  | [] => Some []
  | v :: r => match srv_of_val v, srvs_of_vals r with Some a, Some m => Some (a :: m) | _, _ => None end
  end.
Definition val_of_srv (a : srv) : val := VL [VS (srv_target a); VI (srv_port a); VI (srv_weight a); VI (srv_priority a)].
Definition u_dns_pick (a : val) : val :=
  match a with
  | VL [VI _flavour; dom; VL answers] =>
    let d := match dom with VS s => Some (Some s) | VN => Some None | _ => None end in
    match d, srvs_of_vals answers with
    | Some d, Some l => VL [VS (query_name d); VS k_srv_rdtype; vbool k_srv_search; vres val_of_srv (get_highest_answer l)]
    | _, _ => bad
    end
  | _ => bad
  end.

Open Scope string_scope.
Definition units : list (string * (val -> val)) :=
  [ ("echo", fun v => v); ("interval", u_interval); ("interval.first", u_interval_first); ("truediv", u_truediv);
    ("chain.l2", u_chain_l2); ("chain.l1", u_chain_l1);
    ("dns.pick", u_dns_pick) ].

Fixpoint lookup (n : string) (l : list (string * (val -> val))) : option (val -> val) :=
  match l with
  | [] => None
  | (k, f) :: r => if String.eqb n k then Some f else lookup n r
  end.
Definition run (name : string) (arg : val) : val :=
  match lookup name units with Some f => f arg | None => VE KeyError end.
