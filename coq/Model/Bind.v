(* _rpc/_bind.py: SyntaxId, ContextElement, ContextResult, Bind, BindAck, BindNak, AlterContext,
   AlterContextResponse, bind_time_feature_negotiation. Conventions as in Model/Pdu.v.
   Loops over wire counts: for_range with explicit fuel and ticks.  No proofs in this file. *)
From V Require Export Model.Pdu Model.Request Model.RpcLoop Prelude.PyStr.

(* ---- SyntaxId --------------------------------------------------------------------------------- *)
Record syntax_id := { sy_uuid : bytes; sy_version : Z; sy_version_minor : Z }.

Definition syntax_id_pack (s : syntax_id) : bytes :=
  concat [ sy_uuid s; le 2 (sy_version s); le 2 (sy_version_minor s) ].

Definition syntax_id_unpack (view : bytes) : res syntax_id :=
  let* u := uuid_of_bytes_le (slice None (Some 16) view) in
  Ok {| sy_uuid := u; sy_version := le_val (slice (Some 16) (Some 18) view);
        sy_version_minor := le_val (slice (Some 18) (Some 20) view) |}.

Definition wf_syntax_id (s : syntax_id) : bool :=
  wf_uuid (sy_uuid s) && in_range 2 (sy_version s) && in_range 2 (sy_version_minor s).

(* ---- ContextElement --------------------------------------------------------------------------- *)
Record context_element := { ce_context_id : Z; ce_abstract_syntax : syntax_id; ce_transfer_syntaxes : list syntax_id }.

Definition context_element_pack (c : context_element) : bytes :=
  concat [ le 2 (ce_context_id c); le 2 (len (ce_transfer_syntaxes c));
           syntax_id_pack (ce_abstract_syntax c);
           concat (map syntax_id_pack (ce_transfer_syntaxes c)) ].

Definition context_element_unpack (fuel : nat) (view : bytes) : res (context_element * Z) :=
  let context_id := le_val (slice None (Some 2) view) in
  let num_transfers := le_val (slice (Some 2) (Some 4) view) in
  let* abstract_syntax := syntax_id_unpack (slice (Some 4) None view) in
  let view := slice (Some 24) None view in
  let* (st, ticks) := for_range fuel num_transfers
      (fun '(view, acc) => let* s := syntax_id_unpack view in Ok ((slice (Some 20) None view, acc ++ [s]), 0))
      (view, []) 0 in
  Ok ({| ce_context_id := context_id; ce_abstract_syntax := abstract_syntax; ce_transfer_syntaxes := snd st |}, ticks).

Definition wf_context_element (c : context_element) : bool :=
  in_range 2 (ce_context_id c) && wf_syntax_id (ce_abstract_syntax c)
  && forallb wf_syntax_id (ce_transfer_syntaxes c) && in_range 2 (len (ce_transfer_syntaxes c)).

(* ---- ContextResult ---------------------------------------------------------------------------- *)
Record context_result := { cr_result : Z; cr_reason : Z; cr_syntax : bytes; cr_syntax_version : Z }.

Definition context_result_pack (r : context_result) : bytes :=
  concat [ le 2 (cr_result r); le 2 (cr_reason r); cr_syntax r; le 4 (cr_syntax_version r) ].

Definition context_result_unpack (view : bytes) : res context_result :=
  let* result := enum_lookup c_ContextResultCode_values (le_val (slice None (Some 2) view)) in
  let reason := le_val (slice (Some 2) (Some 4) view) in
  let* syntax := uuid_of_bytes_le (slice (Some 4) (Some 20) view) in
  Ok {| cr_result := result; cr_reason := reason; cr_syntax := syntax;
        cr_syntax_version := le_val (slice (Some 20) (Some 24) view) |}.

Definition wf_context_result (r : context_result) : bool :=
  mem (cr_result r) c_ContextResultCode_values && in_range 2 (cr_reason r) && wf_uuid (cr_syntax r)
  && in_range 4 (cr_syntax_version r).

(* ---- Bind / AlterContext ---------------------------------------------------------------------- *)
Record bind_msg := {
  b_header : pdu_header; b_sec_trailer : option sec_trailer;
  b_max_xmit_frag : Z; b_max_recv_frag : Z; b_assoc_group : Z; b_contexts : list context_element }.

Definition bind_body (m : bind_msg) : bytes :=
  concat [ le 2 (b_max_xmit_frag m); le 2 (b_max_recv_frag m); le 4 (b_assoc_group m);
           le 4 (len (b_contexts m)); concat (map context_element_pack (b_contexts m)) ].
Definition bind_pack (m : bind_msg) : bytes :=
  pdu_header_pack (b_header m) ++ bind_body m ++ opt_sec_trailer_pack (b_sec_trailer m).

Definition bind_unpack (fuel : nat) (view : bytes) (header : pdu_header) (st : option sec_trailer) : res (bind_msg * Z) :=
  let max_xmit_frag := le_val (slice None (Some 2) view) in
  let max_recv_frag := le_val (slice (Some 2) (Some 4) view) in
  let assoc_group := le_val (slice (Some 4) (Some 8) view) in
  let* num_contexts := index view 8 in
  let view := slice (Some 12) None view in
  let* (s, ticks) := for_range fuel num_contexts
      (fun '(view, acc) =>
         let* (c, t) := context_element_unpack fuel view in
         Ok ((slice (Some (24 + len (ce_transfer_syntaxes c) * 20)) None view, acc ++ [c]), t))
      (view, []) 0 in
  Ok ({| b_header := header; b_sec_trailer := st; b_max_xmit_frag := max_xmit_frag;
         b_max_recv_frag := max_recv_frag; b_assoc_group := assoc_group; b_contexts := snd s |}, ticks).

(* num_contexts is read back from one octet: 0..255 contexts *)
Definition wf_bind_as (pt : Z) (m : bind_msg) : bool :=
  wf_pdu_header (b_header m) && (h_packet_type (b_header m) =? pt)
  && wf_lengths (b_header m) (len (bind_pack m)) (b_sec_trailer m)
  && in_range 2 (b_max_xmit_frag m) && in_range 2 (b_max_recv_frag m) && in_range 4 (b_assoc_group m)
  && forallb wf_context_element (b_contexts m) && in_range 1 (len (b_contexts m)).
Definition wf_bind := wf_bind_as c_PT_BIND.
Definition wf_alter_context := wf_bind_as c_PT_ALTER_CONTEXT.

(* ---- BindAck / AlterContextResponse ----------------------------------------------------------- *)
Record bind_ack := {
  ba_header : pdu_header; ba_sec_trailer : option sec_trailer;
  ba_max_xmit_frag : Z; ba_max_recv_frag : Z; ba_assoc_group : Z; ba_sec_addr : list Z;
  ba_results : list context_result }.

(* b_sec_addr = sec_addr.encode("utf-8") + b"\x00" if sec_addr else b"" (UnicodeEncodeError is a ValueError) *)
Definition sec_addr_bytes (sec_addr : list Z) : res bytes :=
  match sec_addr with
  | [] => Ok []
  | _ => let* e := utf8_encode sec_addr in Ok (e ++ [0])
  end.

Definition bind_ack_body_of (m : bind_ack) (b_sec_addr : bytes) : bytes :=
  let sec_addr_len := len b_sec_addr in
  let padding := k_bindack_pack_pad sec_addr_len in
  concat [ le 2 (ba_max_xmit_frag m); le 2 (ba_max_recv_frag m); le 4 (ba_assoc_group m);
           le 2 sec_addr_len; b_sec_addr; repeat 0 (Z.to_nat padding);
           le 4 (len (ba_results m)); concat (map context_result_pack (ba_results m)) ].
Definition bind_ack_pack (m : bind_ack) : res bytes :=
  let* b_sec_addr := sec_addr_bytes (ba_sec_addr m) in
  Ok (pdu_header_pack (ba_header m) ++ bind_ack_body_of m b_sec_addr ++ opt_sec_trailer_pack (ba_sec_trailer m)).

Definition bind_ack_unpack (fuel : nat) (view : bytes) (header : pdu_header) (st : option sec_trailer)
  : res (bind_ack * Z) :=
  let max_xmit_frag := le_val (slice None (Some 2) view) in
  let max_recv_frag := le_val (slice (Some 2) (Some 4) view) in
  let assoc_group := le_val (slice (Some 4) (Some 8) view) in
  let sec_addr_len := le_val (slice (Some 8) (Some 10) view) in
  let* sec_addr := utf8_decode (slice (Some 10) (Some (10 + sec_addr_len - 1)) view) in
  let padding := k_bindack_unpack_pad sec_addr_len in
  let view := slice (Some (10 + sec_addr_len + padding)) None view in
  let* num_result := index view 0 in
  let view := slice (Some 4) None view in
  let* (s, ticks) := for_range fuel num_result
      (fun '(view, acc) => let* r := context_result_unpack view in Ok ((slice (Some 24) None view, acc ++ [r]), 0))
      (view, []) 0 in
  Ok ({| ba_header := header; ba_sec_trailer := st; ba_max_xmit_frag := max_xmit_frag;
         ba_max_recv_frag := max_recv_frag; ba_assoc_group := assoc_group; ba_sec_addr := sec_addr;
         ba_results := snd s |}, ticks).

(* the secondary address with its NUL must fit the two-octet length; results 0..255 (one octet read back) *)
Definition wf_bind_ack_as (pt : Z) (m : bind_ack) (packed : bytes) (b_sec_addr : bytes) : bool :=
  wf_pdu_header (ba_header m) && (h_packet_type (ba_header m) =? pt)
  && wf_lengths (ba_header m) (len packed) (ba_sec_trailer m)
  && in_range 2 (ba_max_xmit_frag m) && in_range 2 (ba_max_recv_frag m) && in_range 4 (ba_assoc_group m)
  && wfstr (ba_sec_addr m) && in_range 2 (len b_sec_addr)
  && forallb wf_context_result (ba_results m) && in_range 1 (len (ba_results m)).

(* ---- BindNak ---------------------------------------------------------------------------------- *)
Record bind_nak := {
  bn_header : pdu_header; bn_sec_trailer : option sec_trailer; bn_reject_reason : Z; bn_versions : list (Z * Z) }.

Definition bind_nak_body (m : bind_nak) : bytes :=
  let protocols := map (fun v => le 1 (fst v) ++ le 1 (snd v)) (bn_versions m) in
  let b_versions := concat [ le 1 (len protocols); concat protocols ] in
  let padding := k_bindnak_pad (len b_versions) in
  concat [ le 2 (bn_reject_reason m); b_versions; repeat 0 (Z.to_nat padding) ].
(* BindNak.pack does not emit a security trailer *)
Definition bind_nak_pack (m : bind_nak) : bytes := pdu_header_pack (bn_header m) ++ bind_nak_body m.

Definition bind_nak_unpack (fuel : nat) (view : bytes) (header : pdu_header) (st : option sec_trailer)
  : res (bind_nak * Z) :=
  let reject_reason := le_val (slice None (Some 2) view) in
  let* num_versions := index view 2 in
  let view := slice (Some 3) None view in
  let* (s, ticks) := for_range fuel num_versions
      (fun '(view, acc) =>
         let* a := index view 0 in let* b := index view 1 in
         Ok ((slice (Some 2) None view, acc ++ [(a, b)]), 0))
      (view, []) 0 in
  Ok ({| bn_header := header; bn_sec_trailer := None; bn_reject_reason := reject_reason; bn_versions := snd s |}, ticks).

Definition wf_bind_nak (m : bind_nak) : bool :=
  wf_pdu_header (bn_header m) && (h_packet_type (bn_header m) =? c_PT_BIND_NAK)
  && wf_lengths (bn_header m) (len (bind_nak_pack m)) None
  && match bn_sec_trailer m with None => true | Some _ => false end
  && in_range 2 (bn_reject_reason m)
  && forallb (fun v => in_range 1 (fst v) && in_range 1 (snd v)) (bn_versions m) && in_range 1 (len (bn_versions m)).

(* ---- bind_time_feature_negotiation(flags): UUID(fields=(0x6CB71C2C, 0x9812, 0x4540, flags, 0, 0)) -- *)
Definition bind_time_feature_negotiation (flags : Z) : syntax_id :=
  {| sy_uuid := firstn 8 c_BTFN_uuid ++ [flags] ++ skipn 9 c_BTFN_uuid;
     sy_version := c_BTFN_version; sy_version_minor := c_BTFN_version_minor |}.
