(* _rpc/_verification.py: verification trailer commands (bitmask1, pcontext, header2, unknown) and the
   command loop.  A known command keeps the raw `value` bytes after unpack (object.__setattr__) but
   packs from its typed fields; cmd_value is that raw cache.  CommandType has a _missing_ hook (every
   14-bit value is a member), CommandFlags is an IntFlag.  No proofs in this file. *)
From V Require Export Model.Bind.

Inductive cmd_kind :=
| CK_Generic
| CK_Bitmask (bits : Z)
| CK_PContext (interface_id transfer_syntax : syntax_id)
| CK_Header2 (packet_type : Z) (data_rep : data_rep) (call_id context_id opnum : Z).

Record command := { cmd_kind_of : cmd_kind; cmd_command : Z; cmd_flags : Z; cmd_value : bytes }.

(* Command.pack *)
Definition command_generic_pack (command flags : Z) (value : bytes) : bytes :=
  concat [ le 2 (Z.lor command flags); le 2 (len value); value ].

Definition header2_value (packet_type : Z) (dr : data_rep) (call_id context_id opnum : Z) : bytes :=
  concat [ le 1 packet_type; [0; 0; 0]; data_rep_pack dr; le 4 call_id; le 2 context_id; le 2 opnum ].

(* the value a command emits: typed fields for the known kinds, the stored bytes otherwise *)
Definition command_value (c : command) : bytes :=
  match cmd_kind_of c with
  | CK_Generic => cmd_value c
  | CK_Bitmask bits => le 4 bits
  | CK_PContext i t => syntax_id_pack i ++ syntax_id_pack t
  | CK_Header2 pt dr call ctx op => header2_value pt dr call ctx op
  end.
(* self.command of a known class is its init=False default *)
Definition command_type (c : command) : Z :=
  match cmd_kind_of c with
  | CK_Generic => cmd_command c
  | CK_Bitmask _ => c_CMD_BITMASK_1
  | CK_PContext _ _ => c_CMD_PCONTEXT
  | CK_Header2 _ _ _ _ _ => c_CMD_HEADER2
  end.
Definition command_pack (c : command) : bytes :=
  command_generic_pack (command_type c) (cmd_flags c) (command_value c).

Definition command_unpack (view : bytes) : res command :=
  let cmd_field := le_val (slice None (Some 2) view) in
  let command_type := k_cmd_type_mask cmd_field in
  let command_flags := k_cmd_flags_mask cmd_field in
  let command_length := le_val (slice (Some 2) (Some 4) view) in
  let value := slice (Some 4) (Some (4 + command_length)) view in
  let* kind :=
    if command_type =? c_CMD_BITMASK_1 then Ok (CK_Bitmask (le_val value))
    else if command_type =? c_CMD_PCONTEXT then
      let* interface_id := syntax_id_unpack value in
      let* transfer_syntax := syntax_id_unpack (slice (Some 20) None value) in
      Ok (CK_PContext interface_id transfer_syntax)
    else if command_type =? c_CMD_HEADER2 then
      let* b0 := index value 0 in
      let* packet_type := enum_lookup c_PacketType_values b0 in
      let* dr := data_rep_unpack (slice (Some 4) (Some 8) value) in
      Ok (CK_Header2 packet_type dr (le_val (slice (Some 8) (Some 12) value))
            (le_val (slice (Some 12) (Some 14) value)) (le_val (slice (Some 14) (Some 16) value)))
    else Ok CK_Generic in
  Ok {| cmd_kind_of := kind; cmd_command := command_type; cmd_flags := command_flags; cmd_value := value |}.

(* what unpack (pack c) returns: same typed fields, raw cache = what pack emits *)
Definition command_norm (c : command) : command :=
  {| cmd_kind_of := cmd_kind_of c; cmd_command := command_type c; cmd_flags := cmd_flags c; cmd_value := command_value c |}.

Definition wf_command (c : command) : bool :=
  mem (cmd_flags c) [0; 16384; 32768; 49152] && in_range 2 (len (command_value c)) && wfb (command_value c)
  && match cmd_kind_of c with
     | CK_Generic => (0 <=? cmd_command c) && (cmd_command c <? 16384) && negb (mem (cmd_command c) c_CMD_registry)
     | CK_Bitmask bits => in_range 4 bits
     | CK_PContext i t => wf_syntax_id i && wf_syntax_id t
     | CK_Header2 pt dr call ctx op =>
         mem pt c_PacketType_values && wf_data_rep dr && in_range 4 call && in_range 2 ctx && in_range 2 op
     end.

(* ---- VerificationTrailer ---------------------------------------------------------------------- *)
Definition verification_trailer_pack (commands : list command) : bytes :=
  concat [ c_VT_signature; concat (map command_pack commands) ].

(* while True: [repair of D9: if len(view) < 4: raise ValueError] cmd = Command.unpack(view); append;
   view = view[4 + len(cmd.value):]; if cmd.flags & SEC_VT_COMMAND_END: break *)
Fixpoint vt_loop (fuel : nat) (view : bytes) (acc : list command) (ticks : Z) : res (list command * Z) :=
  match fuel with
  | O => Raise OutOfFuel
  | S f =>
    if k_vt_guard (len view) then Raise ValueError else
    let* cmd := command_unpack view in
    let view := slice (Some (4 + len (cmd_value cmd))) None view in
    if negb (k_vt_end_mask (cmd_flags cmd) c_SEC_VT_COMMAND_END =? 0) then Ok (acc ++ [cmd], ticks + 1)
    else vt_loop f view (acc ++ [cmd]) (ticks + 1)
  end.

Definition verification_trailer_unpack (fuel : nat) (view : bytes) : res (list command * Z) :=
  if negb (bytes_eqb (slice None (Some 8) view) c_VT_signature) then Raise ValueError else
  vt_loop fuel (slice (Some 8) None view) [] 0.

(* exactly the last command carries SEC_VT_COMMAND_END *)
Fixpoint wf_commands (l : list command) : bool :=
  match l with
  | [] => false
  | [c] => wf_command c && negb (Z.land (cmd_flags c) c_SEC_VT_COMMAND_END =? 0)
  | c :: r => wf_command c && (Z.land (cmd_flags c) c_SEC_VT_COMMAND_END =? 0) && wf_commands r
  end.
