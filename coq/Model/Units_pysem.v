(* Self-test of the flow semantics: runs a regenerated flow of vlib/pysem_src.py (gen/F_pysem.v) in the standard world with
   an EMPTY extension on arguments given as boundary values. The Python side runs the same function in CPython. *)
From V Require Import Prelude.PyAst.
From V Require Import Prelude.Base Prelude.Val Prelude.PyWorld Prelude.PyAstMut gen.F_pysem.
Import ListNotations.
Local Open Scope string_scope.

Definition PV := pv Empty_set.

Fixpoint to_pv (v : val) : PV :=
  match v with
  | Val.VI z => PyWorld.VI z
  | Val.VB b => PyWorld.VB b
  | Val.VS s => PyWorld.VS s
  | Val.VL l => PyWorld.VL (map to_pv l)
  | Val.VN => PyWorld.VN
  | Val.VE _ => PyWorld.VN
  end.
Fixpoint of_pv (v : PV) : val :=
  match v with
  | PyWorld.VI z => Val.VI z
  | PyWorld.VB b => Val.VB b
  | PyWorld.VS s => Val.VS s
  | PyWorld.VL l => Val.VL (map of_pv l)
  | PyWorld.VT l => Val.VL (map of_pv l)
  | PyWorld.VN => Val.VN
  | PyWorld.VO o => match o with end
  end.

Fixpoint find_flow (n : string) (l : list (string * pfun)) : option pfun :=
  match l with
  | [] => None
  | (k, f) :: r => if String.eqb n k then Some f else find_flow n r
  end.

Fixpoint string_of_codes (l : list Z) : string :=
  match l with
  | [] => EmptyString
  | c :: r => String (Ascii.ascii_of_N (Z.to_N c)) (string_of_codes r)
  end.

(* [name, [args...]] -> result; while loops get 100000 iterations of fuel *)
Definition u_pysem_run (a : val) : val :=
  match a with
  | Val.VL [Val.VS name; Val.VL args] =>
    match find_flow (string_of_codes name) pysem_flows with
    | Some f => vres of_pv (run (std_world (no_ext Empty_set)) 100000 f (map to_pv args))
    | None => Val.VE KeyError
    end
  | _ => bad
  end.

(* the same through the second interpreter (Prelude/PyAstMut.v) with no argument-mutating callee declared *)
Definition mw0 : mworld PV :=
  {| mw_base := std_world (no_ext Empty_set); mw_call_mut := fun _ _ => None; mw_meth_mut := fun _ _ _ => None |}.
Definition u_pysem_run_mut (a : val) : val :=
  match a with
  | Val.VL [Val.VS name; Val.VL args] =>
    match find_flow (string_of_codes name) pysem_flows with
    | Some f => vres (fun p => of_pv (fst p)) (run_mut mw0 100000 f (map to_pv args))
    | None => Val.VE KeyError
    end
  | _ => bad
  end.

Definition units : list (string * (val -> val)) := [ ("pysem.run", u_pysem_run); ("pysem.run_mut", u_pysem_run_mut) ].

Fixpoint lookup (n : string) (l : list (string * (val -> val))) : option (val -> val) :=
  match l with
  | [] => None
  | (k, f) :: r => if String.eqb n k then Some f else lookup n r
  end.
Definition run (name : string) (arg : val) : val :=
  match lookup name units with Some f => f arg | None => Val.VE KeyError end.
