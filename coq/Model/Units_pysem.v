(* Self-test of the flow semantics: runs a regenerated flow of vlib/pysem_src.py (gen/F_pysem.v) in the standard world with
   an EMPTY extension on arguments given as boundary values. The Python side runs the same function in CPython. *)
From V Require Import Prelude.PyAst.
From V Require Import Prelude.Base Prelude.Val Prelude.PyWorld Prelude.PyAstMut gen.F_pysem.
Import ListNotations.
Local Open Scope string_scope.

Definition PV := pv Empty_set.

Fixpoint to_pv (v : val) : PV :=
  match v with
  | Val.VI z => PyWorld.VI z
  | Val.VB b => PyWorld.VB b
  | Val.VS s => PyWorld.VS s
  | Val.VL l => PyWorld.VL (map to_pv l)
  | Val.VN => PyWorld.VN
  | Val.VE _ => PyWorld.VN
  end.
Fixpoint of_pv (v : PV) : val :=
  match v with
  | PyWorld.VI z => Val.VI z
  | PyWorld.VB b => Val.VB b
  | PyWorld.VS s => Val.VS s
  | PyWorld.VL l => Val.VL (map of_pv l)
  | PyWorld.VT l => Val.VL (map of_pv l)
  | PyWorld.VN => Val.VN
  | PyWorld.VO o => match o with end
  end.

Fixpoint find_flow (n : string) (l : list (string * pfun)) : option pfun :=
  match l with
  | [] => None
  | (k, f) :: r => if String.eqb n k then Some f else find_flow n r
  end.

Fixpoint string_of_codes (l : list Z) : string :=
  match l with
  | [] => EmptyString
  | c :: r => String (Ascii.ascii_of_N (Z.to_N c)) (string_of_codes r)
  end.

(* [name, [args...]] -> result; while loops get 100000 iterations of fuel *)
Definition u_pysem_run (a : val) : val :=
  match a with
  | Val.VL [Val.VS name; Val.VL args] =>
    match find_flow (string_of_codes name) pysem_flows with
    | Some f => vres of_pv (run (std_world (no_ext Empty_set)) 100000 f (map to_pv args))
    | None => Val.VE KeyError
    end
  | _ => bad
  end.

(* the same through the second interpreter (Prelude/PyAstMut.v) with no argument-mutating callee declared *)
Definition mw0 : mworld PV :=
  {| mw_base := std_world (no_ext Empty_set); mw_call_mut := fun _ _ => None; mw_meth_mut := fun _ _ _ => None |}.
Definition u_pysem_run_mut (a : val) : val :=
  match a with
  | Val.VL [Val.VS name; Val.VL args] =>
    match find_flow (string_of_codes name) pysem_flows with
    | Some f => vres (fun p => of_pv (fst p)) (run_mut mw0 100000 f (map to_pv args))
    | None => Val.VE KeyError
    end
  | _ => bad
  end.

(* ---- objects: Box (items, n, tag) and the writer W of vlib/pysem_src.py, to exercise attribute stores, receivers that are attribute
   paths (PyAstMut's place_set) and `with` ---- *)
Inductive pobj :=
| OBox (items : list (pv pobj)) (n : Z) (tag : bytes)
| OW (data : bytes).
Definition OV := pv pobj.
Fixpoint to_ov (v : val) : OV :=
  match v with
  | Val.VI z => PyWorld.VI z | Val.VB b => PyWorld.VB b | Val.VS s => PyWorld.VS s
  | Val.VL l => PyWorld.VL (map to_ov l) | Val.VN => PyWorld.VN | Val.VE _ => PyWorld.VN
  end.
Fixpoint of_ov (v : OV) : val :=
  match v with
  | PyWorld.VI z => Val.VI z | PyWorld.VB b => Val.VB b | PyWorld.VS s => Val.VS s
  | PyWorld.VL l => Val.VL (map of_ov l) | PyWorld.VT l => Val.VL (map of_ov l)
  | PyWorld.VN => Val.VN | PyWorld.VO _ => Val.VE TypeError
  end.
Definition obj_ext : ext pobj :=
  {| x_glob := fun _ => None;
     x_attr := fun a v =>
       match v with
       | VO (OBox items n tag) =>
         if String.eqb a "items" then Some (Ok (PyWorld.VL items)) else if String.eqb a "n" then Some (Ok (PyWorld.VI n))
         else if String.eqb a "tag" then Some (Ok (PyWorld.VB tag)) else None
       | _ => None
       end;
     x_setattr := fun a o v =>
       match o, v with
       | VO (OBox items n tag), PyWorld.VL l => if String.eqb a "items" then Some (Ok (VO (OBox l n tag))) else None
       | VO (OBox items n tag), PyWorld.VI z => if String.eqb a "n" then Some (Ok (VO (OBox items z tag))) else None
       | VO (OBox items n tag), PyWorld.VB b => if String.eqb a "tag" then Some (Ok (VO (OBox items n b))) else None
       | _, _ => None
       end;
     x_call := fun f args =>
       if String.eqb f "Box" then match args with [] => Some (Ok (VO (OBox [] 0 []))) | _ => None end
       else if String.eqb f "W" then match args with [] => Some (Ok (VO (OW []))) | _ => None end
       else None;
     x_meth := fun m r args =>
       match r with
       | VO (OW d) =>
         if String.eqb m "push" then match args with [] => Some (Ok (VO (OW []), r)) | _ => None end
         else if String.eqb m "put" then match args with [PyWorld.VB b] => Some (Ok (PyWorld.VN, VO (OW (d ++ b)%list))) | _ => None end
         else if String.eqb m "get" then match args with [] => Some (Ok (PyWorld.VB d, r)) | _ => None end
         else None
       | _ => None
       end;
     x_truthy := fun _ => Ok true;
     x_eqb := fun _ _ => None;
     x_iter := fun _ => Raise TypeError;
     x_enter := fun v => Ok v;
     x_exit := fun child owner =>
       match child, owner with
       | VO (OW c), Some (VO (OW p)) => Ok (Some (VO (OW (p ++ [91] ++ c ++ [93])%list)))
       | _, _ => Ok owner
       end;
     x_exc := fun _ => None |}.
Definition mwo : mworld OV :=
  {| mw_base := std_world obj_ext; mw_call_mut := fun _ _ => None; mw_meth_mut := fun _ _ _ => None |}.
Definition u_pysem_obj_mut (a : val) : val :=
  match a with
  | Val.VL [Val.VS name; Val.VL args] =>
    match find_flow (string_of_codes name) pysem_flows with
    | Some f => vres (fun p => of_ov (fst p)) (run_mut mwo 100000 f (map to_ov args))
    | None => Val.VE KeyError
    end
  | _ => bad
  end.
(* the first interpreter on the same objects *)
Definition u_pysem_obj (a : val) : val :=
  match a with
  | Val.VL [Val.VS name; Val.VL args] =>
    match find_flow (string_of_codes name) pysem_flows with
    | Some f => vres of_ov (PyAst.run (std_world obj_ext) 100000 f (map to_ov args))
    | None => Val.VE KeyError
    end
  | _ => bad
  end.

Definition units : list (string * (val -> val)) :=
  [ ("pysem.run", u_pysem_run); ("pysem.run_mut", u_pysem_run_mut); ("pysem.obj_mut", u_pysem_obj_mut); ("pysem.obj", u_pysem_obj) ].

Fixpoint lookup (n : string) (l : list (string * (val -> val))) : option (val -> val) :=
  match l with
  | [] => None
  | (k, f) :: r => if String.eqb n k then Some f else lookup n r
  end.
Definition run (name : string) (arg : val) : val :=
  match lookup name units with Some f => f arg | None => Val.VE KeyError end.
