(* _gkdi.py: GroupKeyEnvelope.get_kek / new_kek, compute_kek_from_public_key, compute_kek,
   compute_public_key -- parametrised by the Crypto record (KDFs, ECDH); finite-field DH is
   concrete (Python's three-argument pow). The RNG (os.urandom) is an explicit argument.
   No proofs here (Proofs/Kek*.v). *)
From Coq Require Import String.
From V Require Import Prelude.Base Prelude.PyInt Prelude.PySlice Prelude.PyStr.
From V Require Import gen.Consts gen.C_gkdi gen.K_gkdi.
From V Require Import Model.Types Model.Crypto Model.Sym Model.Chain Model.KeyId Model.Gkdi.

(* "...".encode("utf-16-le") of an ASCII literal *)
Definition utf16_lit (s : string) : bytes :=
  match utf16le_encode (ascii_str s) with Ok b => b | Raise _ => [] end.
Definition KEK_CONTEXT : bytes := utf16_lit "KDS public key" ++ [0; 0].     (* "KDS public key\0" *)
Definition KEK_ALGORITHM_ID : bytes := utf16_lit "SHA512" ++ [0; 0].        (* "SHA512\0" *)
Definition STR_KDF_ALG : pystr := ascii_str "SP800_108_CTR_HMAC".
Definition STR_DH : pystr := ascii_str "DH".
Definition STR_ECDH_P : pystr := ascii_str "ECDH_P".

(* str.startswith *)
Fixpoint startswith (s prefix : pystr) : bool :=
  match prefix, s with
  | [], _ => true
  | p :: pr, c :: sr => (c =? p) && startswith sr pr
  | _ :: _, [] => false
  end.

(* pow(base, exp, mod) for exp >= 0 and mod >= 0: ValueError when mod == 0 *)
Definition py_pow3 (b e m : Z) : res Z := if m =? 0 then Raise ValueError else Ok (modpow b e m).

(* (dh_pub_key.key_length, dh_pub_key.field_order, dh_pub_key.generator) != (dh_params.key_length, dh_params.field_order,
   dh_params.generator): a tuple comparison (not expressible as a regenerated kernel; tied by the flow tie of compute_kek) *)
Definition dh_params_mismatch (k : ffcdh_key) (p : ffcdh_params) : bool :=
  negb ((ffk_key_length k =? ffp_key_length p) && (ffk_field_order k =? ffp_field_order p) && (ffk_generator k =? ffp_generator p)).

Section WithCrypto.
Context (c : Crypto).

Definition compute_kek (algorithm : hash) (secret_algorithm : pystr) (secret_parameters private_key public_key : bytes) : res bytes :=
  let* (shared_secret, secret_hash_algorithm) :=
    (if str_eqb secret_algorithm STR_DH then
       let* dh_pub_key := FFCDHKey_unpack public_key in
       (* repair of D16: the peer's key must use the parameters of the group key (secret_parameters or b"" is the
          argument itself for bytes) and be a non-degenerate group element *)
       let* dh_params := FFCDHParameters_unpack secret_parameters in
       if dh_params_mismatch dh_pub_key dh_params then Raise ValueError else
       if k_dh_pub_bad (ffk_public_key dh_pub_key) (ffk_field_order dh_pub_key) then Raise ValueError else
       let* shared_secret_int := py_pow3 (ffk_public_key dh_pub_key) (be_val private_key) (ffk_field_order dh_pub_key) in
       let* shared_secret := to_bytes_be_z (ffk_key_length dh_pub_key) shared_secret_int in
       Ok (shared_secret, SHA256)
     else if startswith secret_algorithm STR_ECDH_P then
       let* ecdh_pub_key_info := ECDHKey_unpack public_key in
       let* (curve, secret_hash_algorithm) := curve_and_hash ecdh_pub_key_info in
       (* EllipticCurvePublicNumbers(x, y, curve).public_key(); derive_private_key(d, curve); exchange *)
       let* shared_secret := ec_dh c curve (be_val private_key) (eck_x ecdh_pub_key_info, eck_y ecdh_pub_key_info) in
       Ok (shared_secret, secret_hash_algorithm)
     else Raise NotImplementedError) in
  let kek_context := KEK_CONTEXT in
  let secret := concat_kdf c secret_hash_algorithm shared_secret
                  (KEK_ALGORITHM_ID ++ kek_context ++ c_KDS_SERVICE_LABEL) (digest_size secret_hash_algorithm) in
  Ok (kdf c algorithm secret c_KDS_SERVICE_LABEL kek_context k_kek_len_pub).

Definition compute_kek_from_public_key (algorithm : hash) (seed : bytes) (secret_algorithm : pystr)
    (secret_parameters public_key : bytes) (private_key_length : Z) : res bytes :=
  let* alg_ctx := encode_utf16z secret_algorithm in
  let private_key := kdf c algorithm seed c_KDS_SERVICE_LABEL alg_ctx private_key_length in
  compute_kek algorithm secret_algorithm secret_parameters private_key public_key.

Definition compute_public_key (secret_algorithm : pystr) (secret_parameters private_key peer_public_key : bytes) : res bytes :=
  if str_eqb secret_algorithm STR_DH then
    let* dh_pub_key := FFCDHKey_unpack peer_public_key in
    let* my_pub_key := py_pow3 (ffk_generator dh_pub_key) (be_val private_key) (ffk_field_order dh_pub_key) in
    FFCDHKey_pack {| ffk_key_length := ffk_key_length dh_pub_key; ffk_field_order := ffk_field_order dh_pub_key;
                     ffk_generator := ffk_generator dh_pub_key; ffk_public_key := my_pub_key |}
  else if startswith secret_algorithm STR_ECDH_P then
    let* ecdh_pub_key := ECDHKey_unpack peer_public_key in
    let* (curve, _) := curve_and_hash ecdh_pub_key in
    let* (x, y) := ec_pub c curve (be_val private_key) in
    ECDHKey_pack {| eck_curve_name := eck_curve_name ecdh_pub_key; eck_key_length := eck_key_length ecdh_pub_key;
                    eck_x := x; eck_y := y |}
  else Raise NotImplementedError.

(* the KDF algorithm check and the hash named by the KDF parameters (first lines of get_kek / new_kek) *)
Definition envelope_hash (e : envelope) : res hash :=
  if negb (str_eqb (gke_kdf_alg e) STR_KDF_ALG) then Raise NotImplementedError else
  let* hash_name := KDFParameters_unpack (gke_kdf_params e) in
  hash_algorithm hash_name.

Definition get_kek (e : envelope) (key_id : key_identifier) : res bytes :=
  if gke_is_public_key e then Raise ValueError else
  if k_getkek_l0_mismatch (gke_l0 e) (kid_l0 key_id) then Raise ValueError else
  let* hash_algo := envelope_hash e in
  let* l2_key := compute_l2_key c hash_algo (kid_l1 key_id) (kid_l2 key_id) e in
  if kid_is_public_key key_id then
    compute_kek_from_public_key hash_algo l2_key (gke_secret_alg e) (gke_secret_params e) (kid_key_info key_id)
      (k_ceil_priv_get (gke_priv_len e))
  else Ok (kdf c hash_algo l2_key c_KDS_SERVICE_LABEL (kid_key_info key_id) k_kek_len_nonce_get).

(* urandom : the bytes os.urandom returns for a requested length *)
Definition new_kek (urandom : Z -> bytes) (e : envelope) : res (bytes * key_identifier) :=
  let* hash_algo := envelope_hash e in
  let* (kek, key_info) :=
    (if gke_is_public_key e then
       let private_key := urandom (k_ceil_priv_new (gke_priv_len e)) in
       let* kek := compute_kek hash_algo (gke_secret_alg e) (gke_secret_params e) private_key (gke_l2_key e) in
       let* key_info := compute_public_key (gke_secret_alg e) (gke_secret_params e) private_key (gke_l2_key e) in
       Ok (kek, key_info)
     else
       let key_info := urandom k_nonce_len in
       (* self.l2_key or compute_l2_key(hash_algo, self.l1, self.l2, self) *)
       let* seed := (match gke_l2_key e with
                     | [] => compute_l2_key c hash_algo (gke_l1 e) (gke_l2 e) e
                     | _ => Ok (gke_l2_key e)
                     end) in
       Ok (kdf c hash_algo seed c_KDS_SERVICE_LABEL key_info k_kek_len_nonce_new, key_info)) in
  Ok (kek, {| kid_version := 1; kid_flags := gke_flags e; kid_l0 := gke_l0 e; kid_l1 := gke_l1 e; kid_l2 := gke_l2 e;
              kid_rkid := gke_rkid e; kid_key_info := key_info; kid_domain := gke_domain e; kid_forest := gke_forest e |}).

(* the same with the bytes os.urandom returned for this call as the argument; the number of bytes
   requested is new_kek_rnd_len (an error when new_kek fails before reaching os.urandom) *)
Definition new_kek_rnd (e : envelope) (rnd : bytes) : res (bytes * key_identifier) := new_kek (fun _ => rnd) e.
End WithCrypto.

Definition new_kek_rnd_len (e : envelope) : res Z :=
  let* _ := envelope_hash e in
  Ok (if gke_is_public_key e then k_ceil_priv_new (gke_priv_len e) else k_nonce_len).
