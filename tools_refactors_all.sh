#!/bin/bash
# tools_refactors_all.sh : re-run every stored behaviour-preserving refactoring (refactors/<id>/patch.diff) against the property's quick
# check. Expected: OK, or VIOLATION ... no-failing-input-found (a tie or kernel no longer checks - allowed by the rules of the task);
# NEVER a failing input (that would be a false alarm of a predicate). Writes refactors/RESULTS.tsv.
set -u
cd /verif
OUT=refactors/RESULTS.tsv
: > $OUT
for id in $(ls refactors | grep -v RESULTS); do
  prop=${id%%-*}
  wt=/tmp/rw_$id
  git -C /repo worktree remove --force $wt 2>/dev/null
  git -C /repo worktree add -q --detach $wt HEAD || continue
  if ! git -C $wt apply --3way /verif/refactors/$id/patch.diff 2>/dev/null; then echo -e "$id\tpatch-does-not-apply" >> $OUT; git -C /repo worktree remove --force $wt; continue; fi
  rm -rf /tmp/verif_ref/replays
  VERIF_COPY=/tmp/verif_ref timeout 1500 ./tools_seeded.sh $prop $wt quick > /tmp/rw_run.log 2>&1
  rc=$?
  verdict=$(python3 - <<PY
import json,glob
fs=sorted(glob.glob('/tmp/verif_ref/replays/${prop}_quick_*.json'))
kinds=sorted({json.load(open(f)).get('kind') for f in fs})
print(','.join(kinds) if kinds else 'OK')
PY
)
  echo -e "$id\trc=$rc\t$verdict" >> $OUT
  git -C /repo worktree remove --force $wt
done
git -C /repo worktree prune
