#!/bin/bash
# tools_seeded_all.sh [ids...] : re-run every stored seeded change (seeded/<id>/patch.diff) against the current checks.
# For each: scratch worktree of /repo HEAD under /tmp, apply the patch, run the property's quick check from a private
# copy of /verif (tools_seeded.sh), record the verdict, remove the worktree. Writes seeded/RESULTS.tsv.
set -u
cd /verif
OUT=seeded/RESULTS.tsv
IDS=${@:-$(ls seeded | grep -v RESULTS)}
[ $# -eq 0 ] && : > $OUT
for id in $IDS; do
  prop=${id%%-*}
  wt=/tmp/sw_$id
  git -C /repo worktree remove --force $wt 2>/dev/null
  git -C /repo worktree add -q --detach $wt HEAD || { echo -e "$id\tworktree-failed" >> $OUT; continue; }
  if ! git -C $wt apply /verif/seeded/$id/patch.diff 2>/dev/null; then
    if ! git -C $wt apply --3way /verif/seeded/$id/patch.diff 2>/tmp/sw_apply.log; then
      echo -e "$id\tpatch-does-not-apply" >> $OUT; git -C /repo worktree remove --force $wt; continue
    fi
  fi
  rm -rf /tmp/verif_seeded/replays
  t0=$(date +%s)
  timeout 1200 ./tools_seeded.sh $prop $wt quick > /tmp/sw_run.log 2>&1
  rc=$?
  t1=$(date +%s)
  verdict=$(python3 - <<PY
import json,glob
fs=sorted(glob.glob('/tmp/verif_seeded/replays/${prop}_quick_*.json'))
if not fs: print("none\t-\t-")
else:
    d=json.load(open(fs[0])); print(d.get('kind'),d.get('broken'),''.join(ch if 32 <= ord(ch) < 127 else '?' for ch in str(d.get('why'))[:160].replace(chr(10),' ')),sep='\t')
PY
)
  echo -e "$id\trc=$rc\t$((t1-t0))s\t$verdict" >> $OUT
  git -C /repo worktree remove --force $wt
done
git -C /repo worktree prune
echo DONE >> /tmp/sw_all.log
