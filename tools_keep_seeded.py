#!/usr/bin/env python3
"""tools_keep_seeded.py <id> <property> <worktree> "<needs>" "<caught by>" "<what I ran>" : store a confirmed seeded change under seeded/<id>/"""
import json, os, shutil, subprocess, sys
sid, prop, tree, needs, caught, ran = sys.argv[1:7]
d = os.path.join(os.path.dirname(os.path.abspath(__file__)), "seeded", sid)
os.makedirs(d, exist_ok=True)
diff = subprocess.check_output(["git", "-C", tree, "diff", "--", "src"]).decode()
open(os.path.join(d, "patch.diff"), "w").write(diff)
for f in ("demo.py", "notes.txt"):
    src = os.path.join(tree, "_mutation", f)
    if os.path.exists(src):
        shutil.copy(src, os.path.join(d, f))
json.dump({"id": sid, "breaks_property": prop, "needs_to_manifest": needs, "detected_by": caught, "what_was_run": ran,
           "base_commit": subprocess.check_output(["git", "-C", tree, "rev-parse", "HEAD"]).decode().strip()},
          open(os.path.join(d, "meta.json"), "w"), indent=1)
print("kept", d, "diff lines", len(diff.splitlines()))
