#!/usr/bin/env python3
"""Rewrites the seeded-changes table of DESIGN.md (between the SEEDED-TABLE markers) from seeded/*/meta.json and
seeded/RESULTS.tsv (last regression run of tools_seeded_all.sh)."""
import glob, json, os, re
here = os.path.dirname(os.path.abspath(__file__))
res = {}
p = os.path.join(here, "seeded", "RESULTS.tsv")
if os.path.exists(p):
    for line in open(p, errors="replace"):
        f = line.rstrip("\n").split("\t")
        if len(f) >= 5:
            res[f[0]] = (f[3], f[4])
rows = ["| seeded change (seeded/<id>/) | property | needs, in order to manifest | what catches it | last regression run |", "|---|---|---|---|---|"]
for d in sorted(glob.glob(os.path.join(here, "seeded", "*", "meta.json"))):
    m = json.load(open(d))
    r = res.get(m["id"])
    cell = f"{r[0]} ({r[1]})" if r else "-"
    if m.get("status"):
        cell = m["status"] + " [" + cell + "]"
    esc = lambda s: str(s).replace("|", "\\|").replace("\n", " ")
    rows.append(f"| `{m['id']}` | {m['breaks_property']} | {esc(m['needs_to_manifest'])} | {esc(m['detected_by'])} | {esc(cell)} |")
text = "\n".join(rows)
dp = os.path.join(here, "DESIGN.md")
s = open(dp).read()
a, b = "<!-- SEEDED-TABLE-BEGIN -->", "<!-- SEEDED-TABLE-END -->"
assert a in s and b in s
s = s[: s.index(a) + len(a)] + "\n" + text + "\n" + s[s.index(b):]
open(dp, "w").write(s)
print(len(rows) - 2, "rows")
