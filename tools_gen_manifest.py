#!/usr/bin/env python3
"""Regenerates MANIFEST.json from vlib/manifest_data.py (kept valid at all times)."""
import json, os, sys
sys.path.insert(0, os.path.dirname(os.path.abspath(__file__)))
from vlib import manifest_data as m
doc = {
    "version": 1,
    "setup_cmd": "./check setup",
    "hooks": {
        "guard": "DPAPI_NG_VERIF",
        "enable": "none needed: no source hook exists; clock, RNG, sockets, resolver and crypto are monkeypatched inside the harness process only",
        "baseline_off_cmd": "cd /repo && /venv/bin/python -m pytest -ra -q -p no:cacheprovider --timeout=900 --continue-on-collection-errors",
        "source_commits": [],
        "add_only": True,
    },
    "engines": [
        {"name": "coq-model", "path": "coq/", "serves_properties": [c["property_id"] for c in m.CHECKS],
         "kind_free_text": "Coq 8.16.1 development: Prelude (Python semantics), gen (kernels regenerated from /repo by vlib/kernels.py), Model (hand-written executable model), Proofs, Properties (theorem statements + Print Assumptions)"},
        {"name": "modelrun", "path": "build/modelrun", "serves_properties": [c["property_id"] for c in m.CHECKS],
         "kind_free_text": "OCaml extraction (ExtrOcamlBasic only) of Model/Units.v + ocaml/driver.ml; correspondence oracle"},
    ],
    "checks": m.CHECKS,
    "not_applicable": m.NOT_APPLICABLE,
    "notes": m.NOTES,
}
json.dump(doc, open(os.path.join(os.path.dirname(os.path.abspath(__file__)), "MANIFEST.json"), "w"), indent=1)
print("checks:", len(m.CHECKS), "not_applicable:", len(m.NOT_APPLICABLE))
