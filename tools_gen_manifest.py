#!/usr/bin/env python3
"""Regenerates MANIFEST.json from the MANIFEST entries of vlib/props/cXX.py (kept valid at all times)."""
import importlib, json, os, sys
HERE = os.path.dirname(os.path.abspath(__file__))
sys.path.insert(0, HERE)
from vlib import manifest_data as m
checks, na = [], []
from vlib import kernel_table as _kt
FLOWS_BY_PROP = {}
for _a, _mod in _kt.areas().items():
    if isinstance(_mod, Exception) or _a == "pysem":
        continue
    for _f in getattr(_mod, "FLOWS", []):
        for _p in _f.props:
            FLOWS_BY_PROP.setdefault(_p, []).append(_f.func)
CLAIMED = set(open(os.path.join(HERE, "vlib", "claimed.txt")).read().split())
for i in range(1, 21):
    pid = "C%02d" % i
    try:
        mod = importlib.import_module(f"vlib.props.{pid.lower()}")
        ent = getattr(mod, "MANIFEST", None)
    except ModuleNotFoundError:
        ent = None
    if ent and pid in CLAIMED:
        flows = FLOWS_BY_PROP.get(pid, [])
        fnote = ""
        if flows:
            fnote = (f" Translator tie: the whole bodies of {len(flows)} library functions ({', '.join(flows[:6])}{', ...' if len(flows) > 6 else ''}) are regenerated from "
                     "/repo on every run as syntax of a deep embedding of Python (vlib/flow.py -> coq/gen/F_<area>.v) and proved equal, for all arguments, to the model "
                     f"functions the property theorems are about (theorems {pid}_flow_* ; semantics in coq/Prelude/PyAst.v / PyAstMut.v / PyWorld.v, checked against CPython by "
                     "the unit flow.semantics); a change of any of those functions breaks its tie.")
        checks.append(m.check(pid, ent["text"], m.COMMON_NOTE + ent["note"] + fnote, ent["technique"], ent.get("design_ref", "7/" + pid)))
    else:
        na.append({"property_id": pid, "reason": (getattr(mod, "NOT_CLAIMED_REASON", None) if ent is not None or 'mod' in dir() and mod else None) or
                   "not claimed yet: the model and theorems for this property are still being built (DESIGN.md section 9); the technique applies"})
doc = {
    "version": 1,
    "setup_cmd": "./check setup",
    "hooks": {
        "guard": "DPAPI_NG_VERIF",
        "enable": "none needed: no source hook exists; clock, RNG, sockets, resolver and crypto are monkeypatched inside the harness process only",
        "baseline_off_cmd": "cd /repo && /venv/bin/python -m pytest -ra -q -p no:cacheprovider --timeout=900 --continue-on-collection-errors",
        "source_commits": [],
        "add_only": True,
    },
    "engines": [
        {"name": "coq-model", "path": "coq/", "serves_properties": [c["property_id"] for c in checks],
         "kind_free_text": "Coq 8.16.1 development: Prelude (Python semantics; PyAst/PyAstMut/PyWorld = deep embedding of the Python subset and its interpreter), gen (kernels regenerated from /repo by vlib/kernels.py; whole functions regenerated as syntax by vlib/flow.py), Model (hand-written executable model), Flow (worlds: what the names in the regenerated syntax mean in the model), Proofs (incl. the flow tie lemmas run W fuel k_flow_f args = model_f args), Properties (theorem statements + Print Assumptions)"},
        {"name": "modelrun", "path": "build/modelrun_<area>", "serves_properties": [c["property_id"] for c in checks],
         "kind_free_text": "OCaml extraction (ExtrOcamlBasic only) of Model/Units_<area>.v + ocaml/driver.ml; correspondence oracle"},
    ],
    "checks": checks,
    "not_applicable": na,
    "notes": m.NOTES,
}
json.dump(doc, open(os.path.join(HERE, "MANIFEST.json"), "w"), indent=1)
print("checks:", [c["property_id"] for c in checks], "not_applicable:", len(na))
